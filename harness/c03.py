"""C03 - derived images sit where the user placed them in space.

Implementation entry points driven (real code from $VERIF_REPO/src):
  hd.seg.Segmentation(pixel_array=hd.Volume | aligned source stack) -> (file round trip) ->
      get_volume_geometry(), get_volume(...) incl. sub-volume arguments,
      hd.Image.from_dataset(seg).get_volume(...) (base-class path),
  hd.Image.from_dataset(plain CT image: enhanced multi-frame with frames in any order / missing frames / with or
      without SpacingBetweenSlices, or single-frame).get_volume_geometry(), .get_volume(...),
  tiled Segmentation / slide Image .get_volume(...), get_volume_geometry(),
  tiled Segmentation placed by the caller (hd.Volume in the SLIDE coordinate system, or
      plane_positions=[top left corner] (+ plane_orientation / pixel_measures)) relative to a
      source image with any Z offset: recorded TotalPixelMatrixOriginSequence, geometry,
      get_volume, per-frame PlanePositionSlideSequence,
  volumes whose affine lives in a caller-owned buffer (dtype / memory layout / entry point)
      that the caller keeps using after the volume was constructed (histories),
  pixel arrays that are numpy VIEWS (transposed / Fortran order / negative strides / strided / window of a
      larger block / read-only; uint8, uint16, bool, float32, float64) handed over as a plain array aligned
      with the sources, as the total pixel matrix of a tiled segmentation, inside hd.Volume(...) /
      VolumeGeometry.with_array(...), or produced by Volume.permute_spatial_axes / swap_spatial_axes /
      to_patient_orientation / flip_spatial / __getitem__ / copy, encoded with a native (explicit / implicit
      VR) or encapsulated (RLE, JPEG-LS) transfer syntax; malformed permute / swap / flip calls,
  the same objects after they were written in DICOM file format and opened again: hd.seg.segread / hd.imread
      (fp = bytes | binary stream | path | PathLike, lazy_frame_retrieval = False | True -> io.ImageFileReader),
      get_volume combined, per segment (combine_segments=False) and by sub-region; plane / tile sizes with
      every number of pixels modulo 8 (bit-packed BINARY frames that do not start on byte boundaries),
  hd.pm.ParametricMap(source images | plane_positions [+ plane_orientation, pixel_measures]) in the PATIENT
      coordinate system with its planes listed in any order (ascending, descending, interleaved, rotated,
      shuffled; complete or with gaps; series of single-frame sources or one multi-frame source; sources with
      another geometry / number of planes than the map) and in the SLIDE coordinate system aligned with the
      frames of a TILED_FULL / TILED_SPARSE (frames in any order) source, without plane_positions or with the
      source's positions in source order / in another order / of a rectangular part of the tile grid
      (declared TotalPixelMatrixRows / Columns, get_total_pixel_matrix) -> hd.Image.from_dataset / hd.imread
      (eager, lazy) -> get_volume_geometry, get_volume(...), per-frame PlanePositionSequence + get_frame,
  HISTORIES: several requests one after the other to ONE opened object (*_seq kinds) - get_volume_geometry(),
      get_volume(), get_volume(range of slices / region), in any order, the first request being a range of slices
      / a region / the geometry / the whole volume; allow_missing_positions on / off and explicit rtol / atol per
      request, volumes assembled per segment, the object deep-copied / pickled / copied by from_dataset between
      requests; the object as constructed, read from a file eagerly or lazily, through the Segmentation or the
      Image interface; stacked segmentations of volumes and of source stacks, plain CT images, parametric maps,
      tiled segmentations / slide images,
  hd.seg.create_segmentation_pyramid(...) from one source + down-sampling factors, and (downsample_factors=None)
      from several source images of one pyramid with one or with as many masks, and from one source image
      with several masks,
  Image._standardize_slice_indices, Image._standardize_row_column_indices.
Model: coq/theories/C03_Model.v, C03_Model_PM.v, C03_Model_Seq.v; theorems: C03_Props.v.
"""
import itertools
import os
import sys
from fractions import Fraction as F

sys.path.insert(0, os.path.dirname(os.path.abspath(__file__)))
import common
from common import Err, catch, zlit, qlit, zl, zll, optz

PROPERTY = 'C03'
PROPS_FILE = 'C03_Props.v'
COQ_IMPORTS = ['C03_Model', 'C03_Model_PM', 'C03_Model_Seq']
TOL = F(1, 10**8)
ORACLE_PREMISES = [
    'float64 / numpy arithmetic (dot, cross, sqrt of column norms, division) stays within 1e-8 relative of the exact rational model',
    '16-character DS decimal strings (ImagePositionPatient, ImageOrientationPatient, PixelSpacing, SpacingBetweenSlices) lose less than 1e-8 relative',
    'np.isclose / np.allclose regularity tests and the 1e-3 perpendicularity test decide as their exact rational counterparts on the inputs explored',
    'frame storage and retrieval (pixel encoding, SQLite frame look-up, dcmwrite/dcmread) return each stored plane unchanged (properties C01/C02/C05)',
    'get_total_pixel_matrix returns the requested region of the total pixel matrix (property C04)',
    'Pillow resize returns an image of exactly the requested size (pyramid levels); its pixel content is not part of the property',
]
MODELLED = ('image.py _standardize_slice_indices, _standardize_row_column_indices, _get_stacked_volume_geometry, '
            'get_volume (stacked and tiled branch: order of refusals, region, affine); seg/sop.py constructor '
            '(Volume -> plane positions/orientation/measures, aligned sources, empty-plane omission, slice-spacing '
            'inference), Segmentation.get_volume / get_volume_geometry; volume.py _prepare_getitem_index (unit step), '
            'from_attributes; spatial.py get_volume_positions (both branches, distinct positions), '
            'create_affine_matrix_from_attributes; seg/pyramid.py level sizes and spacings (single source + factors; '
            'several sources and / or several pixel arrays: order / count / shape guards incl. the tuple comparison '
            'of pixel array shapes, which source a level is built from, copied vs scaled pixel spacing, origin); '
            'seg/sop.py tile_pixel_array branch with a caller supplied position (origin_preserved / locations '
            'preserved guards, which TotalPixelMatrixOriginSequence is recorded, refusals), '
            'spatial.py compute_tile_positions_per_frame + omission of empty tiles (per-frame positions). '
            'plain (non-segmentation) CT images read through hd.Image go through the same model functions '
            '(a `stored` record built from the frames the image holds, no spacing inference at construction). '
            'vol_hist cases are compared against the history-free model term (the model has value semantics: '
            'aliasing of caller-owned buffers, dtypes and memory layouts are outside the model). '
            'volume.py permute_spatial_axes / swap_spatial_axes / flip_spatial (guards, permuted / negated affine '
            'columns, moved origin, rearranged array; to_patient_orientation as flip_spatial then '
            'permute_spatial_axes with the permutation and flips of the case): vol_mem cases that go through these '
            'calls give the model the volume the calls START from. *_mem cases are otherwise compared against the '
            'layout-free model term: memory layout (strides, order, offset), dtype and transfer syntax of the pixel '
            'array are NOT inputs of the model (value semantics), Volume.__getitem__ with steps of +-1 / copy / '
            'with_array are compared through the volume they result in. '
            'pm/sop.py ParametricMap.__init__ (C03_Model_PM.v pm_stored): which plane positions / orientation / '
            'pixel measures are recorded (the caller\'s when given, else the sources\'; no sorting, omission or '
            'spacing inference), the count guard (ValueError), frame k = (plane position k, plane k of the pixel '
            'array); the read-back of a parametric map goes through the same stored / get_volume model; tiled '
            'parametric maps through pm_tiled_matrix / run_pm_tiled (preserved -> the source\'s origin and size; explicit '
            'positions in another order / of a rectangular part: lexsort-first origin, lexsort-last tile + tile size - 1). *_rd cases (object written to a file '
            'and opened again, eagerly or with lazy_frame_retrieval, from bytes / stream / path) are compared '
            'against the reader-free model term: HOW a stored object is opened is NOT an input of the model. '
            '*_seq cases (a history of requests to ONE object): C03_Model_Seq.v serve / serve_all - serving a request '
            'is a state transition (state = the stored record, unchanged) and the answers are those of '
            'get_volume_geometry / get_volume above, request by request (tiled_seq: a list of run_tiled terms); '
            'explicit rtol / atol, per-segment assembly and copies of the object (deepcopy, pickle, from_dataset) '
            'between requests are NOT inputs of the model')
STRATA = ['std_slice', 'std_slice_err', 'std_rc', 'std_rc_err', 'vol', 'vol_sub', 'vol_sub_err', 'src', 'src_irregular',
          'src_img',
          'tiled', 'tiled_err', 'pyramid', 'pyramid_err', 'pyr_multi', 'pyr_multi_err', 'tiled_place',
          'tiled_place_err', 'vol_hist', 'vol_mem', 'vol_mem_err', 'src_mem', 'tiled_mem', 'tiled_place_mem',
          'vol_rd', 'src_rd', 'src_img_rd', 'tiled_rd', 'pm', 'pm_err', 'pm_tiled',
          'vol_seq', 'src_seq', 'src_img_seq', 'pm_seq', 'tiled_seq']
NOT_EXECUTED = ['several focal planes in tiled images',
                'pyramids with sop_instance_uids / segment channels (rank 4) in the several-sources modes',
                'get_volume with rtol/atol other than the defaults on stacks whose acceptance depends on them (inside '
                'histories rtol=0.01 / atol=1e-3 are passed explicitly, on regular stacks only)',
                'histories: pickle / from_dataset copies of LAZILY opened objects (not supported by the library: '
                'the file reader cannot be pickled and holds no PixelData); deep copies of lazily opened objects '
                'after the original was deleted (the copy reads through a weak reference to the original); '
                'histories on irregular stacks and on plain images with missing frames and no recorded spacing; '
                'requests from several threads',
                'JPEG 2000 (no codec installed); JPEG-LS frames with fewer than 5 rows / columns (pyjpegls cannot '
                'encode them); workers != 0 (frames encoded in a process pool); pixel arrays of dtypes the '
                'constructor refuses (signed / 32-64 bit integers, big-endian)',
                'float32 / float64 parametric maps (cannot be read through the image interface at all: open '
                'finding D35 of C19); parametric maps with several channels (4D pixel arrays); tiled parametric '
                'maps with explicit plane_positions whose '
                'listed tiles do not include the top left tile / do not form a rectangle (not modelled); encapsulated transfer syntaxes for '
                'BINARY segmentations (not generated)']
RULE = ('std_*: exhaustive small cube of (start, end, n, as_indices) in all argument forms; vol: 48 signed axis '
        'permutations + rational oblique rotations x both handednesses x dyadic anisotropic spacings x positions x '
        'label maps with leading/interior/trailing empty slices x omit x segmentation type x channel/labelmap input x '
        'file round trip x Segmentation/Image API; vol_sub: every sub-volume argument form (1-based, 0-based, negative, '
        'None) in and out of range; src: aligned CT stacks in every slice order, with/without recorded spacing, '
        'irregular stacks; src_img: plain CT images (multi-frame in every frame order, missing frames, one frame, '
        'single-frame instance; recorded spacing or none; allow_missing_positions on/off; sub-volume arguments); tiled: slide images/segmentations, all in-plane orientations, regions; pyramid: factors x '
        'mask ranks; pyr_multi: 2-3 levels x (several sources + one mask | several sources + as many masks | one '
        'source + several masks) x consistent / inconsistent source spacings x shared / per-level origins x mask '
        'rank 2/3, malformed: order, equal sizes, count mismatch, shape mismatch at any level, single/single '
        'without factors; tiled_place: every subset of {dx, dy, dz} non-zero between the caller\'s origin and the source\'s '
        '(each subset at least once with everything else aligned, for both entry points) x source with/without Z '
        'offset x same/other orientation, spacing, mask shape, tile size x Volume (both handednesses) / '
        'plane_positions entry x omit x TILED_FULL/SPARSE; vol_hist: entry point (Volume, VolumeGeometry.with_array, '
        'from_components) x affine buffer dtype/layout (float64 C/F/strided view/offset view, float32, int64, '
        'big-endian) x what the caller does to the buffer afterwards (retarget, translate, scale, flip, swap, zero, '
        'nothing) x writes through arrays returned by properties; '
        'vol_mem / src_mem / tiled_mem / tiled_place_mem: memory layout of the pixel array (base block allocated '
        'with its axes in any order - C, Fortran, in-plane transposed, any permutation incl. the channel axis - x '
        'reversed axes x steps 1-3 x offsets into a larger block filled with 1s x read-only) x dtype (uint8, uint16, '
        'bool, float32, float64 where admissible) x transfer syntax (explicit, implicit, RLE, JPEG-LS from 5 x 5) x '
        'frames of 1-6 rows / columns (mostly non-square) x for volumes the Volume API call that produced the '
        'volume (none, permute_spatial_axes, swap_spatial_axes, to_patient_orientation, flip_spatial, __getitem__ '
        'with reversed axes, VolumeGeometry.with_array, copy) - each layout preset and each call at least once; '
        'vol_mem_err: permute / swap / flip with a non-permutation, a missing axis, twice the same axis. '
        'vol_rd / src_rd / src_img_rd / tiled_rd: the object is saved and opened again - reader (eager | lazy) x '
        'file argument (bytes, stream, path str, PathLike) x plane / tile size with rows * columns = 0..7 (mod 8) '
        '(each residue at least once as a lazily read BINARY volume and as a tiled segmentation) x >= 2 frames x '
        'BINARY / LABELMAP / FRACTIONAL x explicit / implicit VR (RLE where admissible) x Segmentation / Image '
        'interface x combined, per segment and sub-region reads; pm: order of the planes (sorted, reversed, '
        'shuffled, interleaved, rotated - each x each entry at least once) x entry (aligned series, aligned '
        'multi-frame source, explicit plane_positions next to sources with the same / another geometry and '
        'count) x explicit orientation / measures x recorded slice spacing or none x gaps x uint8 / uint16 x '
        'transfer syntax x reader (memory, eager file, lazy file) x allow_missing_positions x sub-volume '
        'arguments; pm_err: count of positions differs from the count of planes; pm_tiled: TILED_FULL / '
        'TILED_SPARSE source with frames in any order x plane_positions (none | the source\'s in source order | all '
        'tiles in another order | a rectangular part of the tile grid containing the top left tile, any order - '
        'each at least once) x region x reader; observed: geometry, get_volume(region), declared '
        'TotalPixelMatrixRows / Columns, get_total_pixel_matrix(). '
        'vol_seq / src_seq / src_img_seq / pm_seq / tiled_seq: a history of 2-6 requests to ONE object - first '
        'request (range of slices inside the stack | 0:b | a: given by a negative number | any documented region | '
        'undocumented region | geometry | whole volume; every kind of object x (as constructed | eager file | lazy '
        'file) at least once with a range of slices FIRST and the whole volume / the geometry later) x later '
        'requests of the same forms x "chunks" (the stack read in consecutive ranges, then geometry / whole '
        'volume) x per request allow_missing_positions, rtol / atol given explicitly, 1-based / 0-based / negative '
        '/ None arguments, per-segment assembly, deepcopy / pickle / from_dataset copy of the object before the '
        'request x Segmentation / Image interface; observed: the whole volume of a twin object that was never '
        'asked anything + every answer; '
        'non-trivial = more than one slice/voxel or a refusal (histories: more than one request); distinct by case hash')
EXHAUSTIVE = {'quick': False, 'thorough': False}

# ---------------------------------------------------------------------------------------------
# rational orientations
# ---------------------------------------------------------------------------------------------
_AX = [(1, 0, 0), (0, 1, 0), (0, 0, 1)]
SIGNED_PERMS = []          # triples of column vectors (d0, d1, d2), det = +-1
for perm in itertools.permutations(range(3)):
    for sg in itertools.product((1, -1), repeat=3):
        SIGNED_PERMS.append(tuple(tuple(F(sg[k] * x) for x in _AX[perm[k]]) for k in range(3)))
ROTS = [
    [[F(3, 5), F(-4, 5), 0], [F(4, 5), F(3, 5), 0], [0, 0, 1]],
    [[1, 0, 0], [0, F(5, 13), F(-12, 13)], [0, F(12, 13), F(5, 13)]],
    [[F(2, 3), F(-2, 3), F(1, 3)], [F(2, 3), F(1, 3), F(-2, 3)], [F(1, 3), F(2, 3), F(2, 3)]],
    [[F(15, 17), 0, F(8, 17)], [0, 1, 0], [F(-8, 17), 0, F(15, 17)]],
]


def _matvec(M, v):
    return tuple(sum(F(M[i][j]) * v[j] for j in range(3)) for i in range(3))


def _det(d):
    a, b, c = d
    return (a[0] * (b[1] * c[2] - b[2] * c[1]) - b[0] * (a[1] * c[2] - a[2] * c[1])
            + c[0] * (a[1] * b[2] - a[2] * b[1]))


def _orient(rng, oblique=None):
    d = rng.choice(SIGNED_PERMS)
    if oblique is None:
        oblique = rng.random() < 0.35
    if oblique:
        for _ in range(rng.choice([1, 1, 2])):
            M = rng.choice(ROTS)
            d = tuple(_matvec(M, v) for v in d)
    return d


def _dy(rng, lo, hi, dens=(1, 2, 4, 8)):
    return F(rng.randint(lo, hi), rng.choice(dens))


def _sp(rng):
    return F(rng.randint(1, 24), rng.choice([1, 2, 4, 8]))


def _fs(v):
    return [str(F(x)) for x in v]


def _label_array(rng, S, R, C, nseg):
    """label map with a chosen pattern of empty slices"""
    pat = rng.choice(['full', 'full', 'lead', 'trail', 'interior', 'mixed', 'mixed', 'single', 'empty'])
    empty = [False] * S
    if pat == 'lead':
        for k in range(rng.randint(1, max(1, S - 1))):
            empty[k] = True
    elif pat == 'trail':
        for k in range(rng.randint(1, max(1, S - 1))):
            empty[S - 1 - k] = True
    elif pat == 'interior' and S >= 3:
        for k in range(1, S - 1):
            empty[k] = rng.random() < 0.6
    elif pat == 'mixed':
        empty = [rng.random() < 0.4 for _ in range(S)]
    elif pat == 'single':
        keep = rng.randrange(S)
        empty = [k != keep for k in range(S)]
    elif pat == 'empty':
        empty = [True] * S
    if S == 1 and pat != 'empty':
        empty = [False]
    arr = []
    for s in range(S):
        pl = [[0] * C for _ in range(R)]
        if not empty[s]:
            for _ in range(rng.randint(1, max(1, R * C // 2))):
                pl[rng.randrange(R)][rng.randrange(C)] = rng.randint(1, nseg)
            # mark the corners often: they pin the orientation of rows / columns
            if rng.random() < 0.5:
                pl[0][C - 1] = rng.randint(1, nseg)
            if rng.random() < 0.5:
                pl[R - 1][0] = rng.randint(1, nseg)
        arr.append(pl)
    return arr


def _enc_bound(rng, v0, n, as_idx, is_end):
    """encode the zero-based bound v0 (start: 0..n-1, end exclusive: 1..n) in a random documented form"""
    forms = []
    if (not is_end and v0 == 0) or (is_end and v0 == n):
        forms += [None, None]
    forms.append(v0 if as_idx else v0 + 1)
    if v0 - n < 0:
        forms.append(v0 - n)          # negative form (same in both conventions)
    return rng.choice(forms)


def _sub_args(rng, n0, rows, cols, bad=False):
    as_idx = rng.random() < 0.5
    if not bad:
        out = {'as_idx': as_idx}
        for name, n in (('s', n0), ('r', rows), ('c', cols)):
            if rng.random() < 0.35:
                a, b = 0, n
            else:
                a = rng.randrange(n)
                b = rng.randint(a + 1, n)
            out[name + 's'] = _enc_bound(rng, a, n, as_idx, False)
            out[name + 'e'] = _enc_bound(rng, b, n, as_idx, True)
        return out
    out = {'as_idx': as_idx, 'ss': None, 'se': None, 'rs': None, 're': None, 'cs': None, 'ce': None}
    for _ in range(rng.choice([1, 1, 2])):
        name, n = rng.choice([('s', n0), ('r', rows), ('c', cols)])
        which = rng.choice(['s', 'e'])
        out[name + which] = rng.choice([0, n, n + 1, n + 2, -n, -n - 1, -n - 2, 1, -1, n - 1])
        if rng.random() < 0.5:
            other = 'e' if which == 's' else 's'
            out[name + other] = rng.randint(-n - 1, n + 1)
    return out


def _vol_case(rng, kind, rmax=4):
    S = rng.choice([1, 2, 3, 3, 4, 5, 6])
    R = rng.randint(1, rmax)
    C = rng.randint(1, rmax)
    if R * C == 1:
        C = 2
    typ = rng.choice(['BINARY', 'BINARY', 'LABELMAP', 'LABELMAP', 'FRACTIONAL'])
    nseg = 1 if typ == 'FRACTIONAL' else rng.randint(1, 3)
    d = _orient(rng)
    api = rng.choice(['seg', 'seg', 'seg', 'image'])
    if api == 'image' and typ != 'LABELMAP':
        nseg = 1
    c = {'kind': kind, 'S': S, 'R': R, 'C': C, 'typ': typ, 'nseg': nseg,
         'd': [_fs(v) for v in d], 'sp': _fs([_sp(rng), _sp(rng), _sp(rng)]),
         'pos': _fs([_dy(rng, -400, 400), _dy(rng, -400, 400), _dy(rng, -400, 400)]),
         'arr': _label_array(rng, S, R, C, nseg), 'omit': rng.random() < 0.6,
         'chan4d': typ != 'LABELMAP' and rng.random() < 0.4, 'file_rt': rng.random() < 0.3,
         'api': api, 'allow_missing': True if api == 'seg' else rng.random() < 0.6}
    c.update({'ss': None, 'se': None, 'rs': None, 're': None, 'cs': None, 'ce': None, 'as_idx': False})
    return c


def _stored_extent(arr, omit, order=None):
    """number of slices of the volume that get_volume returns (first..last stored plane);
    order[k] = position along the stacking axis of input plane k"""
    order = list(range(len(arr))) if order is None else order
    ne = sorted(order[k] for k, pl in enumerate(arr) if any(any(r) for r in pl))
    if not omit or not ne:
        return len(arr)
    return ne[-1] - ne[0] + 1


def _src_case(rng, irregular):
    S = rng.choice([2, 3, 3, 4, 5, 6]) if not irregular else rng.choice([3, 4, 5])
    R = rng.randint(1, 4)
    C = rng.randint(2, 4)
    typ = rng.choice(['BINARY', 'LABELMAP'])
    nseg = rng.randint(1, 2)
    d = _orient(rng)
    # sources: row cosines d2, column cosines d1; planes stacked along +-d0 (any slice order)
    sbs = _sp(rng)
    origin = [_dy(rng, -300, 300), _dy(rng, -300, 300), _dy(rng, -300, 300)]
    mult = list(range(S))
    if irregular:
        k = rng.randrange(1, S)
        mult = [F(m) for m in mult]
        mult[k] += rng.choice([F(1, 4), F(-1, 4), F(1, 2), F(3, 8)])
    order = list(range(S))
    mode = rng.choice(['sorted', 'reversed', 'shuffled', 'shuffled'])
    if mode == 'reversed':
        order.reverse()
    elif mode == 'shuffled':
        rng.shuffle(order)
    positions = [[origin[i] + F(mult[k]) * sbs * d[0][i] for i in range(3)] for k in order]
    arr = _label_array(rng, S, R, C, nseg)
    if irregular:
        arr = [[[1] * C for _ in range(R)] for _ in range(S)] if rng.random() < 0.5 else arr
    return {'kind': 'src_irregular' if irregular else 'src', 'S': S, 'R': R, 'C': C, 'typ': typ, 'nseg': nseg,
            'rowcos': _fs(d[2]), 'colcos': _fs(d[1]), 'spr': str(_sp(rng)), 'spc': str(_sp(rng)),
            'sbs': str(sbs), 'src_has_sbs': (not irregular) and rng.random() < 0.3, 'order': order,
            'positions': [_fs(p) for p in positions], 'arr': arr, 'omit': rng.random() < 0.6,
            'file_rt': rng.random() < 0.25, 'api': 'seg', 'allow_missing': True,
            'ss': None, 'se': None, 'rs': None, 're': None, 'cs': None, 'ce': None, 'as_idx': False}


def _img_case(rng, irregular):
    """A plain CT image (not a segmentation): enhanced multi-frame with frames on a line in any order, with or
    without missing positions / recorded slice spacing, or a single-frame image; read through hd.Image."""
    c = _src_case(rng, irregular)
    c['form'] = 'multiframe'
    if not irregular and rng.random() < 0.25:
        # one plane only: single-frame image or one-frame multi-frame image
        c['S'], c['order'] = 1, [0]
        c['positions'], c['arr'] = c['positions'][:1], c['arr'][:1]
        c['form'] = rng.choice(['single', 'multiframe'])
        c['omit'] = False
    c.update({'kind': 'src_irregular' if irregular else 'src_img', 'api': 'image', 'typ': 'LABELMAP',
              'file_rt': False, 'allow_missing': rng.random() < 0.6, 'src_has_sbs': rng.random() < 0.5})
    if not irregular and c['S'] > 1:
        n0 = _stored_extent(c['arr'], c['omit'], c['order'])
        if rng.random() < 0.5 and (c['src_has_sbs'] or not c['omit']):
            c.update(_sub_args(rng, n0, c['R'], c['C'], bad=rng.random() < 0.2))
    return c


def _img_kept(c):
    """(position, plane) of the frames the image holds: every plane, or (omit) the non-empty ones"""
    pairs = list(zip(c['positions'], c['arr']))
    if c['omit']:
        ne = [(p, a) for p, a in pairs if any(any(r) for r in a)]
        pairs = ne or pairs
    return pairs


_SLIDE_ORIENTS = []
for a, b in itertools.permutations(range(2), 2):
    for sa in (1, -1):
        for sb in (1, -1):
            _SLIDE_ORIENTS.append((tuple(F(sa * x) for x in _AX[a]), tuple(F(sb * x) for x in _AX[b])))
_SLIDE_ORIENTS += [((F(3, 5), F(4, 5), F(0)), (F(-4, 5), F(3, 5), F(0))),
                   ((F(3, 5), F(4, 5), F(0)), (F(4, 5), F(-3, 5), F(0))),
                   ((F(5, 13), F(-12, 13), F(0)), (F(12, 13), F(5, 13), F(0)))]


def _tiled_case(rng, bad):
    R, C = rng.randint(1, 9), rng.randint(1, 9)
    if R * C == 1:
        C = 3
    th, tw = rng.randint(1, 5), rng.randint(1, 5)
    rc, cc = rng.choice(_SLIDE_ORIENTS)
    api = rng.choice(['seg', 'seg', 'image'])
    M = [[0] * C for _ in range(R)]
    for _ in range(rng.randint(1, max(1, R * C // 2))):
        M[rng.randrange(R)][rng.randrange(C)] = 1
    if rng.random() < 0.5:
        M[0][C - 1] = 1
    if rng.random() < 0.5:
        M[R - 1][0] = 1
    c = {'kind': 'tiled_err' if bad else 'tiled', 'R': R, 'C': C, 'th': th, 'tw': tw,
         'rowcos': _fs(rc), 'colcos': _fs(cc), 'spr': str(_sp(rng)), 'spc': str(_sp(rng)),
         'origin': _fs([_dy(rng, 0, 200), _dy(rng, 0, 200)]), 'M': M, 'api': api,
         'typ': rng.choice(['BINARY', 'LABELMAP']), 'omit': rng.random() < 0.6,
         'tiled_full': rng.random() < 0.4,
         'srcz': rng.choice([None, None, '0', str(_dy(rng, -40, 40, (1, 2, 4, 8)))])}
    as_idx = rng.random() < 0.5
    c['as_idx'] = as_idx
    if not bad:
        for name, n in (('r', R), ('c', C)):
            if rng.random() < 0.3:
                a, b = 0, n
            else:
                a = rng.randrange(n)
                b = rng.randint(a + 1, n)
            c[name + 's'] = _enc_bound(rng, a, n, as_idx, False)
            c[name + 'e'] = _enc_bound(rng, b, n, as_idx, True)
        c['ss'] = _enc_bound(rng, 0, 1, as_idx, False)
        c['se'] = _enc_bound(rng, 1, 1, as_idx, True)
    else:
        c.update({'ss': None, 'se': None, 'rs': None, 're': None, 'cs': None, 'ce': None})
        what = rng.choice(['r', 'c', 's'])
        if what == 's':
            c['ss'], c['se'] = rng.choice([(2, None), (0, None), (None, 3), (None, -2), (1, 1), (None, 0)]) \
                if not as_idx else rng.choice([(1, None), (None, 2), (None, -2), (0, 0)])
        else:
            n = R if what == 'r' else C
            if rng.random() < 0.5:
                c[what + 's'] = rng.choice([n, n + 1, n + 3]) if as_idx else rng.choice([0, n + 1, n + 2])
            else:
                c[what + 'e'] = rng.choice([n + 1, n + 2]) if as_idx else rng.choice([n + 2, n + 3, 0, 0])
    return c


def _pyr_case(rng, bad):
    R, C = rng.randint(4, 40), rng.randint(4, 40)
    th, tw = rng.randint(2, 8), rng.randint(2, 8)
    rank = rng.choice([2, 3, 4])
    typ = rng.choice(['BINARY', 'LABELMAP']) if rank < 4 else 'BINARY'
    nseg = rng.randint(1, 2) if rank == 4 else 1
    pool = [F(3, 2), F(2), F(5, 2), F(3), F(4), F(5, 4), F(7, 4), F(6)]
    fs = sorted(rng.sample(pool, rng.randint(1, 3)))
    if bad:
        mode = rng.choice(['le1', 'order', 'toolarge', 'empty'])
        if mode == 'le1':
            fs = [rng.choice([F(1), F(1, 2), F(3, 4)])] + fs[1:]
            fs.sort()
        elif mode == 'order':
            fs = [F(3), F(2)]
        elif mode == 'toolarge':
            fs = fs + [F(max(R, C) + rng.randint(1, 5))]
        else:
            fs = []
    else:
        fs = [f for f in fs if int(R / f) >= 1 and int(C / f) >= 1] or [F(2)]
    rc, cc = rng.choice(_SLIDE_ORIENTS[:8])
    M = [[1 if rng.random() < 0.3 else 0 for _ in range(C)] for _ in range(R)]
    M[0][0] = 1
    return {'kind': 'pyramid_err' if bad else 'pyramid', 'R': R, 'C': C, 'th': th, 'tw': tw, 'rank': rank,
            'typ': typ, 'nseg': nseg, 'fs': [str(f) for f in fs], 'rowcos': _fs(rc), 'colcos': _fs(cc),
            'spr': str(_sp(rng)), 'spc': str(_sp(rng)), 'origin': _fs([_dy(rng, 0, 200), _dy(rng, 0, 200)]), 'M': M,
            'srcz': rng.choice([None, None, str(_dy(rng, -40, 40, (1, 2, 4, 8)))])}


def _pyr_multi_case(rng, bad):
    """Pyramid built with downsample_factors=None: several source images of one pyramid and one or as many
    masks, or one source image and several masks."""
    nlev = rng.choice([2, 2, 3])
    mode = rng.choice(['msrc_1pix', 'msrc_mpix', '1src_mpix'])
    R, C = rng.randint(8, 30), rng.randint(8, 30)

    def smaller(r, c):
        return (rng.choice([max(1, r // 2), rng.randint(1, r - 1)]), rng.choice([max(1, c // 2), rng.randint(1, c - 1)]))
    sizes = [(R, C)]
    while len(sizes) < nlev:
        r, c = sizes[-1]
        if r < 2 or c < 2:
            break
        sizes.append(smaller(r, c))
    nlev = len(sizes)
    spr, spc = _sp(rng), _sp(rng)
    consistent = rng.random() < 0.6
    origin = [_dy(rng, 0, 200), _dy(rng, 0, 200)]
    same_origin = rng.random() < 0.75
    srcs = []
    for k, (r, c) in enumerate(sizes):
        if k == 0 or consistent:
            a, b = spr * F(R, r), spc * F(C, c)
        else:
            a, b = _sp(rng), _sp(rng)
        o = origin if (same_origin or k == 0) else [origin[0] + _dy(rng, -8, 8), origin[1] + _dy(rng, -8, 8)]
        srcs.append({'R': r, 'C': c, 'spr': str(a), 'spc': str(b), 'origin': _fs(o)})
    if mode == 'msrc_1pix':
        pix = [list(sizes[0])]
    elif mode == 'msrc_mpix':
        pix = [list(x) for x in sizes]
    else:
        srcs = srcs[:1]
        pix = [list(sizes[0])]
        while len(pix) < nlev:
            r, c = pix[-1]
            if r < 2 or c < 2:
                break
            pix.append(list(smaller(r, c)))
        if len(pix) < 2:
            pix.append([max(1, pix[0][0] - 1), max(1, pix[0][1] - 1)])
    quirk = False
    what = None
    if bad:
        what = rng.choice(['order', 'equal', 'count', 'shape', 'pix_order', 'single'])
        if what == 'order' and len(srcs) > 1:
            i = rng.randrange(len(srcs) - 1)
            srcs[i], srcs[i + 1] = srcs[i + 1], srcs[i]
            if mode == 'msrc_mpix':
                pix[i], pix[i + 1] = pix[i + 1], pix[i]
        elif what == 'equal' and len(srcs) > 1:
            # one dimension does not decrease
            i = rng.randrange(1, len(srcs))
            key = rng.choice(['R', 'C'])
            srcs[i][key] = srcs[i - 1][key]
            if mode == 'msrc_mpix':
                pix[i] = [srcs[i]['R'], srcs[i]['C']]
        elif what == 'count' and mode == 'msrc_mpix' and len(srcs) == 3:
            pix = pix[:2]
        elif what == 'shape':
            i = rng.randrange(len(pix)) if mode == 'msrc_mpix' else 0
            pix[i] = [pix[i][0] + rng.choice([0, 1]), pix[i][1] + 1]
            if mode == '1src_mpix' or (i + 1 < len(pix)):
                pass
        elif what == 'pix_order' and mode == '1src_mpix':
            i = rng.randrange(1, len(pix))
            pix[i] = rng.choice([list(pix[i - 1]), [pix[i - 1][0] + 1, 1], [pix[i - 1][0], pix[i - 1][1] + 2]])
        else:
            what = 'single'
            srcs, pix = srcs[:1], pix[:1]
    elif mode == '1src_mpix' and rng.random() < 0.25:
        # fewer rows but not fewer columns: outside the documented 'decreasing resolution', whatever happens
        # the levels must still cover the extent of the source
        i = rng.randrange(1, len(pix))
        pix[i] = [pix[i][0], pix[i - 1][1] + rng.choice([0, 1, 3])]
        quirk = True
    rc, cc = rng.choice(_SLIDE_ORIENTS[:8])
    return {'kind': 'pyr_multi_err' if bad else 'pyr_multi', 'mode': mode, 'srcs': srcs, 'pix': pix, 'what': what,
            'quirk': quirk, 'rank': rng.choice([2, 3]), 'typ': rng.choice(['BINARY', 'LABELMAP']),
            'th': rng.randint(2, 8), 'tw': rng.randint(2, 8), 'rowcos': _fs(rc), 'colcos': _fs(cc),
            'srcz': rng.choice([None, None, str(_dy(rng, -40, 40, (1, 2, 4, 8)))])}


def _other_orient(rng, rc, cc, pool=None):
    while True:
        o = rng.choice(pool or _SLIDE_ORIENTS)
        if o != (rc, cc):
            return o


def _place_case(rng, bad=False, combo=None, aligned=False, entry=None):
    """Tiled segmentation whose total pixel matrix is placed by the caller (Volume in the SLIDE coordinate
    system or plane_positions=[top left]) relative to a source image.  combo: bit i set = the caller's origin
    differs from the source's in coordinate i (x, y, z); aligned: orientation, spacing, mask shape and tile
    size are the source's (the 'spatial locations preserved' candidates)."""
    R, C = rng.randint(2, 8), rng.randint(2, 8)
    th, tw = rng.randint(1, 4), rng.randint(1, 4)
    entry = entry or rng.choice(['volume', 'volume', 'positions'])
    if bad:
        entry = 'positions'
    same_orient = aligned or rng.random() < 0.7
    same_spacing = aligned or rng.random() < 0.7
    same_shape = aligned or rng.random() < 0.75
    combo = rng.randrange(8) if combo is None else combo
    # the constructor compares decimal strings derived from floats: keep the one case whose OUTCOME depends
    # on 'equal' (refusal of another mask shape at an otherwise identical placement) on exactly representable
    # axis-aligned orientations
    exact = (not same_shape) and same_orient and same_spacing and combo == 0
    rc, cc = rng.choice(_SLIDE_ORIENTS[:8] if exact else _SLIDE_ORIENTS)
    srcz = rng.choice([None, None, '0', str(_dy(rng, -8, 8, (1, 2, 4))), str(_dy(rng, 1, 40, (4, 8)))])
    spr, spc = _sp(rng), _sp(rng)
    origin = [_dy(rng, 0, 200), _dy(rng, 0, 200)]
    d = [(_dy(rng, 1, 24, (1, 2, 4, 8)) * rng.choice([1, -1])) if (combo >> i) & 1 else F(0) for i in range(3)]
    if same_orient:
        u_rc, u_cc = rc, cc
    else:
        u_rc, u_cc = _other_orient(rng, rc, cc)
    if same_spacing:
        u_spr, u_spc = spr, spc
    else:
        u_spr, u_spc = rng.choice([(spr * 2, spc), (spr, spc / 2), (spc + F(1, 8), spr + F(1, 4))])
    MR, MC = (R, C) if same_shape else rng.choice([(R + 1, C), (R, C - 1) if C > 2 else (R, C + 2),
                                                   (rng.randint(1, 9), rng.randint(2, 9))])
    if (MR, MC) == (R, C) and not same_shape:
        MR += 1
    if aligned:
        tile = rng.choice([None, None, [th, tw]])
    else:
        tile = rng.choice([None, None, None, [th, tw], [rng.randint(1, 4), rng.randint(1, 4)]])
    if entry == 'volume':
        o_given = m_given = True
        u_sbs = str(_sp(rng))
    else:
        o_given = (not same_orient) or rng.random() < 0.5
        m_given = (not same_spacing) or rng.random() < 0.5
        u_sbs = str(_sp(rng)) if (m_given and rng.random() < 0.5) else None
    M = [[0] * MC for _ in range(MR)]
    if rng.random() < 0.9:
        for _ in range(rng.randint(1, max(1, MR * MC // 3))):
            M[rng.randrange(MR)][rng.randrange(MC)] = 1
        if rng.random() < 0.5:
            M[0][MC - 1] = 1
        if rng.random() < 0.5:
            M[MR - 1][0] = 1
    c = {'kind': 'tiled_place_err' if bad else 'tiled_place', 'R': R, 'C': C, 'th': th, 'tw': tw,
         'rowcos': _fs(rc), 'colcos': _fs(cc), 'spr': str(spr), 'spc': str(spc), 'origin': _fs(origin),
         'srcz': srcz, 'entry': entry, 'd': _fs(d), 'o_given': o_given, 'm_given': m_given,
         'u_rowcos': _fs(u_rc), 'u_colcos': _fs(u_cc), 'u_spr': str(u_spr), 'u_spc': str(u_spc), 'u_sbs': u_sbs,
         'flip0': entry == 'volume' and rng.random() < 0.4, 'MR': MR, 'MC': MC, 'M': M, 'tile': tile,
         'typ': rng.choice(['BINARY', 'LABELMAP']), 'omit': rng.random() < 0.6, 'tiled_full': rng.random() < 0.35,
         'file_rt': rng.random() < 0.3, 'api': rng.choice(['seg', 'seg', 'image']), 'npos': 1, 'pp': [1, 1]}
    if c['api'] == 'image':
        # the plain Image interface has no way to ask for a total pixel matrix with omitted tiles
        # (Image.get_volume does not forward allow_missing_positions to get_total_pixel_matrix)
        c['omit'] = False
    as_idx = rng.random() < 0.5
    c['as_idx'] = as_idx
    c.update({'ss': None, 'se': None, 'rs': None, 're': None, 'cs': None, 'ce': None})
    if bad:
        if rng.random() < 0.4:
            c['npos'] = rng.choice([2, 3])
        else:
            c['pp'] = rng.choice([[2, 1], [1, 2], [th + 1, tw + 1], [1, tw + 1]])
    elif rng.random() < 0.5:
        for name, n in (('r', MR), ('c', MC)):
            a = rng.randrange(n)
            b = rng.randint(a + 1, n)
            c[name + 's'] = _enc_bound(rng, a, n, as_idx, False)
            c[name + 'e'] = _enc_bound(rng, b, n, as_idx, True)
    return c


_HIST_LAYOUTS = ['f8', 'f8', 'f8', 'f8_F', 'f8_view', 'f8_off', 'f4', 'i8', '>f8']


def _hist_case(rng, entry=None, layout=None, mutate=None):
    """A volume whose affine (or its components) was handed over in a caller-owned numpy buffer of some dtype /
    memory layout, and a caller who goes on using that buffer (and arrays returned by properties of the
    volume) between constructing the volume and encoding it."""
    c = _vol_case(rng, 'vol_hist')
    entry = entry or rng.choice(['Volume', 'Volume', 'VolumeGeometry', 'from_components'])
    layout = layout or rng.choice(_HIST_LAYOUTS)
    if layout in ('f4', 'i8'):
        # values that such a buffer holds exactly
        c['d'] = [_fs(v) for v in rng.choice(SIGNED_PERMS)]
        if layout == 'i8':
            c['sp'] = _fs([rng.randint(1, 9) for _ in range(3)])
            c['pos'] = _fs([rng.randint(-400, 400) for _ in range(3)])
    c['hist'] = {'entry': entry, 'layout': layout,
                 'mutate': mutate or rng.choice(['retarget', 'translate', 'scale', 'flip', 'swap', 'zero', 'none']),
                 'when': rng.choice(['before_array', 'after_array']),
                 'shift': _fs([_dy(rng, -64, 64), _dy(rng, -64, 64), _dy(rng, 1, 64)]),
                 'prop': rng.choice([None, None, 'affine', 'direction', 'position', 'spacing', 'geometry',
                                     'inverse_affine'])}
    return c


# ---------------------------------------------------------------------------------------------
# memory layout / provenance of the pixel array handed to the constructor
# ---------------------------------------------------------------------------------------------
_MEM_PRESETS = ['C', 'F', 'inplane', 'perm', 'perm', 'neg', 'step', 'window', 'mixed', 'mixed', 'mixed']
_MEM_OPS = [None, None, 'permute', 'permute', 'swap', 'tpo', 'flip', 'crop', 'with_array']
_TPO_ROTS = [ROTS[0], ROTS[1], ROTS[3]]          # no direction at 45 degrees to a patient axis
_TS = {'explicit': '1.2.840.10008.1.2.1', 'implicit': '1.2.840.10008.1.2', 'rle': '1.2.840.10008.1.2.5',
       'jpegls': '1.2.840.10008.1.2.4.80'}


def _mem_lay(rng, ndim, preset=None):
    """How the values of an array are laid out in the caller's memory: a base block allocated C-contiguously
    with its axes in the order q (q = identity: C order, reversed: Fortran order / `.T` of an array built the
    other way round), seen through np.transpose and through reversed / strided / offset slices."""
    preset = preset or rng.choice(_MEM_PRESETS)
    q = list(range(ndim))
    flips, steps, pads = [False] * ndim, [1] * ndim, [[0, 0] for _ in range(ndim)]
    if preset == 'F':
        q.reverse()
    elif preset == 'inplane':
        q[1], q[2] = q[2], q[1]
    elif preset in ('perm', 'mixed'):
        rng.shuffle(q)
    if preset in ('neg', 'mixed'):
        flips = [rng.random() < 0.5 for _ in range(ndim)]
    if preset in ('step', 'mixed'):
        steps = [rng.choice([1, 1, 2, 3]) for _ in range(ndim)]
    if preset in ('window', 'mixed'):
        pads = [[rng.randint(0, 2), rng.randint(0, 2)] for _ in range(ndim)]
    return {'preset': preset, 'q': q, 'flips': flips, 'steps': steps, 'pads': pads, 'ro': rng.random() < 0.15}


def _mem_dt_ts(rng, typ, one_valued, rows, cols):
    """dtype of the caller's array and transfer syntax of the segmentation"""
    if typ == 'FRACTIONAL':
        dts = ['u1', 'u1', 'f4', 'f8', 'b1']
    else:
        dts = ['u1', 'u1', 'u1', 'u2'] + (['b1', 'f4', 'f8'] if one_valued else [])
    tss = ['explicit', 'explicit', 'explicit', 'implicit']
    if typ != 'BINARY':
        # (pyjpegls cannot encode most frames with fewer than 5 rows / columns, whatever their layout)
        tss += ['rle'] + (['jpegls', 'jpegls'] if min(rows, cols) >= 5 else [])
    return rng.choice(dts), rng.choice(tss)


def _mem_vol_case(rng, op='any', preset=None):
    """A volume whose pixel array is a numpy VIEW (transposed / reversed / strided / offset, any accepted dtype)
    or that is the result of Volume API calls that return such views (permute_spatial_axes, swap_spatial_axes,
    to_patient_orientation, flip_spatial, __getitem__, VolumeGeometry.with_array); the fields of _vol_case
    describe the volume V finally handed to the constructor."""
    c = _vol_case(rng, 'vol_mem', rmax=5)
    if c['typ'] != 'BINARY' and rng.random() < 0.2:      # frames large enough for JPEG-LS
        c['R'], c['C'] = rng.choice([5, 6]), rng.choice([5, 6])
        c['arr'] = _label_array(rng, c['S'], c['R'], c['C'], c['nseg'])
    op = rng.choice(_MEM_OPS) if op == 'any' else op
    if op == 'tpo':
        d = rng.choice(SIGNED_PERMS)
        if rng.random() < 0.5:
            M = rng.choice(_TPO_ROTS)
            d = tuple(_matvec(M, v) for v in d)
        c['d'] = [_fs(v) for v in d]
    p, flips, crop, ab = [0, 1, 2], [], None, None
    if op in ('permute', 'tpo'):
        p = rng.choice([list(x) for x in itertools.permutations(range(3))][0 if op == 'tpo' else 1:])
        flips = [a for a in range(3) if rng.random() < 0.3]
    elif op == 'swap':
        a, b = ab = rng.choice([(0, 1), (0, 2), (1, 2), (2, 1), (1, 0)])
        p[a], p[b] = b, a
    elif op == 'flip':
        flips = rng.choice([[0], [1], [2], [1, 2], [0, 2], [0, 1, 2]])
    elif op == 'crop':
        crop = [[rng.randint(0, 2), rng.randint(0, 2), rng.random() < 0.3] for _ in range(3)]
    dt, ts = _mem_dt_ts(rng, c['typ'], c['nseg'] == 1 or c['chan4d'], c['R'], c['C'])
    c['mem'] = {'lay': _mem_lay(rng, 4 if c['chan4d'] else 3, preset), 'dt': dt, 'ts': ts, 'op': op, 'p': p,
                'flips': flips, 'crop': crop, 'ab': ab, 'copy': rng.random() < 0.08}
    return c


def _mem_vol_err_case(rng):
    """a malformed Volume API call (not a permutation, an axis that does not exist, twice the same axis)"""
    c = _mem_vol_case(rng, op=None)
    m = c['mem']
    m['bad'] = True
    m['op'] = rng.choice(['permute', 'swap', 'flip'])
    if m['op'] == 'permute':
        m['p'] = rng.choice([[0, 0, 1], [0, 1, 3], [1, 2], [2, 1, 0, 0], [-1, 0, 1], [1, 2, 3], [2, 2, 2]])
    elif m['op'] == 'swap':
        m['ab'] = rng.choice([(1, 1), (0, 3), (-1, 2), (3, 0), (0, 0), (2, -2)])
    else:
        m['flips'] = rng.choice([[3], [0, -1], [0, 0, 1, 1], [0, 1, 2, 2], [1, 4]])
    c['kind'] = 'vol_mem_err'
    return c


def _mem_src_case(rng, preset=None):
    """pixel array aligned with a stack of source images, handed over as a numpy view"""
    c = _src_case(rng, False)
    c['kind'] = 'src_mem'
    dt, ts = _mem_dt_ts(rng, c['typ'], c['nseg'] == 1, c['R'], c['C'])
    c['mem'] = {'lay': _mem_lay(rng, 3, preset), 'dt': dt, 'ts': ts}
    return c


def _mem_tiled_case(rng, placed, preset=None):
    """total pixel matrix of a tiled segmentation handed over as a numpy view"""
    if placed:
        c = _place_case(rng)
        c['kind'] = 'tiled_place_mem'
        th, tw = c['tile'] or (c['th'], c['tw'])
    else:
        c = _tiled_case(rng, False)
        c.update({'kind': 'tiled_mem', 'api': 'seg'})
        th, tw = c['th'], c['tw']
    dt, ts = _mem_dt_ts(rng, c['typ'], True, th, tw)
    c['mem'] = {'lay': _mem_lay(rng, 3, preset), 'dt': dt, 'ts': ts}
    return c


# ---------------------------------------------------------------------------------------------
# how the stored object is opened again, and derived images that are not segmentations
# ---------------------------------------------------------------------------------------------
_RD_FP = ['bytes', 'stream', 'path', 'pathlike']


def _rd(rng, lazy=None):
    """the stored object is written in DICOM file format and opened again: eagerly or with
    lazy_frame_retrieval=True (io.ImageFileReader), from bytes / a binary stream / a path"""
    return {'lazy': (rng.random() < 0.75) if lazy is None else lazy, 'fp': rng.choice(_RD_FP)}


def _shape_with_residue(rng, res, rmax, cmax):
    """rows, columns with rows * columns = res (mod 8): bit-packed frames of such a size start at bit offset
    (frame index * res) mod 8 of a byte"""
    pairs = [(r, c) for r in range(1, rmax + 1) for c in range(1, cmax + 1) if r * c >= 2 and (r * c) % 8 == res]
    return rng.choice(pairs)


def _rd_vol_case(rng, res=None, typ=None, lazy=None):
    """a segmentation of a volume that is written to a file and opened again (eagerly / lazily); plane sizes
    with every number of pixels modulo 8, several frames, read combined, per segment and by sub-region"""
    c = _vol_case(rng, 'vol_rd')
    c['S'] = rng.choice([2, 3, 4, 5, 6])
    c['R'], c['C'] = _shape_with_residue(rng, rng.randrange(8) if res is None else res, 7, 9)
    c['typ'] = typ or rng.choice(['BINARY', 'BINARY', 'BINARY', 'LABELMAP', 'FRACTIONAL'])
    c['nseg'] = 1 if c['typ'] == 'FRACTIONAL' else rng.randint(1, 3)
    if c['api'] == 'image' and c['typ'] != 'LABELMAP':
        c['nseg'] = 1
    c['chan4d'] = c['typ'] != 'LABELMAP' and rng.random() < 0.3
    c['arr'] = _label_array(rng, c['S'], c['R'], c['C'], c['nseg'])
    c['file_rt'] = False
    c['rd'] = _rd(rng, lazy)
    c['ts'] = rng.choice(['explicit', 'explicit', 'implicit'] + (['rle'] if c['typ'] != 'BINARY' else []))
    if rng.random() < 0.5:
        c.update(_sub_args(rng, _stored_extent(c['arr'], c['omit']), c['R'], c['C']))
    return c


def _rd_src_case(rng, img):
    """the same for a segmentation aligned with a source stack (img=False) and for a plain multi-frame CT
    image (img=True)"""
    if img:
        c = _img_case(rng, False)
        c['kind'] = 'src_img_rd'
        if c['form'] == 'single':
            c['form'] = 'multiframe'
    else:
        c = _src_case(rng, False)
        c['kind'] = 'src_rd'
        c['typ'] = rng.choice(['BINARY', 'BINARY', 'LABELMAP'])
        c['R'], c['C'] = _shape_with_residue(rng, rng.randrange(8), 6, 7)
        c['arr'] = _label_array(rng, c['S'], c['R'], c['C'], c['nseg'])
        c['ts'] = rng.choice(['explicit', 'implicit'])
        if rng.random() < 0.4:
            c.update(_sub_args(rng, _stored_extent(c['arr'], c['omit'], c['order']), c['R'], c['C']))
    c['file_rt'] = False
    c['rd'] = _rd(rng)
    return c


def _rd_tiled_case(rng, res=None):
    """a tiled segmentation (tiles with every number of pixels modulo 8, more than one tile) opened again"""
    while True:
        c = _tiled_case(rng, False)
        if res is not None:
            c['th'], c['tw'] = _shape_with_residue(rng, res, 5, 5)
        if c['R'] > c['th'] or c['C'] > c['tw']:
            break
    c.update({'kind': 'tiled_rd', 'api': 'seg', 'typ': rng.choice(['BINARY', 'BINARY', 'LABELMAP']),
              'rd': _rd(rng), 'ts': rng.choice(['explicit', 'implicit'])})
    if rng.random() < 0.5:      # fill the mask: every tile is stored
        c['M'] = [[1 if rng.random() < 0.6 else 0 for _ in range(c['C'])] for _ in range(c['R'])]
    return c


_PM_ORDERS = ['sorted', 'reversed', 'shuffled', 'interleaved', 'rotated']
_PM_ENTRIES = ['sources', 'sources', 'multiframe', 'positions', 'positions']


def _pm_case(rng, order=None, entry=None, bad=False):
    """A parametric map in the PATIENT coordinate system: planes on a line (complete stack or with gaps) listed
    in any order, placed by the source images they are aligned with (a series of single-frame images or one
    multi-frame image) or by explicit plane_positions (+ plane_orientation / pixel_measures) next to source
    images with another geometry / number of planes; uint8 / uint16 pixels; read back in memory, eagerly or
    lazily from a file."""
    S = rng.choice([2, 3, 3, 4, 5, 6])
    R, C = rng.randint(1, 4), rng.randint(2, 5)
    d = _orient(rng)
    sbs, spr, spc = _sp(rng), _sp(rng), _sp(rng)
    origin = [_dy(rng, -300, 300), _dy(rng, -300, 300), _dy(rng, -300, 300)]
    entry = entry or rng.choice(_PM_ENTRIES)
    order = order or rng.choice(_PM_ORDERS)
    ms = list(range(S))
    if rng.random() < 0.25:      # a stack with gaps
        ms = sorted(rng.sample(range(S + 2), S))
    if order == 'reversed':
        ms.reverse()
    elif order == 'shuffled':
        rng.shuffle(ms)
    elif order == 'interleaved':
        ms = ms[0::2] + ms[1::2]
    elif order == 'rotated':
        k = rng.randrange(1, S)
        ms = ms[k:] + ms[:k]

    def line(dd, org, step, mults):
        return [[org[i] + F(m) * step * dd[0][i] for i in range(3)] for m in mults]
    positions = line(d, origin, sbs, ms)
    dt = rng.choice(['u1', 'u2', 'u2'])
    top = 250 if dt == 'u1' else 999
    arr = [[[0 if rng.random() < 0.15 else rng.randint(1, top) for _ in range(C)] for _ in range(R)]
           for _ in range(S)]
    has_sbs = rng.random() < 0.65
    src = {'positions': [_fs(p) for p in positions], 'rowcos': _fs(d[2]), 'colcos': _fs(d[1]),
           'spr': str(spr), 'spc': str(spc), 'sbs': str(sbs) if has_sbs else None,
           'multiframe': entry == 'multiframe'}
    u_pos = u_or = u_pm = None
    if entry == 'positions':
        u_pos = [_fs(p) for p in positions]
        # the source images: another number of planes, listed in their own order, possibly another geometry
        n_src = rng.choice([1, S, S, S + 1, max(1, S - 1)])
        other = rng.random() < 0.5
        ds_ = _orient(rng) if other else d
        sorg = [_dy(rng, -300, 300) for _ in range(3)] if (other or rng.random() < 0.3) else origin
        s_sbs = _sp(rng) if other else sbs
        s_spr, s_spc = (_sp(rng), _sp(rng)) if (other and rng.random() < 0.7) else (spr, spc)
        sm = list(range(n_src))
        if rng.random() < 0.5:
            rng.shuffle(sm)
        src.update({'positions': [_fs(p) for p in line(ds_, sorg, s_sbs, sm)], 'rowcos': _fs(ds_[2]),
                    'colcos': _fs(ds_[1]), 'spr': str(s_spr), 'spc': str(s_spc),
                    'sbs': (str(s_sbs) if has_sbs else None), 'multiframe': rng.random() < 0.3})
        if ds_ != d or rng.random() < 0.4:
            u_or = [_fs(d[2]), _fs(d[1])]
        if (s_spr, s_spc) != (spr, spc) or (has_sbs and s_sbs != sbs) or rng.random() < 0.4:
            u_pm = [str(spr), str(spc), str(sbs) if rng.random() < 0.7 else None]
    elif rng.random() < 0.25:
        u_pm = [str(spr), str(spc), str(sbs) if rng.random() < 0.7 else None]
    if src['multiframe'] and len(src['positions']) == 1:
        src['multiframe'] = False
    c = {'kind': 'pm', 'S': S, 'R': R, 'C': C, 'entry': entry, 'order': order, 'ms': ms, 'src': src,
         'u_pos': u_pos, 'u_or': u_or, 'u_pm': u_pm, 'arr': arr, 'dt': dt,
         'ts': rng.choice(['explicit', 'explicit', 'implicit', 'rle'] + (['jpegls'] if min(R, C) >= 5 else [])),
         'rd': rng.choice([None, _rd(rng), _rd(rng)]), 'rwt': rng.choice([False, False, None]),
         'api': 'image', 'typ': 'LABELMAP', 'allow_missing': rng.random() < 0.6, 'omit': False,
         # where the case places the planes (for the oracle)
         'positions': [_fs(p) for p in positions], 'rowcos': _fs(d[2]), 'colcos': _fs(d[1]),
         'spr': str(spr), 'spc': str(spc),
         'ss': None, 'se': None, 'rs': None, 're': None, 'cs': None, 'ce': None, 'as_idx': False}
    eff_sbs = (u_pm[2] if u_pm is not None else src['sbs'])
    c['eff_sbs'] = eff_sbs
    complete = sorted(ms) == list(range(min(ms), min(ms) + S))
    if bad:
        c['kind'] = 'pm_err'
        if entry == 'positions':
            k = rng.choice([-1, 1, 2])
            extra = line(d, origin, sbs, range(S + 3, S + 3 + max(k, 0)))
            c['u_pos'] = (u_pos + [_fs(p) for p in extra]) if k > 0 else u_pos[:k]
        else:
            c['src']['positions'] = c['src']['positions'][:-1] if rng.random() < 0.5 else \
                c['src']['positions'] + [_fs(line(d, origin, sbs, [S + 3])[0])]
            if c['src']['multiframe'] and len(c['src']['positions']) == 1:
                c['src']['multiframe'] = False
    elif complete and rng.random() < 0.5:
        c.update(_sub_args(rng, S, R, C, bad=rng.random() < 0.15))
    return c


def _pm_tiled_case(rng, mode=None):
    """A parametric map in the SLIDE coordinate system whose tiles are aligned with the frames of a tiled source
    image (TILED_FULL, or TILED_SPARSE with its frames stored in any order), positions taken from the source or
    handed over explicitly: the source's own in source order ('same'), all of them in another order
    ('reordered'), or those of a rectangular part of the tile grid that contains the top left tile, in any
    order ('subgrid'); read back as total pixel matrix region through get_volume."""
    while True:
        c = _tiled_case(rng, False)
        if c['R'] > c['th'] or c['C'] > c['tw']:
            break
    dt = rng.choice(['u1', 'u2'])
    top = 250 if dt == 'u1' else 999
    c['M'] = [[0 if rng.random() < 0.15 else rng.randint(1, top) for _ in range(c['C'])] for _ in range(c['R'])]
    n = -(-c['R'] // c['th']) * -(-c['C'] // c['tw'])
    forder = list(range(n))
    sparse = rng.random() < 0.6
    if sparse and rng.random() < 0.7:
        rng.shuffle(forder)
    nr, nc = -(-c['R'] // c['th']), -(-c['C'] // c['tw'])
    mode = mode or rng.choice([None, None, 'same', 'reordered', 'reordered', 'subgrid', 'subgrid'])
    listed = None
    if mode == 'same':
        listed = list(forder)
    elif mode == 'reordered':
        listed = list(range(n))
        while listed == forder:
            rng.shuffle(listed)
            if rng.random() < 0.3:
                listed = list(range(n))[::-1]
    elif mode == 'subgrid':      # a rectangular part of the tile grid that contains the top left tile
        na, nb = rng.randint(1, nr), rng.randint(1, nc)
        listed = [a * nc + b for a in range(na) for b in range(nb)]
        if rng.random() < 0.7:
            rng.shuffle(listed)
    c.update({'kind': 'pm_tiled', 'api': 'image', 'typ': 'LABELMAP', 'dt': dt, 'sparse': sparse, 'forder': forder,
              'mode': mode, 'listed': listed, 'rd': rng.choice([None, _rd(rng), _rd(rng)]),
              'ts': rng.choice(['explicit', 'implicit', 'rle'])})
    if listed is not None and listed != forder:
        # the declared matrix spans the listed tiles: draw the region inside it
        Re = (max(t // nc for t in listed) + 1) * c['th']
        Ce = (max(t % nc for t in listed) + 1) * c['tw']
        for name, m in (('r', Re), ('c', Ce)):
            if rng.random() < 0.3:
                a, b = 0, m
            else:
                a = rng.randrange(m)
                b = rng.randint(a + 1, m)
            c[name + 's'] = _enc_bound(rng, a, m, c['as_idx'], False)
            c[name + 'e'] = _enc_bound(rng, b, m, c['as_idx'], True)
    return c


# ---------------------------------------------------------------------------------------------
# histories: several requests, one after the other, to ONE opened object
# ---------------------------------------------------------------------------------------------
_SEQ_KEYS = ('ss', 'se', 'rs', 're', 'cs', 'ce')
_SEQ_FIRST = ['slices', 'slices', 'slices', 'tail', 'head', 'region', 'geom', 'full', 'bad']


def _seq_step(rng, what, n0, R, C, api, first, lazy):
    """one request: get_volume_geometry() ('geom') or get_volume(...) ('vol') with a range of slices only
    ('slices' inside the stack, 'head' 0:b, 'tail' a: given by a negative number), any documented region
    ('region'), an undocumented / empty one ('bad') or no argument ('full'); allow_missing_positions, explicit
    tolerances (that do not change the outcome on the regular stacks drawn), the volume assembled per segment,
    and what happened to the object since the previous request (deep copy, pickle round trip, from_dataset
    copy - the request then goes to the copy)"""
    st = {'op': 'geom' if what == 'geom' else 'vol', 'as_idx': rng.random() < 0.5, 'am': rng.random() < 0.85,
          'tol': rng.choice([None, None, None, None, 'rtol', 'atol']), 'perseg': False, 'via': None}
    st.update({k: None for k in _SEQ_KEYS})
    if what in ('slices', 'head', 'tail') and n0 > 1:
        if what == 'head':
            a, b = 0, rng.randint(1, n0 - 1)
        elif what == 'tail':
            a, b = rng.randint(1, n0 - 1), n0
        else:
            a = rng.randrange(n0)
            b = rng.randint(a + 1, n0 if a > 0 else n0 - 1)
        st['ss'] = _enc_bound(rng, a, n0, st['as_idx'], False)
        st['se'] = _enc_bound(rng, b, n0, st['as_idx'], True)
        if what == 'tail' and rng.random() < 0.7:
            st['ss'], st['se'] = a - n0, None
    elif what == 'region':
        st.update(_sub_args(rng, n0, R, C))
    elif what == 'bad':
        st.update(_sub_args(rng, n0, R, C, bad=True))
    if st['op'] == 'vol' and api == 'seg' and rng.random() < 0.15:
        st['perseg'] = True
    if not first and rng.random() < 0.3:
        st['via'] = rng.choice(['deepcopy'] if lazy else ['deepcopy', 'pickle', 'copy'])
    return st


def _seq_steps(rng, n0, R, C, api, lazy, first=None, pattern=None):
    """a history of 2-6 requests; pattern 'chunks': the stack is read in consecutive ranges of slices (as one does
    with a large image), then asked for its geometry / the whole volume"""
    pattern = pattern or rng.choice(['free', 'free', 'free', 'chunks'])
    steps = []
    if pattern == 'chunks' and n0 > 1:
        w = rng.randint(1, max(1, n0 // 2))
        ai = rng.random() < 0.5
        for a in range(0, n0, w):
            st = _seq_step(rng, 'full', n0, R, C, api, a == 0, lazy)
            b = min(n0, a + w)
            st.update({'as_idx': ai, 'ss': a if ai else a + 1, 'se': b if ai else b + 1, 'am': True})
            steps.append(st)
        steps = steps[:4]
        for what in rng.sample(['geom', 'full', 'slices'], rng.randint(1, 2)):
            steps.append(_seq_step(rng, what, n0, R, C, api, False, lazy))
        return steps
    for i in range(rng.choice([2, 3, 3, 4, 5])):
        what = (first or rng.choice(_SEQ_FIRST)) if i == 0 else \
            rng.choice(['slices', 'head', 'tail', 'region', 'geom', 'geom', 'full', 'full', 'bad'])
        steps.append(_seq_step(rng, what, n0, R, C, api, i == 0, lazy))
    if first and not any(s['op'] == 'geom' or all(s[k] is None for k in _SEQ_KEYS) for s in steps[1:]):
        steps.append(_seq_step(rng, rng.choice(['geom', 'full']), n0, R, C, api, False, lazy))
    return steps


def _seq_open(rng, mode=None):
    """how the object that serves the history came about: as constructed (None) or written to a file and opened
    again, eagerly or with lazy frame retrieval"""
    mode = mode or rng.choice(['memory', 'memory', 'eager', 'lazy'])
    return None if mode == 'memory' else _rd(rng, lazy=mode == 'lazy')


def _seq_stack_case(rng, base, first=None, mode=None, api=None, pattern=None):
    """A history of requests to ONE stacked (PATIENT coordinate system) object: a segmentation of a volume
    ('vol'), a segmentation aligned with a source stack ('src'), a plain multi-frame CT image ('img'), a
    parametric map ('pm')."""
    if base == 'vol':
        c = _vol_case(rng, 'vol_seq')
        c['S'] = rng.choice([3, 4, 5, 6])
        c['arr'] = _label_array(rng, c['S'], c['R'], c['C'], c['nseg'])
        if api:
            c['api'] = api
            if api == 'image' and c['typ'] != 'LABELMAP':
                c['nseg'] = 1
                c['arr'] = _label_array(rng, c['S'], c['R'], c['C'], 1)
        order = None
    elif base == 'src':
        while True:
            c = _src_case(rng, False)
            if c['S'] >= 3:
                break
        c['kind'] = 'src_seq'
        order = c['order']
    elif base == 'img':
        while True:
            c = _img_case(rng, False)
            if c['S'] >= 3:
                break
        c['kind'] = 'src_img_seq'
        if c['omit']:
            c['src_has_sbs'] = True      # (without a recorded spacing the extent of a stack with gaps is open)
        order = c['order']
    else:
        while True:
            c = _pm_case(rng)
            lo = min(c['ms'])
            if c['S'] >= 3 and sorted(c['ms']) == list(range(lo, lo + c['S'])):
                break
        c['kind'] = 'pm_seq'
        c['rd'] = None
        order = c['order_idx'] = [m - lo for m in c['ms']]
    c['file_rt'] = False
    c.update({k: None for k in _SEQ_KEYS})
    c['as_idx'] = False
    c['open'] = _seq_open(rng, mode)
    if c['open'] is not None and base in ('vol', 'src'):
        c['ts'] = rng.choice(['explicit', 'explicit', 'implicit'])
    n0 = _stored_extent(c['arr'], c['omit'], order)
    lazy = bool(c['open'] and c['open']['lazy'])
    c['steps'] = _seq_steps(rng, n0, c['R'], c['C'], c['api'], lazy, first, pattern)
    return c


def _tiled_args(rng, R, C, bad):
    """region arguments of one get_volume request to a tiled image (the stratification of _tiled_case)"""
    as_idx = rng.random() < 0.5
    a = {k: None for k in _SEQ_KEYS}
    a['as_idx'] = as_idx
    if not bad:
        for name, n in (('r', R), ('c', C)):
            if rng.random() < 0.3:
                lo, hi = 0, n
            else:
                lo = rng.randrange(n)
                hi = rng.randint(lo + 1, n)
            a[name + 's'] = _enc_bound(rng, lo, n, as_idx, False)
            a[name + 'e'] = _enc_bound(rng, hi, n, as_idx, True)
        a['ss'] = _enc_bound(rng, 0, 1, as_idx, False)
        a['se'] = _enc_bound(rng, 1, 1, as_idx, True)
        return a
    what = rng.choice(['r', 'c', 's'])
    if what == 's':
        a['ss'], a['se'] = rng.choice([(2, None), (0, None), (None, 3), (None, -2), (1, 1), (None, 0)]) \
            if not as_idx else rng.choice([(1, None), (None, 2), (None, -2), (0, 0)])
    else:
        n = R if what == 'r' else C
        if rng.random() < 0.5:
            a[what + 's'] = rng.choice([n, n + 1, n + 3]) if as_idx else rng.choice([0, n + 1, n + 2])
        else:
            a[what + 'e'] = rng.choice([n + 1, n + 2]) if as_idx else rng.choice([n + 2, n + 3, 0, 0])
    return a


def _seq_tiled_case(rng, mode=None):
    """A history of region requests (each followed or preceded by a request for the geometry) to ONE tiled
    (SLIDE coordinate system) segmentation / slide image."""
    c = _tiled_case(rng, False)
    c['kind'] = 'tiled_seq'
    c['open'] = _seq_open(rng, mode) if c['api'] == 'seg' else None
    if c['open'] is not None:
        c['ts'] = rng.choice(['explicit', 'implicit'])
    lazy = bool(c['open'] and c['open']['lazy'])
    steps = []
    for i in range(rng.choice([2, 3, 3, 4])):
        st = _tiled_args(rng, c['R'], c['C'], bad=rng.random() < 0.15)
        st['geom_first'] = rng.random() < 0.5
        st['via'] = None
        if i > 0 and rng.random() < 0.3:
            st['via'] = rng.choice(['deepcopy'] if lazy else ['deepcopy', 'pickle', 'copy'])
        steps.append(st)
    c['steps'] = steps
    c.update({k: None for k in _SEQ_KEYS})
    return c


def _closest_orientation(d):
    """patient orientation string of a volume with (unambiguous) axis directions d: the letter of the patient
    axis every volume axis is closest to (x -> L, y -> P, z -> H; R, A, F for the opposite directions)"""
    out = ''
    for v in d:
        v = [F(x) for x in v]
        i = max(range(3), key=lambda j: abs(v[j]))
        out += 'LPH'[i] if v[i] > 0 else 'RAF'[i]
    return out


def _vapi_source(c, arrs):
    """The volume W that the Volume API operation of a 'vol_mem' case is applied to - exact position, axis
    directions and spacings, and the given numpy arrays of V (spatial axes first) rearranged to W's axes -
    such that the operation turns W into the volume V the case describes; plus the index for 'crop'."""
    import numpy as np
    m = c['mem']
    pos = [F(x) for x in c['pos']]
    d = [[F(x) for x in v] for v in c['d']]
    sp = [F(x) for x in c['sp']]
    index = None
    if m.get('bad'):
        pass                      # a malformed call: made on the volume of the case itself
    elif m['op'] in ('permute', 'swap', 'tpo', 'flip'):
        p = m['p']
        inv = [p.index(a) for a in range(3)]
        d = [d[inv[a]] for a in range(3)]
        sp = [sp[inv[a]] for a in range(3)]
        arrs = [x.transpose(inv + list(range(3, x.ndim))) for x in arrs]
        for a in m['flips']:
            n = arrs[0].shape[a]
            pos = [pos[i] + (n - 1) * sp[a] * d[a][i] for i in range(3)]
            d[a] = [-x for x in d[a]]
            arrs = [np.flip(x, axis=a) for x in arrs]
    elif m['op'] == 'crop':
        index = []
        shape = list(arrs[0].shape[:3])
        for k, (before, after, neg) in enumerate(m['crop']):
            n = shape[k]
            if neg:
                start = before + n - 1
                index.append(slice(start, before - 1 if before > 0 else None, -1))
                pos = [pos[i] + start * sp[k] * d[k][i] for i in range(3)]
                d[k] = [-x for x in d[k]]
            else:
                index.append(slice(before, before + n))
                pos = [pos[i] - before * sp[k] * d[k][i] for i in range(3)]
            shape[k] = before + n + after
        index = tuple(index)
        big = []
        for x in arrs:
            b = np.ones(tuple(shape) + x.shape[3:], dtype=x.dtype)
            b[index] = x
            big.append(b)
        arrs = big
    return pos, d, sp, arrs, index


# ---------------------------------------------------------------------------------------------
# independent statement of the documented argument conventions
# ---------------------------------------------------------------------------------------------
def _doc_bound(v, n, as_idx, is_end):
    """zero-based meaning of a documented argument, or 'out' when outside the documented range"""
    if v is None:
        return n if is_end else 0
    if v < 0:
        return n + v if v >= -n else 'out'
    if as_idx:
        ok = v <= n if is_end else v <= n - 1
        return v if ok else 'out'
    if v == 0:
        return 'out'
    ok = v - 1 <= n if is_end else v - 1 <= n - 1
    return v - 1 if ok else 'out'


def _doc_range(s, e, n, as_idx):
    a, b = _doc_bound(s, n, as_idx, False), _doc_bound(e, n, as_idx, True)
    if a == 'out' or b == 'out':
        return 'out'
    return (a, b)


def gen_cases(rng, tier):
    cases = []
    # ---- integer standardisers: small exhaustive cube ---------------------------------------
    nmax, lim = {'quick': (3, 5), 'thorough': (5, 8), 'search': (4, 6)}[tier]
    vals = [None] + list(range(-lim, lim + 1))
    for n in range(1, nmax + 1):
        for ai in (False, True):
            for s in vals:
                for e in vals:
                    if tier == 'quick' and rng.random() < 0.55:
                        continue
                    r = _doc_range(s, e, n, ai)
                    ok = r != 'out' and r[1] - r[0] >= 1
                    cases.append({'kind': 'std_slice' if ok else 'std_slice_err', 'ss': s, 'se': e, 'n': n, 'ai': ai})
    nrc = {'quick': 500, 'thorough': 12000, 'search': 4000}[tier]
    for _ in range(nrc):
        rows, cols = rng.randint(1, 5), rng.randint(1, 5)
        ai, oi = rng.random() < 0.5, rng.random() < 0.5
        a = [rng.choice([None, None] + list(range(-7, 8))) for _ in range(4)]
        rr, cr = _doc_range(a[0], a[1], rows, ai), _doc_range(a[2], a[3], cols, ai)
        ok = rr != 'out' and cr != 'out'
        cases.append({'kind': 'std_rc' if ok else 'std_rc_err', 'rs': a[0], 're': a[1], 'cs': a[2], 'ce': a[3],
                      'rows': rows, 'cols': cols, 'ai': ai, 'oi': oi})
    # ---- volumes -------------------------------------------------------------------------------
    nv = {'quick': 120, 'thorough': 4000, 'search': 1500}[tier]
    # every signed permutation at least once per run
    for k, d in enumerate(SIGNED_PERMS):
        c = _vol_case(rng, 'vol')
        c['d'] = [_fs(v) for v in d]
        cases.append(c)
    for _ in range(nv):
        cases.append(_vol_case(rng, 'vol'))
    for _ in range(nv):
        c = _vol_case(rng, 'vol_sub')
        n0 = _stored_extent(c['arr'], c['omit'])
        c.update(_sub_args(rng, n0, c['R'], c['C']))
        cases.append(c)
    for _ in range(nv // 2):
        c = _vol_case(rng, 'vol_sub_err')
        n0 = _stored_extent(c['arr'], c['omit'])
        c.update(_sub_args(rng, n0, c['R'], c['C'], bad=True))
        cases.append(c)
    for _ in range(nv):
        cases.append(_src_case(rng, False))
    for _ in range(nv // 4):
        cases.append(_src_case(rng, True))
    for _ in range(nv // 2):
        cases.append(_img_case(rng, False))
    for _ in range(nv // 8):
        cases.append(_img_case(rng, True))
    for _ in range(nv):
        cases.append(_tiled_case(rng, False))
    for _ in range(nv // 3):
        cases.append(_tiled_case(rng, True))
    for _ in range(nv // 2):
        cases.append(_pyr_case(rng, False))
    for _ in range(nv // 6):
        cases.append(_pyr_case(rng, True))
    for _ in range(nv // 3):
        cases.append(_pyr_multi_case(rng, False))
    for _ in range(nv // 8):
        cases.append(_pyr_multi_case(rng, True))
    # ---- tiled segmentations placed by the caller ------------------------------------------------
    # every subset of differing origin coordinates, everything else aligned with the source, both entry points
    for combo in range(8):
        for entry in ('volume', 'positions'):
            cases.append(_place_case(rng, combo=combo, aligned=True, entry=entry))
    for _ in range(nv):
        cases.append(_place_case(rng))
    for _ in range(nv // 6):
        cases.append(_place_case(rng, bad=True))
    # ---- caller-owned affine buffers and what happens to them afterwards ----------------------------
    for entry in ('Volume', 'VolumeGeometry', 'from_components'):
        for layout in sorted(set(_HIST_LAYOUTS)):
            cases.append(_hist_case(rng, entry=entry, layout=layout,
                                    mutate=rng.choice(['retarget', 'translate', 'scale', 'flip', 'swap', 'zero'])))
    for _ in range((nv * 2) // 3):
        cases.append(_hist_case(rng))
    # ---- pixel arrays that are numpy views / results of Volume API calls (memory layout), dtype, transfer syntax --
    for preset in ('F', 'inplane', 'perm', 'neg', 'step', 'window', 'C'):
        cases.append(_mem_vol_case(rng, op=None, preset=preset))
    for op in ('permute', 'swap', 'tpo', 'flip', 'crop', 'with_array'):
        for preset in ('C', 'mixed'):
            cases.append(_mem_vol_case(rng, op=op, preset=preset))
    for _ in range(nv):
        cases.append(_mem_vol_case(rng))
    for _ in range(nv // 8):
        cases.append(_mem_vol_err_case(rng))
    for preset in ('F', 'inplane'):
        cases.append(_mem_src_case(rng, preset))
        cases.append(_mem_tiled_case(rng, False, preset))
        cases.append(_mem_tiled_case(rng, True, preset))
    for _ in range(nv // 3):
        cases.append(_mem_src_case(rng))
    for _ in range(nv // 4):
        cases.append(_mem_tiled_case(rng, False))
    for _ in range(nv // 4):
        cases.append(_mem_tiled_case(rng, True))
    # ---- the stored object is written to a file and opened again (eager / lazy frame retrieval) -------------
    for res in range(8):          # every bit offset of a bit-packed frame, read lazily
        cases.append(_rd_vol_case(rng, res=res, typ='BINARY', lazy=True))
        cases.append(_rd_tiled_case(rng, res=res))
    for _ in range(nv // 3):
        cases.append(_rd_vol_case(rng))
    for _ in range(nv // 6):
        cases.append(_rd_src_case(rng, False))
        cases.append(_rd_src_case(rng, True))
        cases.append(_rd_tiled_case(rng))
    # ---- parametric maps --------------------------------------------------------------------------------
    for order in _PM_ORDERS:
        for entry in ('sources', 'multiframe', 'positions'):
            cases.append(_pm_case(rng, order=order, entry=entry))
    for _ in range(nv // 2):
        cases.append(_pm_case(rng))
    for _ in range(nv // 10):
        cases.append(_pm_case(rng, bad=True))
    for mode in ('same', 'reordered', 'subgrid', 'reordered', 'subgrid'):
        c = _pm_tiled_case(rng, mode)
        if len(cases) % 2:      # next to a source with a non-zero Z offset (its own focal plane)
            c['srcz'] = str(_dy(rng, 1, 40, (1, 2, 4, 8)) * rng.choice([1, -1]))
        cases.append(c)
    for _ in range(nv // 4):
        cases.append(_pm_tiled_case(rng))
    # ---- histories: several requests to ONE object ----------------------------------------------------------
    # a range of slices as the very first request, then the geometry / the whole volume: every kind of object,
    # every way it came about
    for base, mode, api in (('vol', 'memory', 'seg'), ('vol', 'eager', 'seg'), ('vol', 'lazy', 'seg'),
                            ('vol', 'memory', 'image'), ('vol', 'lazy', 'image'), ('src', 'memory', None),
                            ('src', 'eager', None), ('img', 'memory', None), ('img', 'lazy', None),
                            ('pm', 'memory', None), ('pm', 'eager', None)):
        cases.append(_seq_stack_case(rng, base, first=rng.choice(['slices', 'head', 'tail']), mode=mode, api=api,
                                     pattern='free'))
    for base in ('vol', 'src', 'img', 'pm'):
        cases.append(_seq_stack_case(rng, base, pattern='chunks'))
    for _ in range(nv // 4):
        cases.append(_seq_stack_case(rng, 'vol'))
    for _ in range(nv // 10):
        cases.append(_seq_stack_case(rng, 'src'))
        cases.append(_seq_stack_case(rng, 'img'))
        cases.append(_seq_stack_case(rng, 'pm'))
    for mode in ('memory', 'eager', 'lazy'):
        cases.append(_seq_tiled_case(rng, mode))
    for _ in range(nv // 10):
        cases.append(_seq_tiled_case(rng))
    return cases


# ---------------------------------------------------------------------------------------------
# implementation runner
# ---------------------------------------------------------------------------------------------
def _f(x):
    return float(F(x))


def _quiet():
    import logging
    import warnings
    warnings.filterwarnings('ignore')
    logging.disable(logging.CRITICAL)


def _vol_out(v, binarise=False):
    import numpy as np
    a = np.asarray(v.array)
    if a.ndim == 4:
        a = a[..., 0]
    a = np.rint(a).astype(np.int64)
    if binarise:      # stored sample values of a BINARY / FRACTIONAL frame read through the plain Image interface
        a = (a > 0).astype(np.int64)
    return [list(v.spatial_shape), v.affine[:3].tolist(), a.tolist()]


def _geom_out(g):
    return None if g is None else [list(g.spatial_shape), g.affine[:3].tolist()]


def _kw(c):
    kw = {}
    for key, name in (('ss', 'slice_start'), ('se', 'slice_end'), ('rs', 'row_start'), ('re', 'row_end'),
                      ('cs', 'column_start'), ('ce', 'column_end')):
        if c.get(key) is not None:
            kw[name] = c[key]
    if c.get('as_idx'):
        kw['as_indices'] = True
    return kw


def _build_seg(c, info=None):
    """Segmentation for a 'vol*' or 'src*' case (real constructor)."""
    import numpy as np
    import highdicom as hd
    import synth
    if c.get('form'):
        # a plain CT image (not a segmentation) holding the given planes
        kept = _img_kept(c)
        return synth.ct_image_at([[_f(x) for x in p] for p, _ in kept], c['R'], c['C'],
                                 [_f(x) for x in c['rowcos']] + [_f(x) for x in c['colcos']],
                                 (_f(c['spr']), _f(c['spc'])), [a for _, a in kept],
                                 spacing_between_slices=_f(c['sbs']) if c['src_has_sbs'] else None,
                                 single=c['form'] == 'single')
    lab = np.array(c['arr'], dtype=np.uint8).reshape(c['S'], c['R'], c['C'])
    nseg, typ = c['nseg'], c['typ']
    if c['kind'].startswith('vol'):
        src = synth.ct_series(1, c['R'], c['C'])
        d = [[_f(x) for x in v] for v in c['d']]
        sp = [_f(x) for x in c['sp']]
        A = np.eye(4)
        for k in range(3):
            A[:3, k] = np.array(d[k]) * sp[k]
        A[:3, 3] = [_f(x) for x in c['pos']]
        chans = None
        if c['chan4d']:
            arr = np.stack([(lab == s + 1) for s in range(nseg)], axis=-1).astype(np.uint8)
            chans = {'SegmentNumber': list(range(1, nseg + 1))}
        else:
            arr = lab
        watch = []
        if c['kind'] == 'vol_hist':
            pix, watch = _hist_volume(c, arr, A, src[0].FrameOfReferenceUID, chans)
            watch = list(watch) + [arr]
        elif c['kind'] in ('vol_mem', 'vol_mem_err'):
            pix, watch = _mem_volume(c, _mem_cast(arr, c), src[0].FrameOfReferenceUID, chans)
        else:
            pix = hd.Volume(arr, A, coordinate_system='PATIENT', frame_of_reference_uid=src[0].FrameOfReferenceUID,
                            channels=chans)
    else:
        rc, cc = [_f(x) for x in c['rowcos']], [_f(x) for x in c['colcos']]
        first = None
        src = []
        for k, p in enumerate(c['positions']):
            ds = synth.ct_frame([_f(x) for x in p], c['R'], c['C'], orientation=rc + cc,
                                spacing=(_f(c['spr']), _f(c['spc'])), instance_number=k + 1,
                                series_uid=first.SeriesInstanceUID if first else None,
                                study_uid=first.StudyInstanceUID if first else None,
                                for_uid=first.FrameOfReferenceUID if first else None)
            if c['src_has_sbs']:
                ds.SpacingBetweenSlices = _f(c['sbs'])
            elif 'SpacingBetweenSlices' in ds:
                del ds.SpacingBetweenSlices
            if first is None:
                first = ds
                ds.SeriesInstanceUID = synth.uid()
            src.append(ds)
        pix, watch = lab, []
        if c['kind'] == 'src_mem':
            pix, base = _mem_array(_mem_cast(lab, c), c['mem']['lay'])
            watch = [base]
    kw = {}
    if typ == 'FRACTIONAL':
        kw['max_fractional_value'] = 1 if False else 255
    if c.get('mem'):
        kw['transfer_syntax_uid'] = _TS[c['mem']['ts']]
    elif c.get('ts'):
        kw['transfer_syntax_uid'] = _TS[c['ts']]
    before = [w.copy() for w in watch]
    seg = synth.make_seg(src, pix, typ, list(range(1, nseg + 1)), omit_empty_frames=c['omit'], **kw)
    if watch and info is not None:
        # the encoder leaves the caller's buffers and pixel array (the whole memory block behind it) as they were
        info['untouched'] = all(a.dtype == b.dtype and np.array_equal(a, b, equal_nan=True)
                                for a, b in zip(watch, before))
    if c['file_rt']:
        seg = synth.write_read(seg, hd.seg.segread)
    return seg


def _layout_buffer(A, layout):
    """the values of A in a caller-owned numpy array of the given dtype / memory layout"""
    import numpy as np
    if layout == 'f8':
        return np.array(A, dtype=np.float64, order='C')
    if layout == 'f8_F':
        return np.array(A, dtype=np.float64, order='F')
    if layout == 'f8_view':          # every other element of a larger array
        big = np.full(tuple(2 * n for n in A.shape), 7.0)
        buf = big[tuple(slice(None, None, 2) for _ in A.shape)]
        buf[...] = A
        return buf
    if layout == 'f8_off':           # a window into a larger array (the caller's batch of affines)
        big = np.full((3,) + A.shape, -3.0)
        buf = big[1]
        buf[...] = A
        return buf
    if layout == 'f4':
        return np.array(A, dtype=np.float32)
    if layout == 'i8':
        return np.array(np.rint(A), dtype=np.int64)
    if layout == '>f8':
        return np.array(A, dtype='>f8')
    raise ValueError(layout)


def _mem_cast(a, c):
    import numpy as np
    return a.astype({'u1': np.uint8, 'u2': np.uint16, 'b1': np.bool_, 'f4': np.float32, 'f8': np.float64}[c['mem']['dt']])


def _mem_array(a, lay):
    """(view, base): a numpy view with the values of `a` laid out in memory as `lay` says, and the memory block
    it lives in (everything outside the view holds 1 - a value that would pass for a pixel)"""
    import numpy as np
    nd = a.ndim
    q = [k for k in lay['q'] if k < nd]
    big = [lay['pads'][k][0] + (a.shape[k] - 1) * lay['steps'][k] + 1 + lay['pads'][k][1] for k in range(nd)]
    base = np.ones([big[k] for k in q], dtype=a.dtype)
    v = base.transpose([q.index(k) for k in range(nd)])
    assert list(v.shape) == big
    index = []
    for k in range(nd):
        p0, st, n = lay['pads'][k][0], lay['steps'][k], a.shape[k]
        if lay['flips'][k]:
            index.append(slice(p0 + (n - 1) * st, p0 - 1 if p0 > 0 else None, -st))
        else:
            index.append(slice(p0, p0 + (n - 1) * st + 1, st))
    v = v[tuple(index)]
    assert v.shape == a.shape and v.base is not None
    v[...] = a
    if lay['ro']:
        v.flags.writeable = False
    return v, base


def _mem_volume(c, arr, for_uid, chans):
    """hd.Volume for a 'vol_mem' case: the source volume W is built on a numpy view and brought to the volume
    the case describes by the Volume API operation; returns the volume and the memory block to watch"""
    import numpy as np
    import highdicom as hd
    m = c['mem']
    pos, d, sp, (warr,), index = _vapi_source(c, [arr])
    A = np.eye(4)
    for k in range(3):
        A[:3, k] = np.array([float(x) for x in d[k]]) * float(sp[k])
    A[:3, 3] = [float(x) for x in pos]
    view, base = _mem_array(warr, m['lay'])
    if m['op'] == 'with_array':
        vol = hd.VolumeGeometry(A, view.shape[:3], coordinate_system='PATIENT',
                                frame_of_reference_uid=for_uid).with_array(view, channels=chans)
    else:
        vol = hd.Volume(view, A, coordinate_system='PATIENT', frame_of_reference_uid=for_uid, channels=chans)
    if m['op'] in ('permute', 'flip'):
        if m['flips']:
            vol = vol.flip_spatial(list(m['flips']))
        if m['op'] == 'permute':
            vol = vol.permute_spatial_axes(list(m['p']))
    elif m['op'] == 'swap':
        vol = vol.swap_spatial_axes(*m['ab'])
    elif m['op'] == 'tpo':
        vol = vol.to_patient_orientation(_closest_orientation(c['d']))
    elif m['op'] == 'crop':
        vol = vol[index]
    if m['copy']:
        vol = vol.copy()
    return vol, [base]


def _hist_volume(c, arr, A, for_uid, chans):
    """hd.Volume for a 'vol_hist' case: built through the chosen entry point from caller-owned buffers, which
    the caller then goes on using; returns the volume and the buffers (to watch what the encoder does to them)"""
    import numpy as np
    import highdicom as hd
    h = c['hist']
    shift = np.array([_f(x) for x in h['shift']])
    if h['entry'] == 'from_components':
        sp = np.array([_f(x) for x in c['sp']])
        direction = _layout_buffer(A[:3, :3] / sp[None, :], h['layout'])
        position = _layout_buffer(A[:3, 3], h['layout'])
        spacing = _layout_buffer(sp, h['layout'])
        bufs = [direction, position, spacing]
        vol = hd.Volume.from_components(arr, direction=direction, spacing=spacing, position=position,
                                        coordinate_system='PATIENT', frame_of_reference_uid=for_uid, channels=chans)
    else:
        buf = _layout_buffer(A, h['layout'])
        bufs = [buf]
        if h['entry'] == 'Volume':
            vol = hd.Volume(arr, buf, coordinate_system='PATIENT', frame_of_reference_uid=for_uid, channels=chans)
        else:
            geom = hd.VolumeGeometry(buf, arr.shape[:3], coordinate_system='PATIENT', frame_of_reference_uid=for_uid)
            if h['when'] == 'after_array':
                vol = geom.with_array(arr, channels=chans)

    # ---- the caller re-uses its buffers ------------------------------------------------------------
    m = h['mutate']
    if h['entry'] == 'from_components':
        lin, tr, scl = direction, position, spacing
    else:
        lin, tr, scl = buf[:3, :3], buf[:3, 3], None
    if m == 'retarget':
        tr[...] = shift.astype(tr.dtype)
    elif m == 'translate':
        tr[...] = (tr + shift).astype(tr.dtype)
    elif m == 'scale':
        if scl is not None:
            scl[...] = scl * 2
        else:
            lin[...] = lin * 2
    elif m == 'flip':
        lin[:, 0] = -lin[:, 0]
    elif m == 'swap':
        lin[:, [1, 2]] = lin[:, [2, 1]]
        if scl is not None:
            scl[[1, 2]] = scl[[2, 1]]
    elif m == 'zero':
        for b in bufs:
            b[...] = 0
    if h['entry'] == 'VolumeGeometry' and h['when'] != 'after_array':
        vol = geom.with_array(arr, channels=chans)

    # ---- ... and writes into arrays that properties of the volume handed out ---------------------------
    p = h['prop']
    if p is not None:
        got = vol.get_geometry().affine if p == 'geometry' else getattr(vol, p)
        if isinstance(got, np.ndarray) and got.flags.writeable:
            got[...] = got * 3 + 1
    return vol, bufs


def _get_vol(c, seg, kw):
    import numpy as np
    import highdicom as hd
    if c['api'] == 'image':
        img = hd.Image.from_dataset(seg, copy=True)
        return img.get_volume(dtype=np.float64, allow_missing_positions=c['allow_missing'], **kw)
    if c['typ'] == 'FRACTIONAL':
        return seg.get_volume(combine_segments=False, rescale_fractional=True, **kw)
    return seg.get_volume(combine_segments=True, **kw)


def _reopen(ds, rd, reader, tmp):
    """write the object in DICOM file format and open it again the way `rd` says (eager / lazy frame
    retrieval; from bytes, a binary stream, a path string or a PathLike); temporary files are listed in `tmp`"""
    import io
    import pathlib
    import tempfile
    b = io.BytesIO()
    ds.save_as(b)
    data = b.getvalue()
    if rd['fp'] == 'bytes':
        fp = data
    elif rd['fp'] == 'stream':
        fp = io.BytesIO(data)
    else:
        fd, path = tempfile.mkstemp(prefix='c03_', suffix='.dcm')
        with os.fdopen(fd, 'wb') as fh:
            fh.write(data)
        tmp.append(path)
        fp = path if rd['fp'] == 'path' else pathlib.Path(path)
    return reader(fp, lazy_frame_retrieval=rd['lazy'])


def _catch_io(fn):
    """common.catch, and a failure to read a frame from the file (OSError / EOFError of the lazy reader) is an
    outcome of the observation too - not an error of the harness"""
    import contextlib
    import io
    try:
        with contextlib.redirect_stderr(io.StringIO()):      # (the lazy reader also prints what it raises)
            return catch(fn)
    except (OSError, EOFError):
        return Err('OSError')


def _cleanup(tmp):
    for p in tmp:
        try:
            os.remove(p)
        except OSError:
            pass


def _obj_get_vol(c, obj, kw, per_segment=False):
    """get_volume of an opened object; per_segment: the volume assembled segment by segment and recombined
    (segmentation interface) / simply read once more (image interface)"""
    import numpy as np
    import highdicom as hd
    if c['api'] == 'image':
        extra = {'apply_real_world_transform': c['rwt']} if 'rwt' in c else {}
        return obj.get_volume(dtype=np.float64, allow_missing_positions=c['allow_missing'], **extra, **kw)
    if c['typ'] == 'FRACTIONAL':
        return obj.get_volume(combine_segments=False, rescale_fractional=True, **kw)
    if not per_segment:
        return obj.get_volume(combine_segments=True, **kw)
    v = obj.get_volume(combine_segments=False, **kw)
    a = np.asarray(v.array)
    nums = np.arange(1, a.shape[-1] + 1).reshape(1, 1, 1, -1)
    return hd.Volume((a * nums).max(axis=-1), v.affine, coordinate_system='PATIENT',
                     frame_of_reference_uid=v.frame_of_reference_uid)


def _run_rd(c):
    """'vol_rd' / 'src_rd' / 'src_img_rd': [geometry, full volume, sub-volume, full volume once more (per segment)]
    of the object after it was written to a file and opened again"""
    import highdicom as hd
    tmp = []
    try:
        ds = _build_seg(c)
        obj = _reopen(ds, c['rd'], hd.imread if c['api'] == 'image' else hd.seg.segread, tmp)
        if c['api'] == 'image':
            geo = catch(lambda: _geom_out(obj.get_volume_geometry(allow_missing_positions=c['allow_missing'])))
        else:
            geo = catch(lambda: _geom_out(obj.get_volume_geometry()))
        binar = c['api'] == 'image' and c['typ'] != 'LABELMAP'
        full = _catch_io(lambda: _vol_out(_obj_get_vol(c, obj, {}), binar))
        sub = _catch_io(lambda: _vol_out(_obj_get_vol(c, obj, _kw(c)), binar))
        again = _catch_io(lambda: _vol_out(_obj_get_vol(c, obj, {}, per_segment=True), binar))
        return [geo, full, sub, again]
    finally:
        _cleanup(tmp)


def _stored_file(ds, rd, reader, tmp):
    """like _reopen, but returns a function that opens the stored object (again and again)"""
    import io
    import pathlib
    import tempfile
    b = io.BytesIO()
    ds.save_as(b)
    data = b.getvalue()
    path = None
    if rd['fp'] in ('path', 'pathlike'):
        fd, path = tempfile.mkstemp(prefix='c03_', suffix='.dcm')
        with os.fdopen(fd, 'wb') as fh:
            fh.write(data)
        tmp.append(path)

    def open_():
        fp = data if rd['fp'] == 'bytes' else io.BytesIO(data) if rd['fp'] == 'stream' else \
            path if rd['fp'] == 'path' else pathlib.Path(path)
        return reader(fp, lazy_frame_retrieval=rd['lazy'])
    return open_


def _seq_objects(c, ds, tmp):
    """(the object that serves the history, a twin of it that has never been asked anything)"""
    import copy
    import highdicom as hd
    if c['open'] is not None:
        open_ = _stored_file(ds, c['open'], hd.imread if c['api'] == 'image' else hd.seg.segread, tmp)
        return open_(), open_()
    if c['api'] == 'image':
        return hd.Image.from_dataset(ds, copy=True), hd.Image.from_dataset(ds, copy=True)
    return ds, copy.deepcopy(ds)       # the segmentation as constructed (never written)


def _seq_via(obj, via, api):
    import copy
    import pickle
    import highdicom as hd
    if via == 'deepcopy':
        return copy.deepcopy(obj)
    if via == 'pickle':
        return pickle.loads(pickle.dumps(obj))
    if via == 'copy':
        return (hd.Image if api == 'image' else hd.seg.Segmentation).from_dataset(obj, copy=True)
    return obj


def _seq_tol(st):
    return {'rtol': {'rtol': 0.01}, 'atol': {'atol': 1e-3}}.get(st.get('tol'), {})


def _run_seq(c):
    """'vol_seq' / 'src_seq' / 'src_img_seq' / 'pm_seq': [full volume of a twin object that was never asked
    anything before, answer to request 1, answer to request 2, ...] - all requests go to ONE object (or to the
    copy made of it in between)"""
    import numpy as np
    tmp = []
    try:
        if c['kind'] == 'pm_seq':
            src = _pm_sources(c)
            arr = _mem_cast(np.array(c['arr']).reshape(c['S'], c['R'], c['C']), {'mem': {'dt': c['dt']}})
            kw = {'transfer_syntax_uid': _TS[c['ts']]}
            import highdicom as hd
            if c['u_pos'] is not None:
                kw['plane_positions'] = [hd.PlanePositionSequence('PATIENT', [_f(x) for x in p]) for p in c['u_pos']]
            if c['u_or'] is not None:
                kw['plane_orientation'] = hd.PlaneOrientationSequence(
                    'PATIENT', [_f(x) for x in c['u_or'][0]] + [_f(x) for x in c['u_or'][1]])
            if c['u_pm'] is not None:
                kw['pixel_measures'] = hd.PixelMeasuresSequence(
                    pixel_spacing=(_f(c['u_pm'][0]), _f(c['u_pm'][1])), slice_thickness=1.0,
                    spacing_between_slices=None if c['u_pm'][2] is None else _f(c['u_pm'][2]))
            ds = _pm_make(src, arr, **kw)
        else:
            ds = _build_seg(c)
        obj, twin = _seq_objects(c, ds, tmp)
        binar = c['api'] == 'image' and c['typ'] != 'LABELMAP'
        out = [_catch_io(lambda: _vol_out(_obj_get_vol(dict(c, allow_missing=True), twin, {}), binar))]
        keep = []      # (the copy of a lazily opened image reads its frames through a weak reference to the
        #                  image it was copied from: the caller keeps that one alive)
        for st in c['steps']:
            keep.append(obj)
            obj = _seq_via(obj, st['via'], c['api'])
            if st['op'] == 'geom':
                out.append(catch(lambda: _geom_out(obj.get_volume_geometry(
                    allow_missing_positions=st['am'], **_seq_tol(st)))))
                continue
            kw = dict(_kw(st), **_seq_tol(st))
            if c['api'] == 'seg':
                kw['allow_missing_positions'] = st['am']
            out.append(_catch_io(lambda: _vol_out(
                _obj_get_vol(dict(c, allow_missing=st['am']), obj, kw, per_segment=st['perseg']), binar)))
        return out
    finally:
        _cleanup(tmp)


def _run_seq_tiled(c):
    """'tiled_seq': per request [geometry, get_volume(region)] of ONE tiled object"""
    import numpy as np
    import highdicom as hd
    import synth
    tmp = []
    try:
        sm = _build_sm(c)
        if c['api'] == 'seg':
            mask = np.array(c['M'], np.uint8).reshape(1, c['R'], c['C'])
            mkw = {'transfer_syntax_uid': _TS[c['ts']]} if c.get('ts') else {}
            obj = synth.make_seg([sm], mask, c['typ'], [1], tile_pixel_array=True, omit_empty_frames=c['omit'],
                                 tile_size=(c['th'], c['tw']), **mkw,
                                 dimension_organization_type='TILED_FULL' if (c['tiled_full'] and not c['omit'])
                                 else 'TILED_SPARSE')
            if c['open'] is not None:
                obj = _stored_file(obj, c['open'], hd.seg.segread, tmp)()
        else:
            obj = hd.Image.from_dataset(sm, copy=True)
        out = []
        keep = []
        for st in c['steps']:
            keep.append(obj)
            obj = _seq_via(obj, st['via'], c['api'])

            def vol():
                if c['api'] == 'seg':
                    return _vol_out(obj.get_volume(combine_segments=True, **_kw(st)))
                v = obj.get_volume(**_kw(st))
                return [list(v.spatial_shape), v.affine[:3].tolist(), None]
            if st['geom_first']:
                g = _geom_out(obj.get_volume_geometry())
                out.append([g, _catch_io(vol)])
            else:
                v = _catch_io(vol)
                out.append([_geom_out(obj.get_volume_geometry()), v])
        return out
    finally:
        _cleanup(tmp)


def _pm_make(src, arr, **kw):
    import highdicom as hd
    from pydicom.sr.codedict import codes
    mapping = hd.pm.RealWorldValueMapping(lut_label='1', lut_explanation='feature', unit=codes.UCUM.NoUnits,
                                          value_range=[0, 1000], intercept=0, slope=1)
    return hd.pm.ParametricMap(src, arr, hd.UID(), 1, hd.UID(), 1, 'm', 'mm', '1', 'sn',
                               contains_recognizable_visual_features=False, real_world_value_mappings=[mapping],
                               window_center=500.0, window_width=1000.0, **kw)


def _pm_sources(c):
    """the source images of a 'pm' case: a series of single-frame CT images, or one multi-frame image"""
    import synth
    s = c['src']
    orient = [_f(x) for x in s['rowcos']] + [_f(x) for x in s['colcos']]
    sp = (_f(s['spr']), _f(s['spc']))
    pos = [[_f(x) for x in p] for p in s['positions']]
    if s['multiframe']:
        import numpy as np
        ds = synth.ct_image_at(pos, c['R'], c['C'], orient, sp, np.zeros((len(pos), c['R'], c['C']), np.int16),
                               spacing_between_slices=None if s['sbs'] is None else _f(s['sbs']))
        return [ds]
    out, first = [], None
    for k, p in enumerate(pos):
        ds = synth.ct_frame(p, c['R'], c['C'], orientation=orient, spacing=sp, instance_number=k + 1,
                            series_uid=first.SeriesInstanceUID if first else None,
                            study_uid=first.StudyInstanceUID if first else None,
                            for_uid=first.FrameOfReferenceUID if first else None)
        if s['sbs'] is not None:
            ds.SpacingBetweenSlices = _f(s['sbs'])
        elif 'SpacingBetweenSlices' in ds:
            del ds.SpacingBetweenSlices
        if first is None:
            first = ds
            ds.SeriesInstanceUID = synth.uid()
        out.append(ds)
    return out


def _run_pm(c):
    """[geometry, full volume, sub-volume, per input plane: the position recorded by the frame(s) at that
    position and the pixels they hold]; a refusal of the constructor is the whole result"""
    import copy
    import numpy as np
    import highdicom as hd
    src = _pm_sources(c)
    arr = _mem_cast(np.array(c['arr']).reshape(c['S'], c['R'], c['C']), {'mem': {'dt': c['dt']}})
    kw = {'transfer_syntax_uid': _TS[c['ts']]}
    if c['u_pos'] is not None:
        kw['plane_positions'] = [hd.PlanePositionSequence('PATIENT', [_f(x) for x in p]) for p in c['u_pos']]
    if c['u_or'] is not None:
        kw['plane_orientation'] = hd.PlaneOrientationSequence(
            'PATIENT', [_f(x) for x in c['u_or'][0]] + [_f(x) for x in c['u_or'][1]])
    if c['u_pm'] is not None:
        kw['pixel_measures'] = hd.PixelMeasuresSequence(
            pixel_spacing=(_f(c['u_pm'][0]), _f(c['u_pm'][1])), slice_thickness=1.0,
            spacing_between_slices=None if c['u_pm'][2] is None else _f(c['u_pm'][2]))
    tmp = []

    def f():
        given = [src, kw.get('plane_positions'), kw.get('plane_orientation'), kw.get('pixel_measures')]
        before, arr0 = copy.deepcopy(given), arr.copy()
        pm = _pm_make(src, arr, **kw)
        if not (given == before and np.array_equal(arr, arr0)):
            return 'the constructor modified its arguments'
        if c['rd'] is None:
            obj = hd.Image.from_dataset(pm, copy=True)
        else:
            obj = _reopen(pm, c['rd'], hd.imread, tmp)
        geo = catch(lambda: _geom_out(obj.get_volume_geometry(allow_missing_positions=c['allow_missing'])))
        full = _catch_io(lambda: _vol_out(_obj_get_vol(c, obj, {})))
        sub = _catch_io(lambda: _vol_out(_obj_get_vol(c, obj, _kw(c))))
        rec = [[float(x) for x in it.PlanePositionSequence[0].ImagePositionPatient]
               for it in obj.PerFrameFunctionalGroupsSequence]
        frames = []
        for p in c['positions']:
            p = [_f(x) for x in p]
            hit = [i for i, q in enumerate(rec) if all(abs(a - b) <= 1e-6 * (1 + abs(b)) for a, b in zip(q, p))]
            if len(hit) != 1:
                frames.append(f'{len(hit)} frames record this position')
            else:
                px = _catch_io(lambda: np.asarray(obj.get_frame(
                    hit[0] + 1, apply_real_world_transform=False)).astype(np.int64).tolist())
                frames.append([rec[hit[0]], px])
        if len(rec) != len(c['positions']):
            frames.append(f'{len(rec)} frames')
        return [geo, full, sub, frames]
    try:
        return catch(f)
    finally:
        _cleanup(tmp)


def _pm_tiled_padded(c):
    """the caller's tiles laid out on the tile grid: the mask, and 9 in the part of the border tiles that lies
    outside the total pixel matrix of the source"""
    R, C, th, tw = c['R'], c['C'], c['th'], c['tw']
    out = [[9] * (-(-C // tw) * tw) for _ in range(-(-R // th) * th)]
    for r in range(R):
        out[r][:C] = c['M'][r]
    return out


def _run_pm_tiled(c):
    import numpy as np
    import highdicom as hd
    import synth
    from highdicom.seg.content import DimensionIndexSequence
    rc, cc = [_f(x) for x in c['rowcos']], [_f(x) for x in c['colcos']]
    R, C, th, tw = c['R'], c['C'], c['th'], c['tw']
    sm = synth.sm_tiled(R, C, th, tw, tiled_full=not c['sparse'], samples=3,
                        origin=(_f(c['origin'][0]), _f(c['origin'][1])),
                        spacing=(_f(c['spr']), _f(c['spc'])), orientation=rc + cc)
    z = _f(c.get('srcz') or 0)
    if c.get('srcz') is not None:
        sm.TotalPixelMatrixOriginSequence[0].ZOffsetInSlideCoordinateSystem = z
    if c['sparse']:
        items = list(sm.PerFrameFunctionalGroupsSequence)
        for it in items:
            it.PlanePositionSlideSequence[0].ZOffsetInSlideCoordinateSystem = z
        sm.PerFrameFunctionalGroupsSequence = [items[t] for t in c['forder']]
    nc = -(-C // tw)
    nr = -(-R // th)
    padded = np.array(_pm_tiled_padded(c), np.int64)
    listed = c['forder'] if c['listed'] is None else c['listed']
    tiles = np.stack([padded[(t // nc) * th:(t // nc + 1) * th, (t % nc) * tw:(t % nc + 1) * tw]
                      for t in listed])
    tiles = _mem_cast(tiles, {'mem': {'dt': c['dt']}})
    kw = {'transfer_syntax_uid': _TS[c['ts']]}
    if c['listed'] is not None:
        pps = DimensionIndexSequence('SLIDE').get_plane_positions_of_image(sm)      # in the source's frame order
        kw['plane_positions'] = [pps[c['forder'].index(t)] for t in listed]
    tmp = []

    def f():
        pm = _pm_make([sm], tiles, **kw)
        obj = hd.Image.from_dataset(pm, copy=True) if c['rd'] is None else _reopen(pm, c['rd'], hd.imread, tmp)
        g = obj.get_volume_geometry()
        tpm = _catch_io(lambda: np.rint(obj.get_total_pixel_matrix(
            apply_real_world_transform=False)).astype(np.int64).tolist())
        return [_geom_out(g),
                _catch_io(lambda: _vol_out(obj.get_volume(apply_real_world_transform=False, **_kw(c)))),
                [int(pm.TotalPixelMatrixRows), int(pm.TotalPixelMatrixColumns)], tpm]
    try:
        return catch(f)
    finally:
        _cleanup(tmp)


def _build_sm(c, samples=3):
    import synth
    rc, cc = [_f(x) for x in c['rowcos']], [_f(x) for x in c['colcos']]
    sm = synth.sm_tiled(c['R'], c['C'], c['th'], c['tw'], tiled_full=True, samples=samples,
                        origin=(_f(c['origin'][0]), _f(c['origin'][1])),
                        spacing=(_f(c['spr']), _f(c['spc'])), orientation=rc + cc)
    if c.get('srcz') is not None:      # the source's own focal plane (attribute absent = 0)
        sm.TotalPixelMatrixOriginSequence[0].ZOffsetInSlideCoordinateSystem = _f(c['srcz'])
    return sm


def _place_eff(c):
    """effective (source origin, caller origin, row cosines, column cosines, spacings, slice spacing) of a
    'tiled_place' case, exact"""
    src_org = [F(c['origin'][0]), F(c['origin'][1]), F(c['srcz'] or 0)]
    usr_org = [a + F(b) for a, b in zip(src_org, c['d'])]
    rc = [F(x) for x in (c['u_rowcos'] if c['o_given'] else c['rowcos'])]
    cc = [F(x) for x in (c['u_colcos'] if c['o_given'] else c['colcos'])]
    spr = F(c['u_spr'] if c['m_given'] else c['spr'])
    spc = F(c['u_spc'] if c['m_given'] else c['spc'])
    sbs = F(c['u_sbs']) if (c['m_given'] and c['u_sbs'] is not None) else None
    return src_org, usr_org, rc, cc, spr, spc, sbs


def _run_place(c):
    import numpy as np
    import highdicom as hd
    import synth
    sm = _build_sm(c)
    src_org, usr_org, rc, cc, spr, spc, sbs = _place_eff(c)
    MR, MC = c['MR'], c['MC']
    mask = np.array(c['M'], np.uint8).reshape(1, MR, MC)
    mbase = None
    if c.get('mem'):
        mask, mbase = _mem_array(_mem_cast(mask, c), c['mem']['lay'])
    kw = {'tile_pixel_array': True, 'omit_empty_frames': c['omit'],
          'dimension_organization_type': 'TILED_FULL' if (c['tiled_full'] and not c['omit']) else 'TILED_SPARSE'}
    if c['tile'] is not None:
        kw['tile_size'] = tuple(c['tile'])
    if c.get('mem'):
        kw['transfer_syntax_uid'] = _TS[c['mem']['ts']]
    org = [float(x) for x in usr_org]
    if c['entry'] == 'volume':
        rcv, ccv = np.array([float(x) for x in rc]), np.array([float(x) for x in cc])
        A = np.eye(4)
        A[:3, 0] = np.cross(ccv, rcv) * float(sbs) * (-1 if c['flip0'] else 1)
        A[:3, 1] = ccv * float(spr)
        A[:3, 2] = rcv * float(spc)
        A[:3, 3] = org
        pix = hd.Volume(mask, A, coordinate_system='SLIDE', frame_of_reference_uid=sm.FrameOfReferenceUID)
    else:
        pix = mask
        col, row = c['pp'][1], c['pp'][0]
        kw['plane_positions'] = [hd.PlanePositionSequence('SLIDE', image_position=org,
                                                          pixel_matrix_position=(col, row))
                                 for _ in range(c['npos'])]
        if c['o_given']:
            kw['plane_orientation'] = hd.PlaneOrientationSequence(
                'SLIDE', image_orientation=[float(x) for x in rc + cc])
        if c['m_given']:
            kw['pixel_measures'] = hd.PixelMeasuresSequence(
                pixel_spacing=(float(spr), float(spc)), slice_thickness=1.0,
                spacing_between_slices=None if sbs is None else float(sbs))

    def f():
        import copy
        given = [sm, kw.get('plane_positions'), kw.get('plane_orientation'), kw.get('pixel_measures')]
        before = copy.deepcopy(given)
        aff0 = pix.affine if c['entry'] == 'volume' else None
        mbase0 = None if mbase is None else mbase.copy()
        seg = synth.make_seg([sm], pix, c['typ'], [1], **kw)
        # the constructor leaves the source image and the caller's position / orientation / measures alone
        untouched = (given == before and np.array_equal(mask, np.array(c['M'], np.uint8).reshape(1, MR, MC)) and
                     (aff0 is None or np.array_equal(aff0, pix.affine)) and
                     (mbase is None or np.array_equal(mbase, mbase0)))
        if c['file_rt']:
            seg = synth.write_read(seg, hd.seg.segread)
        it = seg.TotalPixelMatrixOriginSequence[0]
        rec = [float(it.XOffsetInSlideCoordinateSystem), float(it.YOffsetInSlideCoordinateSystem),
               float(it.get('ZOffsetInSlideCoordinateSystem', 0.0))]
        if c['api'] == 'image':
            obj = hd.Image.from_dataset(seg, copy=True)
            vol = catch(lambda: _vol_out(obj.get_volume(dtype=np.float64, **_kw(c)), c['typ'] != 'LABELMAP'))
        else:
            obj = seg
            vol = catch(lambda: _vol_out(obj.get_volume(combine_segments=True, **_kw(c))))
        geo = _geom_out(obj.get_volume_geometry())
        frames = None
        if 'PerFrameFunctionalGroupsSequence' in seg:
            frames = []
            for item in seg.PerFrameFunctionalGroupsSequence:
                pp = item.PlanePositionSlideSequence[0]
                frames.append([int(pp.RowPositionInTotalImagePixelMatrix),
                               int(pp.ColumnPositionInTotalImagePixelMatrix),
                               float(pp.XOffsetInSlideCoordinateSystem), float(pp.YOffsetInSlideCoordinateSystem),
                               float(pp.ZOffsetInSlideCoordinateSystem)])
            frames.sort()
        return [rec, geo, vol, frames, bool(untouched)]
    return catch(f)


def run_impl(c):
    _quiet()
    import numpy as np
    import highdicom as hd
    import synth
    k = c['kind']
    if k in ('std_slice', 'std_slice_err'):
        return catch(lambda: list(hd.Image._standardize_slice_indices(c['ss'], c['se'], c['n'], c['ai'])))
    if k in ('std_rc', 'std_rc_err'):
        return catch(lambda: list(hd.Image._standardize_row_column_indices(
            c['rs'], c['re'], c['cs'], c['ce'], c['rows'], c['cols'], c['ai'], c['oi'])))
    if k in ('tiled_place', 'tiled_place_err', 'tiled_place_mem'):
        return _run_place(c)
    if k in ('vol_rd', 'src_rd', 'src_img_rd'):
        return _run_rd(c)
    if k in ('vol_seq', 'src_seq', 'src_img_seq', 'pm_seq'):
        return _run_seq(c)
    if k == 'tiled_seq':
        return _run_seq_tiled(c)
    if k in ('pm', 'pm_err'):
        return _run_pm(c)
    if k == 'pm_tiled':
        return _run_pm_tiled(c)
    if k.startswith('vol') or k.startswith('src'):
        info = {}
        if k in ('vol_hist', 'vol_mem', 'vol_mem_err', 'src_mem'):
            seg = catch(lambda: _build_seg(c, info))
            if isinstance(seg, Err):      # the history / layout made construction / encoding of a valid volume fail
                return [seg, seg, seg, None]
        else:
            seg = _build_seg(c, info)
        if c['api'] == 'image':
            img = hd.Image.from_dataset(seg, copy=True)
            geo = catch(lambda: _geom_out(img.get_volume_geometry(allow_missing_positions=c['allow_missing'])))
        else:
            geo = catch(lambda: _geom_out(seg.get_volume_geometry()))
        binar = c['api'] == 'image' and c['typ'] != 'LABELMAP'
        full = catch(lambda: _vol_out(_get_vol(c, seg, {}), binar))
        sub = catch(lambda: _vol_out(_get_vol(c, seg, _kw(c)), binar))
        if k in ('vol_hist', 'vol_mem', 'vol_mem_err', 'src_mem'):
            return [geo, full, sub, info.get('untouched')]
        return [geo, full, sub]
    if k in ('tiled', 'tiled_err', 'tiled_mem', 'tiled_rd'):
        sm = _build_sm(c)
        if c['api'] == 'seg':
            mask = np.array(c['M'], np.uint8).reshape(1, c['R'], c['C'])
            mkw = {}
            if c.get('mem'):
                mask = _mem_array(_mem_cast(mask, c), c['mem']['lay'])[0]
                mkw['transfer_syntax_uid'] = _TS[c['mem']['ts']]
            elif c.get('ts'):
                mkw['transfer_syntax_uid'] = _TS[c['ts']]
            obj = synth.make_seg([sm], mask, c['typ'], [1], tile_pixel_array=True, omit_empty_frames=c['omit'],
                                 tile_size=(c['th'], c['tw']), **mkw,
                                 dimension_organization_type='TILED_FULL' if (c['tiled_full'] and not c['omit'])
                                 else 'TILED_SPARSE')
            if c.get('rd'):
                tmp = []
                try:
                    obj = _reopen(obj, c['rd'], hd.seg.segread, tmp)
                    return [_geom_out(obj.get_volume_geometry()),
                            _catch_io(lambda: _vol_out(obj.get_volume(combine_segments=True, **_kw(c))))]
                finally:
                    _cleanup(tmp)
            g = obj.get_volume_geometry()

            def f():
                v = obj.get_volume(combine_segments=True, **_kw(c))
                return _vol_out(v)
        else:
            obj = hd.Image.from_dataset(sm, copy=True)
            g = obj.get_volume_geometry()

            def f():
                v = obj.get_volume(**_kw(c))
                return [list(v.spatial_shape), v.affine[:3].tolist(), None]
        return [_geom_out(g), catch(f)]
    if k in ('pyr_multi', 'pyr_multi_err'):
        rc, cc = [_f(x) for x in c['rowcos']], [_f(x) for x in c['colcos']]
        srcs = []
        for lv in c['srcs']:
            sm = synth.sm_tiled(lv['R'], lv['C'], c['th'], c['tw'], tiled_full=True, samples=3,
                                origin=(_f(lv['origin'][0]), _f(lv['origin'][1])),
                                spacing=(_f(lv['spr']), _f(lv['spc'])), orientation=rc + cc)
            if c.get('srcz') is not None:
                sm.TotalPixelMatrixOriginSequence[0].ZOffsetInSlideCoordinateSystem = _f(c['srcz'])
            if srcs:
                for kw_ in ('SeriesInstanceUID', 'StudyInstanceUID', 'FrameOfReferenceUID', 'PyramidUID'):
                    setattr(sm, kw_, getattr(srcs[0], kw_))
            else:
                sm.PyramidUID = hd.UID()
            srcs.append(sm)
        pix = []
        for (r, cl) in c['pix']:
            M = np.zeros((r, cl), np.uint8)
            M[0, 0] = M[r - 1, cl - 1] = 1
            pix.append(M if c['rank'] == 2 else M[None])
        descs = [synth.seg_description(1)]

        def f():
            segs = hd.seg.create_segmentation_pyramid(srcs, pix, c['typ'], descs, hd.UID(), 1, 'm', 'mm', '1', 'sn')
            out = []
            for s in segs:
                pm = s.SharedFunctionalGroupsSequence[0].PixelMeasuresSequence[0]
                g = s.get_volume_geometry()
                assert list(g.spatial_shape) == [1, s.TotalPixelMatrixRows, s.TotalPixelMatrixColumns]
                out.append([int(s.TotalPixelMatrixRows), int(s.TotalPixelMatrixColumns),
                            float(pm.PixelSpacing[0]), float(pm.PixelSpacing[1]), g.affine[:3].tolist()])
            return out
        return catch(f)
    if k in ('pyramid', 'pyramid_err'):
        sm = _build_sm(c)
        M = np.array(c['M'], np.uint8)
        if c['rank'] == 2:
            pix = M
        elif c['rank'] == 3:
            pix = M[None]
        else:
            pix = np.stack([(M == 1)] + [np.zeros_like(M, bool)] * (c['nseg'] - 1), axis=-1)[None].astype(np.uint8)
        descs = [synth.seg_description(i + 1) for i in range(c['nseg'])]

        def f():
            segs = hd.seg.create_segmentation_pyramid(
                [sm], [pix], c['typ'], descs, hd.UID(), 1, 'm', 'mm', '1', 'sn',
                downsample_factors=[_f(x) for x in c['fs']])
            out = []
            for s in segs:
                pm = s.SharedFunctionalGroupsSequence[0].PixelMeasuresSequence[0]
                g = s.get_volume_geometry()
                assert list(g.spatial_shape) == [1, s.TotalPixelMatrixRows, s.TotalPixelMatrixColumns]
                out.append([int(s.TotalPixelMatrixRows), int(s.TotalPixelMatrixColumns),
                            float(pm.PixelSpacing[0]), float(pm.PixelSpacing[1]), g.affine[:3].tolist()])
            return out
        return catch(f)
    raise ValueError(k)


# ---------------------------------------------------------------------------------------------
# model terms
# ---------------------------------------------------------------------------------------------
def _v3(xs):
    a, b, cc = (qlit(F(x)) for x in xs)
    return f'(V3 {a} {b} {cc})'


def _planes(arr):
    return '[' + '; '.join(zll(p) for p in arr) + ']'


def _b(x):
    return 'true' if x else 'false'


def _args(c):
    return ' '.join(optz(c.get(k)) for k in ('ss', 'se', 'rs', 're', 'cs', 'ce')) + ' ' + _b(c.get('as_idx'))


def _optq(x):
    return 'None' if x is None else f'(Some {qlit(F(x))})'


def _pm_stored_term(c):
    s = c['src']

    def v3l(ps):
        return '[' + '; '.join(_v3(p) for p in ps) + ']'
    u_ps = 'None' if c['u_pos'] is None else f"(Some {v3l(c['u_pos'])})"
    u_or = 'None' if c['u_or'] is None else f"(Some ({_v3(c['u_or'][0])}, {_v3(c['u_or'][1])}))"
    u_pm = 'None' if c['u_pm'] is None else \
        f"(Some ({qlit(F(c['u_pm'][0]))}, {qlit(F(c['u_pm'][1]))}, {_optq(c['u_pm'][2])}))"
    return (f"(pm_stored {v3l(s['positions'])} {_v3(s['rowcos'])} {_v3(s['colcos'])} {qlit(F(s['spr']))} "
            f"{qlit(F(s['spc']))} {_optq(s['sbs'])} {u_ps} {u_or} {u_pm} {zlit(c['R'])} {zlit(c['C'])} "
            f"{_planes(c['arr'])})")


def coq_term(c):
    k = c['kind']
    if k in ('std_slice', 'std_slice_err'):
        return f"(run_std_slice {optz(c['ss'])} {optz(c['se'])} {zlit(c['n'])} {_b(c['ai'])})"
    if k in ('std_rc', 'std_rc_err'):
        return (f"(run_std_rc {optz(c['rs'])} {optz(c['re'])} {optz(c['cs'])} {optz(c['ce'])} "
                f"{zlit(c['rows'])} {zlit(c['cols'])} {_b(c['ai'])} {_b(c['oi'])})")
    if k == 'tiled_seq':
        # one object, no state in the model: the answers are those of the single requests
        return '(VL [' + '; '.join(
            coq_term(dict(c, kind='tiled', **{x: st[x] for x in _SEQ_KEYS + ('as_idx',)})) for st in c['steps']) + '])'
    if k in ('vol_seq', 'src_seq', 'src_img_seq', 'pm_seq'):
        reqs = '[' + '; '.join(
            f"(ReqGeom {_b(st['am'])})" if st['op'] == 'geom' else f"(ReqVol {_b(st['am'])} {_args(st)})"
            for st in c['steps']) + ']'
        if k == 'pm_seq':
            return f"(run_pm_seq {_pm_stored_term(c)} {reqs})"
        if k == 'vol_seq':
            d, sp = c['d'], c['sp']
            st = (f"(seg_from_volume {_v3(c['pos'])} {_v3(d[0])} {_v3(d[1])} {_v3(d[2])} "
                  f"{qlit(F(sp[0]))} {qlit(F(sp[1]))} {qlit(F(sp[2]))} {zlit(c['R'])} {zlit(c['C'])} "
                  f"{_planes(c['arr'])} {_b(c['omit'])})")
        elif k == 'src_img_seq':
            planes = '[' + '; '.join(f"({_v3(p)}, {zll(a)})" for p, a in _img_kept(c)) + ']'
            st = (f"(Stored {_v3(c['rowcos'])} {_v3(c['colcos'])} {qlit(F(c['spr']))} {qlit(F(c['spc']))} "
                  f"{_optq(c['sbs'] if c['src_has_sbs'] else None)} {zlit(c['R'])} {zlit(c['C'])} {planes})")
        else:
            ps = '[' + '; '.join(_v3(p) for p in c['positions']) + ']'
            st = (f"(seg_from_sources {ps} {_v3(c['rowcos'])} {_v3(c['colcos'])} {qlit(F(c['spr']))} "
                  f"{qlit(F(c['spc']))} {_optq(c['sbs'] if c['src_has_sbs'] else None)} {zlit(c['R'])} "
                  f"{zlit(c['C'])} {_planes(c['arr'])} {_b(c['omit'])})")
        return f"(run_stored_seq {st} {reqs})"
    k = {'tiled_mem': 'tiled', 'tiled_place_mem': 'tiled_place', 'tiled_rd': 'tiled'}.get(k, k)
    if k == 'pm_tiled':
        pos = [c['origin'][0], c['origin'][1], c.get('srcz') or '0']
        u = 'None' if c['listed'] is None else f"(Some {zl(c['listed'])})"
        return (f"(run_pm_tiled {_v3(pos)} {_v3(c['rowcos'])} {_v3(c['colcos'])} {qlit(F(c['spr']))} "
                f"{qlit(F(c['spc']))} {zlit(c['R'])} {zlit(c['C'])} {zlit(c['th'])} {zlit(c['tw'])} "
                f"{zl(c['forder'])} {u} {zll(_pm_tiled_padded(c))} {_args(c)})")
    if k in ('pm', 'pm_err'):
        s = c['src']

        def v3l(ps):
            return '[' + '; '.join(_v3(p) for p in ps) + ']'
        u_ps = 'None' if c['u_pos'] is None else f"(Some {v3l(c['u_pos'])})"
        u_or = 'None' if c['u_or'] is None else f"(Some ({_v3(c['u_or'][0])}, {_v3(c['u_or'][1])}))"
        u_pm = 'None' if c['u_pm'] is None else \
            f"(Some ({qlit(F(c['u_pm'][0]))}, {qlit(F(c['u_pm'][1]))}, {_optq(c['u_pm'][2])}))"
        st = (f"(pm_stored {v3l(s['positions'])} {_v3(s['rowcos'])} {_v3(s['colcos'])} {qlit(F(s['spr']))} "
              f"{qlit(F(s['spc']))} {_optq(s['sbs'])} {u_ps} {u_or} {u_pm} {zlit(c['R'])} {zlit(c['C'])} "
              f"{_planes(c['arr'])})")
        return f"(run_pm {_b(c['allow_missing'])} {st} {_args(c)})"
    if k in ('tiled_place', 'tiled_place_err'):
        src_org = [c['origin'][0], c['origin'][1], c['srcz'] or '0']
        usr_org = [F(a) + F(b) for a, b in zip(src_org, c['d'])]
        sbs = c['u_sbs'] if c['m_given'] else None
        th, tw = c['tile'] or (c['th'], c['tw'])
        with_frames = not (c['tiled_full'] and not c['omit'])
        return (f"(run_tiled_place {_b(with_frames)} {_v3(src_org)} {_v3(usr_org)} {zlit(c['npos'])} "
                f"{zlit(c['pp'][0])} {zlit(c['pp'][1])} {_b(c['o_given'])} {_v3(c['rowcos'])} {_v3(c['colcos'])} "
                f"{_v3(c['u_rowcos'])} {_v3(c['u_colcos'])} {_b(c['m_given'])} {qlit(F(c['spr']))} "
                f"{qlit(F(c['spc']))} {qlit(F(c['u_spr']))} {qlit(F(c['u_spc']))} {_optq(sbs)} "
                f"{zlit(c['R'])} {zlit(c['C'])} {zlit(c['MR'])} {zlit(c['MC'])} {zlit(c['th'])} {zlit(c['tw'])} "
                f"{zlit(th)} {zlit(tw)} {zll(c['M'])} {_b(c['omit'])} {_args(c)})")
    if k.startswith('vol'):
        d, sp = c['d'], c['sp']
        st = (f"(seg_from_volume {_v3(c['pos'])} {_v3(d[0])} {_v3(d[1])} {_v3(d[2])} "
              f"{qlit(F(sp[0]))} {qlit(F(sp[1]))} {qlit(F(sp[2]))} {zlit(c['R'])} {zlit(c['C'])} "
              f"{_planes(c['arr'])} {_b(c['omit'])})")
        if k.startswith('vol_mem') and (c['mem'].get('bad') or c['mem']['op'] in ('permute', 'swap', 'tpo', 'flip')):
            # the volume W the Volume API calls start from; the model makes the calls
            import numpy as np
            m = c['mem']
            pos, dW, spW, (lab,), _ = _vapi_source(c, [np.array(c['arr'], dtype=int).reshape(c['S'], c['R'], c['C'])])
            W = (f"(QVol {_v3(pos)} {_v3(dW[0])} {_v3(dW[1])} {_v3(dW[2])} {qlit(spW[0])} {qlit(spW[1])} "
                 f"{qlit(spW[2])} {_planes(lab.tolist())})")
            if m['op'] == 'swap':
                rv = f"(qvol_swap {zlit(m['ab'][0])} {zlit(m['ab'][1])} {W})"
            elif m['op'] == 'flip':
                rv = f"(qvol_flip {zl(m['flips'])} {W})"
            elif m['flips']:
                rv = f"(bind (qvol_flip {zl(m['flips'])} {W}) (qvol_permute {zl(m['p'])}))"
            else:
                rv = f"(qvol_permute {zl(m['p'])} {W})"
            return f"(run_stored_vapi {_b(c['allow_missing'])} {rv} {_b(c['omit'])} {_args(c)})"
        run = 'run_stored_hist' if k in ('vol_hist', 'vol_mem') else 'run_stored_rd' if k == 'vol_rd' else 'run_stored'
        return f"({run} {_b(c['allow_missing'])} {st} {_args(c)})"
    if k.startswith('src') and c.get('form'):
        planes = '[' + '; '.join(f"({_v3(p)}, {zll(a)})" for p, a in _img_kept(c)) + ']'
        st = (f"(Stored {_v3(c['rowcos'])} {_v3(c['colcos'])} {qlit(F(c['spr']))} {qlit(F(c['spc']))} "
              f"{_optq(c['sbs'] if c['src_has_sbs'] else None)} {zlit(c['R'])} {zlit(c['C'])} {planes})")
        run = 'run_stored_rd' if k == 'src_img_rd' else 'run_stored'
        return f"({run} {_b(c['allow_missing'])} {st} {_args(c)})"
    if k.startswith('src'):
        ps = '[' + '; '.join(_v3(p) for p in c['positions']) + ']'
        st = (f"(seg_from_sources {ps} {_v3(c['rowcos'])} {_v3(c['colcos'])} {qlit(F(c['spr']))} {qlit(F(c['spc']))} "
              f"{_optq(c['sbs'] if c['src_has_sbs'] else None)} {zlit(c['R'])} {zlit(c['C'])} "
              f"{_planes(c['arr'])} {_b(c['omit'])})")
        run = 'run_stored_hist' if k == 'src_mem' else 'run_stored_rd' if k == 'src_rd' else 'run_stored'
        return f"({run} {_b(c['allow_missing'])} {st} {_args(c)})"
    if k in ('tiled', 'tiled_err'):
        pos = [c['origin'][0], c['origin'][1], c.get('srcz') or '0']
        return (f"(run_tiled {_b(c['api'] == 'seg')} {_v3(pos)} {_v3(c['rowcos'])} {_v3(c['colcos'])} "
                f"{qlit(F(c['spr']))} {qlit(F(c['spc']))} None {zlit(c['R'])} {zlit(c['C'])} {zll(c['M'])} {_args(c)})")
    if k in ('pyr_multi', 'pyr_multi_err'):
        z = c.get('srcz') or '0'
        srcs = '[' + '; '.join(
            f"({zlit(lv['R'])}, {zlit(lv['C'])}, {qlit(F(lv['spr']))}, {qlit(F(lv['spc']))}, "
            f"{_v3([lv['origin'][0], lv['origin'][1], z])})" for lv in c['srcs']) + ']'
        pix = '[' + '; '.join(f"({zlit(r)}, {zlit(cl)})" for r, cl in c['pix']) + ']'
        return f"(run_pyramid_multi {_v3(c['rowcos'])} {_v3(c['colcos'])} {srcs} {pix})"
    if k in ('pyramid', 'pyramid_err'):
        pos = [c['origin'][0], c['origin'][1], c.get('srcz') or '0']
        fs = '[' + '; '.join(qlit(F(x)) for x in c['fs']) + ']'
        return (f"(run_pyramid {_v3(pos)} {_v3(c['rowcos'])} {_v3(c['colcos'])} {zlit(c['R'])} {zlit(c['C'])} "
                f"{qlit(F(c['spr']))} {qlit(F(c['spc']))} {fs})")
    raise ValueError(k)


# ---------------------------------------------------------------------------------------------
# independent oracle (numpy; never the model)
# ---------------------------------------------------------------------------------------------
def _close(a, b, tol=1e-6):
    return abs(a - b) <= tol * (1 + abs(b))


class _VoxSet(dict):
    """{position: value} compared with a position tolerance (no rounding-boundary effects)"""

    def _match(self, other):
        rest = list(other.items())
        for p, v in self.items():
            for i, (q, w) in enumerate(rest):
                if v == w and all(abs(a - b) <= 1e-5 * (1 + abs(b)) for a, b in zip(p, q)):
                    del rest[i]
                    break
            else:
                return False
        return not rest

    def __eq__(self, other):
        return len(self) == len(other) and self._match(other)

    def __ne__(self, other):
        return not self.__eq__(other)

    def contains(self, p, v):
        return any(v == w and all(abs(a - b) <= 1e-5 * (1 + abs(b)) for a, b in zip(p, q))
                   for q, w in self.items())


def _key(p):
    return tuple(float(x) for x in p)


def _vox_map_out(vol):
    """{physical position: value} of the non-zero voxels of an output [shape, affine, array]"""
    import numpy as np
    shape, aff, arr = vol
    A = np.array(aff, float)
    a = np.array(arr).reshape(shape)
    out = _VoxSet()
    for idx in zip(*np.nonzero(a)):
        p = A[:, :3] @ np.array(idx, float) + A[:, 3]
        out[_key(p)] = int(a[idx])
    return out


def _vox_map_in(c):
    """{physical position: value} of the non-zero voxels of the input, from the case description alone"""
    import numpy as np
    out = _VoxSet()
    if c['kind'].startswith('vol'):
        d = [np.array([_f(x) for x in v]) for v in c['d']]
        sp = [_f(x) for x in c['sp']]
        pos = np.array([_f(x) for x in c['pos']])
        for s, pl in enumerate(c['arr']):
            for r, row in enumerate(pl):
                for cc, v in enumerate(row):
                    if v:
                        out[_key(pos + s * sp[0] * d[0] + r * sp[1] * d[1] + cc * sp[2] * d[2])] = v
    else:
        rc = np.array([_f(x) for x in c['rowcos']])
        cc_ = np.array([_f(x) for x in c['colcos']])
        spr, spc = _f(c['spr']), _f(c['spc'])
        for p, pl in zip(c['positions'], c['arr']):
            p = np.array([_f(x) for x in p])
            for r, row in enumerate(pl):
                for cc, v in enumerate(row):
                    if v:
                        out[_key(p + r * spr * cc_ + cc * spc * rc)] = v
    if c['api'] == 'image' and c['typ'] != 'LABELMAP':
        out = _VoxSet({k: 1 for k in out})
    return out


def _aff_close(a, b):
    return all(_close(x, y) for ra, rb in zip(a, b) for x, y in zip(ra, rb))


def _right_handed(c):
    return _det([[F(x) for x in v] for v in c['d']]) > 0


def _check_sub(c, full, sub, n0):
    """sub-volume against the full volume returned by the implementation itself"""
    import numpy as np
    rng_s = _doc_range(c['ss'], c['se'], n0, c['as_idx'])
    rng_r = _doc_range(c['rs'], c['re'], c['R'], c['as_idx'])
    rng_c = _doc_range(c['cs'], c['ce'], c['C'], c['as_idx'])
    documented = 'out' not in (rng_s, rng_r, rng_c)
    nonempty = documented and all(b - a >= 1 for a, b in (rng_s, rng_r, rng_c))
    if isinstance(sub, Err):
        if nonempty:
            return f'documented non-empty sub-volume request refused: {sub}'
        return None
    shape, aff, arr = sub
    fa = np.array(full[2]).reshape(full[0])
    A = np.array(full[1], float)
    sa = np.array(arr).reshape(shape)
    if documented and not nonempty:
        return f'empty documented region accepted, shape {shape}'
    if documented:
        (s0, s1), (r0, r1), (c0, c1) = rng_s, rng_r, rng_c
        if shape != [s1 - s0, r1 - r0, c1 - c0]:
            return f'sub-volume shape {shape}, documented region {(rng_s, rng_r, rng_c)}'
        if not np.array_equal(sa, fa[s0:s1, r0:r1, c0:c1]):
            return 'sub-volume array is not the documented slice of the full volume'
        org = A[:, :3] @ np.array([s0, r0, c0], float) + A[:, 3]
        if not all(_close(x, y) for x, y in zip(np.array(aff)[:, 3], org)):
            return f'sub-volume origin {np.array(aff)[:, 3].tolist()} is not the position {org.tolist()} of its first voxel'
        if not _aff_close(np.array(aff)[:, :3].tolist(), A[:, :3].tolist()):
            return 'sub-volume axes differ from those of the full volume'
        return None
    # outside the documented ranges: whatever is returned must still be a correctly placed part of the full volume
    vm_full = _VoxSet()
    for idx in np.ndindex(*fa.shape):
        vm_full[_key(A[:, :3] @ np.array(idx, float) + A[:, 3])] = int(fa[idx])
    B = np.array(aff, float)
    for idx in np.ndindex(*sa.shape):
        kk = _key(B[:, :3] @ np.array(idx, float) + B[:, 3])
        if not vm_full.contains(kk, int(sa[idx])):
            return f'undocumented request accepted and voxel {idx} of the result is not a voxel of the full volume'
    return None


def _oracle_place(c, out):
    """a tiled segmentation placed by the caller: where the case description put every pixel of the mask
    (caller's origin + r * row spacing * column cosines + c * column spacing * row cosines) against what was
    recorded, what the image reports as its geometry, what get_volume returns and the per-frame positions"""
    import numpy as np
    src_org, usr_org, rc, cc, spr, spc, sbs = _place_eff(c)
    malformed = c['npos'] != 1 or c['pp'] != [1, 1]
    same_place = (usr_org == src_org and
                  (not c['o_given'] or (c['u_rowcos'], c['u_colcos']) == (c['rowcos'], c['colcos'])) and
                  (not c['m_given'] or (F(c['u_spr']), F(c['u_spc'])) == (F(c['spr']), F(c['spc']))))
    other_shape = (c['MR'], c['MC']) != (c['R'], c['C'])
    if isinstance(out, Err):
        if malformed:
            return None
        if same_place and other_shape:
            return None      # documented refusal: placed exactly on the source but of another size
        return f'valid placement refused: {out}'
    if malformed:
        return 'more than one plane position / a position that is not the top left corner was accepted'
    rec, geo, vol, frames, untouched = out
    if untouched is not True:
        return 'the constructor modified the source image or the position / orientation / measures objects passed in'
    org = np.array([float(x) for x in usr_org])
    rcv, ccv = np.array([float(x) for x in rc]), np.array([float(x) for x in cc])
    spr, spc = float(spr), float(spc)
    MR, MC = c['MR'], c['MC']

    def where(r, col):
        return org + r * spr * ccv + col * spc * rcv

    def near(p, q):
        return all(abs(a - b) <= 1e-6 * (1 + abs(b)) for a, b in zip(p, q))
    if not near(rec, org):
        return f'recorded total pixel matrix origin {rec}, the caller placed it at {org.tolist()}'
    if geo is None or geo[0] != [1, MR, MC]:
        return f'geometry {geo}'
    G = np.array(geo[1])
    for (r, col) in ((0, 0), (MR - 1, 0), (0, MC - 1), (MR - 1, MC - 1)):
        p = G[:, 3] + r * G[:, 1] + col * G[:, 2]
        if not near(p, where(r, col)):
            return (f'reported geometry puts pixel {(r, col)} at {p.tolist()}, the caller placed it at '
                    f'{where(r, col).tolist()}')
    # get_volume: documented region, every returned voxel where the input put it
    rr = _doc_range(c['rs'], c['re'], MR, c['as_idx'])
    cr = _doc_range(c['cs'], c['ce'], MC, c['as_idx'])
    if isinstance(vol, Err):
        return f'documented region refused: {vol}'
    shape, aff, arr = vol
    if shape != [1, rr[1] - rr[0], cr[1] - cr[0]]:
        return f'shape {shape} for region rows {rr} columns {cr}'
    A = np.array(aff)
    a = np.array(arr).reshape(shape)
    Min = np.array(c['M'])[rr[0]:rr[1], cr[0]:cr[1]]
    if not np.array_equal(a[0], Min):
        return 'returned array is not the requested region of the mask'
    for (i, j) in {(0, 0), (shape[1] - 1, shape[2] - 1)} | set(zip(*np.nonzero(Min))):
        p = A[:, 3] + i * A[:, 1] + j * A[:, 2]
        if not near(p, where(rr[0] + i, cr[0] + j)):
            return (f'get_volume puts pixel {(rr[0] + i, cr[0] + j)} of the mask at {p.tolist()}, the caller '
                    f'placed it at {where(rr[0] + i, cr[0] + j).tolist()}')
    # per-frame positions: on the input AND on the geometry the image reports for itself
    th, tw = c['tile'] or (c['th'], c['tw'])
    if frames is not None:
        seen = set()
        for r1, c1, x, y, z in frames:
            if (r1 - 1) % th or (c1 - 1) % tw or not (1 <= r1 <= MR and 1 <= c1 <= MC):
                return f'frame at matrix position {(r1, c1)} is not on the {th} x {tw} tile grid'
            seen.add((r1, c1))
            if not near((x, y, z), where(r1 - 1, c1 - 1)):
                return (f'frame at matrix position {(r1, c1)} recorded at {(x, y, z)}, the caller placed it at '
                        f'{where(r1 - 1, c1 - 1).tolist()}')
            p = G[:, 3] + (r1 - 1) * G[:, 1] + (c1 - 1) * G[:, 2]
            if not near((x, y, z), p):
                return (f'frame position {(x, y, z)} disagrees with the geometry the image reports '
                        f'({p.tolist()})')
        M = np.array(c['M'])
        for r0 in range(0, MR, th):
            for c0 in range(0, MC, tw):
                if M[r0:r0 + th, c0:c0 + tw].any() and (r0 + 1, c0 + 1) not in seen:
                    return f'non-empty tile at {(r0 + 1, c0 + 1)} has no frame'
    elif not (c['tiled_full'] and not c['omit']):
        return 'no per-frame positions in a TILED_SPARSE segmentation'
    return None


def _oracle_pm(c, out):
    """a parametric map: every frame holds the pixels of the input plane whose position it records, and the
    volume read back has every pixel value where the case description (plane position k + r * row spacing *
    column cosines + c * column spacing * row cosines) put it"""
    if c['kind'] == 'pm_err':
        return None if isinstance(out, Err) else \
            'a number of plane positions other than the number of planes of the pixel array was accepted'
    if isinstance(out, Err):
        return f'valid parametric map refused: {out}'
    if isinstance(out, str):
        return out
    geo, full, sub, frames = out
    for k, (fr, a) in enumerate(zip(frames, c['arr'])):
        if isinstance(fr, str):
            return f'input plane {k} at {[_f(x) for x in c["positions"][k]]}: {fr}'
        if fr[1] != a:
            return (f'the frame that records the position {fr[0]} of input plane {k} holds other pixels than that '
                    f'plane ({fr[1]} instead of {a})')
    if len(frames) != c['S']:
        return f'{frames[-1]} stored for {c["S"]} planes'
    ms = c['ms']
    lo, hi = min(ms), max(ms)
    gaps = sorted(ms) != list(range(lo, hi + 1))
    if isinstance(full, Err):
        if gaps and not c['allow_missing']:
            return None        # caller asked for a refusal of missing positions
        if gaps and c['eff_sbs'] is None:
            g = [b - a for a, b in zip(sorted(ms), sorted(ms)[1:])]
            if any(x % min(g) for x in g) and full.kind == 'RuntimeError':
                return None    # no recorded spacing and the stack is not regular at its smallest gap
        return f'get_volume refused a regular volume: {full}'
    vin, vout = _vox_map_in(c), _vox_map_out(full)
    if vin != vout:
        moved = ([x for x in vin.items() if not vout.contains(*x)] +
                 [x for x in vout.items() if not vin.contains(*x)])[:3]
        return f'pixel values moved or changed (first differences {moved})'
    if gaps and c['eff_sbs'] is None:
        return None            # the number of slices depends on the smallest gap; positions were checked
    n0 = hi - lo + 1
    if full[0] != [n0, c['R'], c['C']]:
        return f'volume shape {full[0]}, expected {[n0, c["R"], c["C"]]}'
    if isinstance(geo, Err) or geo is None:
        return f'get_volume_geometry gives {geo} although get_volume succeeds'
    if geo[0] != full[0] or not _aff_close(geo[1], full[1]):
        return 'get_volume().affine / shape differ from get_volume_geometry()'
    return _check_sub(c, full, sub, n0)


def _oracle_pm_tiled(c, out):
    """a tiled parametric map: the total pixel matrix it declares spans the listed tiles (at least their part
    inside the source's matrix, at most whole tiles), starts where the source's starts (the top left tile is
    always listed), holds every pixel of every listed tile at its place, and get_volume returns the documented
    region of it at the position of its first pixel"""
    import numpy as np
    if isinstance(out, Err):
        return f'a valid tiled parametric map could not be built: {out}'
    geo, vol, declared, tpm = out
    R, C, th, tw = c['R'], c['C'], c['th'], c['tw']
    nc = -(-C // tw)
    listed = c['forder'] if c['listed'] is None else c['listed']
    hi_r, hi_c = (max(t // nc for t in listed) + 1) * th, (max(t % nc for t in listed) + 1) * tw
    lo_r, lo_c = min(R, hi_r), min(C, hi_c)
    Rd, Cd = declared
    if not (lo_r <= Rd <= hi_r and lo_c <= Cd <= hi_c):
        return (f'declared total pixel matrix {Rd} x {Cd}; the listed tiles span {lo_r} x {lo_c} pixels of the '
                f'source ({hi_r} x {hi_c} with whole border tiles)')
    padded = np.array(_pm_tiled_padded(c))
    if isinstance(tpm, Err):
        return f'get_total_pixel_matrix() of the parametric map fails: {tpm}'
    if not np.array_equal(np.array(tpm), padded[:Rd, :Cd]):
        return 'get_total_pixel_matrix() does not hold the listed tiles at their places'
    # the rest is the judgement of a tiled image whose matrix is the declared one
    return oracle(dict(c, kind='tiled', R=Rd, C=Cd, M=padded[:Rd, :Cd].tolist()), [geo, vol])


def _seq_describe(c, i):
    """the history up to and including request i, in words"""
    def one(st):
        if st.get('op') == 'geom':
            w = 'geometry'
        else:
            a = {k: st[k] for k in _SEQ_KEYS if st.get(k) is not None}
            w = ('get_volume(' + ', '.join(f'{k}={v}' for k, v in a.items()) +
                 (', as_indices' if a and st['as_idx'] else '') + ')')
        extra = [x for x in (st.get('via'), st.get('tol'), None if st.get('am', True) else 'strict',
                             'per segment' if st.get('perseg') else None) if x]
        return w + (' [' + ', '.join(extra) + ']' if extra else '')
    return ' -> '.join(one(st) for st in c['steps'][:i + 1])


def _oracle_seq(c, out):
    """A history of requests to one stacked object.  The volume a twin object returns that was never asked
    anything is judged against the input by the standing oracle of the kind (every voxel where the case
    description put it, extent, handedness); every answer of the history must then be what the documentation
    says about THAT request alone: the geometry is the geometry of this volume, get_volume() is this volume,
    get_volume(region) the documented part of it placed at the position of its first voxel - whatever the
    object was asked before."""
    if not isinstance(out, list) or len(out) != len(c['steps']) + 1:
        return f'unexpected output {out}'
    ref, answers = out[0], out[1:]
    base = dict(c, kind='vol' if c['kind'] == 'vol_seq' else 'src', allow_missing=True, as_idx=False,
                **{k: None for k in _SEQ_KEYS})
    if c['kind'] == 'pm_seq':
        base['order'] = c['order_idx']
    msg = oracle(base, [ref if isinstance(ref, Err) else [ref[0], ref[1]], ref, ref])
    if msg is not None:
        return 'object that was never asked anything before: ' + msg
    if isinstance(ref, Err):
        return None
    order = base.get('order') or list(range(c['S']))
    ne = sorted(order[i] for i, pl in enumerate(c['arr']) if any(any(r) for r in pl))
    interior_gap = c['omit'] and ne and any(i not in ne for i in range(ne[0], ne[-1] + 1))
    n0 = ref[0][0]
    for i, (st, a) in enumerate(zip(c['steps'], answers)):
        where = f'request {i + 1} of the history {_seq_describe(c, i)}: '
        refused = a is None or isinstance(a, Err)
        if refused and not st['am'] and interior_gap:
            continue          # the caller asked for a refusal of missing positions
        if st['op'] == 'geom':
            if refused:
                return where + f'get_volume_geometry gives {a} although the image is a regular volume'
            if a[0] != ref[0] or not _aff_close(a[1], ref[1]):
                return where + (f'reported geometry (shape {a[0]}, origin {[r[3] for r in a[1]]}) is not that of '
                                f'the volume the image holds (shape {ref[0]}, origin {[r[3] for r in ref[1]]})')
            continue
        if all(st[k] is None for k in _SEQ_KEYS):
            if refused:
                return where + f'get_volume() refused: {a}'
            if a[0] != ref[0] or not _aff_close(a[1], ref[1]) or a[2] != ref[2]:
                what = 'shape' if a[0] != ref[0] else 'affine' if not _aff_close(a[1], ref[1]) else 'voxel values'
                return where + (f'get_volume() differs in {what} from the volume of the same image asked for the '
                                f'first time (shape {a[0]} / {ref[0]}, origin {[r[3] for r in a[1]]} / '
                                f'{[r[3] for r in ref[1]]})')
            continue
        msg = _check_sub(dict(c, **{k: st[k] for k in _SEQ_KEYS + ('as_idx',)}), ref, a, n0)
        if msg is not None:
            return where + msg
    return None


def _oracle_seq_tiled(c, out):
    if not isinstance(out, list) or len(out) != len(c['steps']):
        return f'unexpected output {out}'
    for i, (st, a) in enumerate(zip(c['steps'], out)):
        msg = oracle(dict(c, kind='tiled', **{k: st[k] for k in _SEQ_KEYS + ('as_idx',)}), a)
        if msg is not None:
            return f'request {i + 1} of the history {_seq_describe(c, i)}: ' + msg
    return None


def oracle(c, out):
    import numpy as np
    k = c['kind']
    if k in ('vol_seq', 'src_seq', 'src_img_seq', 'pm_seq'):
        return _oracle_seq(c, out)
    if k == 'tiled_seq':
        return _oracle_seq_tiled(c, out)
    if k in ('std_slice', 'std_slice_err'):
        r = _doc_range(c['ss'], c['se'], c['n'], c['ai'])
        if r != 'out' and r[1] - r[0] >= 1:
            if isinstance(out, Err):
                return f'documented request refused: {out}'
            return None if list(out) == list(r) else f'returned {out}, documented meaning {r}'
        if r != 'out':
            return None if isinstance(out, Err) else f'empty request accepted: {out}'
        return None
    if k in ('std_rc', 'std_rc_err'):
        rr = _doc_range(c['rs'], c['re'], c['rows'], c['ai'])
        cr = _doc_range(c['cs'], c['ce'], c['cols'], c['ai'])
        if not c['ai'] and 0 in (c['rs'], c['re'], c['cs'], c['ce']) and not isinstance(out, Err):
            return f'0 accepted as a one-based row / column number: {out}'
        if rr != 'out' and cr != 'out':
            if isinstance(out, Err):
                return f'documented request refused: {out}'
            o = 0 if c['oi'] else 1
            want = [rr[0] + o, rr[1] + o, cr[0] + o, cr[1] + o]
            return None if list(out) == want else f'returned {out}, documented meaning {want}'
        return None
    k = {'tiled_mem': 'tiled', 'tiled_place_mem': 'tiled_place', 'tiled_rd': 'tiled'}.get(k, k)
    if k == 'pm_tiled':
        return _oracle_pm_tiled(c, out)
    if k in ('tiled_place', 'tiled_place_err'):
        return _oracle_place(c, out)
    if k in ('pm', 'pm_err'):
        return _oracle_pm(c, out)
    if k.startswith('vol') or k.startswith('src'):
        if k in ('vol_rd', 'src_rd', 'src_img_rd'):
            if not isinstance(out, list) or len(out) != 4:
                return f'unexpected output {out}'
            again, first = out[3], out[1]
            if isinstance(again, Err) != isinstance(first, Err):
                return f'get_volume() gives {first}, assembled per segment / read a second time {again}'
            if not isinstance(again, Err) and not (again[0] == first[0] and _aff_close(again[1], first[1]) and
                                                   again[2] == first[2]):
                return ('the volume assembled per segment and recombined (segmentation) / read a second time '
                        '(image) differs from get_volume()')
            out = out[:3]
        if k in ('vol_hist', 'vol_mem', 'vol_mem_err', 'src_mem'):
            if not isinstance(out, list) or len(out) != 4:
                return f'unexpected output {out}'
            if k == 'vol_mem_err':
                return None if isinstance(out[1], Err) and out[3] is None else \
                    f'malformed Volume API call accepted ({c["mem"]["op"]}, {c["mem"]})'
            if isinstance(out[1], Err) and out[3] is None:
                if k == 'vol_hist':
                    return (f'a valid volume could not be built / encoded after the caller re-used its buffers '
                            f'({c["hist"]}): {out[1]}')
                return (f'a valid pixel array could not be built / encoded in this memory layout / dtype / transfer '
                        f'syntax ({c["mem"]}): {out[1]}')
            if out[3] is not True:
                return 'encoding the segmentation modified the caller\'s affine buffer / pixel array'
            out = out[:3]
        geo, full, sub = out
        if k == 'src_irregular':
            # no regular volume: must not invent one that moves voxels
            if isinstance(full, Err):
                return None
            return None if _vox_map_out(full) == _vox_map_in(c) else 'irregular stack: voxels moved'
        order = c.get('order') or list(range(c['S']))
        ne = sorted(order[i] for i, pl in enumerate(c['arr']) if any(any(r) for r in pl))
        interior_gap = c['omit'] and ne and any(i not in ne for i in range(ne[0], ne[-1] + 1))
        if isinstance(full, Err):
            if not c['allow_missing'] and interior_gap:
                return None        # caller asked for a refusal of missing positions
            if c.get('form') and c['omit'] and not c['src_has_sbs'] and len(ne) >= 2:
                # missing frames and NO recorded slice spacing: the spacing can only be taken from the
                # smallest gap between stored planes; when another gap is not a multiple of it the stack is
                # not regular at that spacing and a refusal (RuntimeError) is the documented outcome
                gaps = [b - a for a, b in zip(ne, ne[1:])]
                if any(g % min(gaps) for g in gaps) and full.kind == 'RuntimeError':
                    return None
            return f'get_volume refused a regular volume: {full}'
        vin, vout = _vox_map_in(c), _vox_map_out(full)
        if vin != vout:
            moved = ([x for x in vin.items() if not vout.contains(*x)] +
                     [x for x in vout.items() if not vin.contains(*x)])[:3]
            return f'voxels moved or changed (first differences {moved})'
        n0 = _stored_extent(c['arr'], c['omit'], c.get('order'))
        if c.get('form') and c['omit'] and not c['src_has_sbs']:
            # a plain image with missing frames and no recorded slice spacing: the spacing (hence the number of
            # slices) is whatever the smallest gap is; only the voxel positions (checked above) are determined
            return None if (sub == full or all(c.get(x) is None for x in ('ss', 'se', 'rs', 're', 'cs', 'ce'))) \
                else 'unexpected sub-volume request'
        if full[0] != [n0, c['R'], c['C']]:
            return f'volume shape {full[0]}, expected {[n0, c["R"], c["C"]]}'
        if isinstance(geo, Err) or geo is None:
            return f'get_volume_geometry gives {geo} although get_volume succeeds'
        if geo[0] != full[0] or not _aff_close(geo[1], full[1]):
            return 'get_volume().affine / shape differ from get_volume_geometry()'
        if k.startswith('vol') and n0 == c['S'] and c['S'] > 1:
            d = [np.array([_f(x) for x in v]) for v in c['d']]
            sp = [_f(x) for x in c['sp']]
            pos = np.array([_f(x) for x in c['pos']])
            A = np.column_stack([d[0] * sp[0], d[1] * sp[1], d[2] * sp[2], pos])
            arr_in = np.array(c['arr'])
            if c['api'] == 'image' and c['typ'] != 'LABELMAP':
                arr_in = (arr_in > 0).astype(int)
            if _right_handed(c):
                if not _aff_close(full[1], A.tolist()) or not np.array_equal(np.array(full[2]), arr_in):
                    return 'right-handed input: returned volume is not the same array and affine'
            else:
                Am = A.copy()
                Am[:, 3] = A[:, 3] + (c['S'] - 1) * A[:, 0]
                Am[:, 0] = -A[:, 0]
                if not _aff_close(full[1], Am.tolist()) or not np.array_equal(np.array(full[2]), arr_in[::-1]):
                    return 'left-handed input: returned volume is not the mirror image along the stacking axis'
        return _check_sub(c, full, sub, n0)
    if k in ('tiled', 'tiled_err'):
        if isinstance(out, Err):
            return f'a valid tiled parametric map could not be built: {out}'
        geo, vol = out
        rc = np.array([_f(x) for x in c['rowcos']])
        cc = np.array([_f(x) for x in c['colcos']])
        spr, spc = _f(c['spr']), _f(c['spc'])
        org = np.array([_f(c['origin'][0]), _f(c['origin'][1]), _f(c.get('srcz') or 0)])
        if geo is None or geo[0] != [1, c['R'], c['C']]:
            return f'geometry {geo}'
        G = np.array(geo[1])
        if not (all(_close(x, y) for x, y in zip(G[:, 3], org)) and
                all(_close(x, y) for x, y in zip(G[:, 1], spr * cc)) and
                all(_close(x, y) for x, y in zip(G[:, 2], spc * rc))):
            return 'tiled geometry does not describe the total pixel matrix of the source'
        rr = _doc_range(c['rs'], c['re'], c['R'], c['as_idx'])
        cr = _doc_range(c['cs'], c['ce'], c['C'], c['as_idx'])
        sr = _doc_range(c['ss'], c['se'], 1, c['as_idx'])
        documented = 'out' not in (rr, cr, sr) and all(b - a >= 1 for a, b in (rr, cr, sr))
        if isinstance(vol, Err):
            return f'documented region refused: {vol}' if documented else None
        if not documented:
            return f'undocumented / empty request accepted: shape {vol[0]}'
        shape, aff, arr = vol
        if shape != [1, rr[1] - rr[0], cr[1] - cr[0]]:
            return f'shape {shape} for region rows {rr} columns {cr}'
        want = org + rr[0] * spr * cc + cr[0] * spc * rc
        A = np.array(aff)
        if not all(_close(x, y) for x, y in zip(A[:, 3], want)):
            return f'origin {A[:, 3].tolist()} is not the position {want.tolist()} of the first voxel of the region'
        if not (all(_close(x, y) for x, y in zip(A[:, 1], spr * cc)) and
                all(_close(x, y) for x, y in zip(A[:, 2], spc * rc))):
            return 'row/column axes of the sub-volume differ from the image'
        if arr is not None:
            M = np.array(c['M'])[rr[0]:rr[1], cr[0]:cr[1]]
            if not np.array_equal(np.array(arr)[0], M):
                return 'tiled sub-volume array is not the requested region of the mask'
        return None
    if k == 'pyramid':
        if isinstance(out, Err):
            return f'valid pyramid request refused: {out}'
        fs = [F(x) for x in c['fs']]
        if len(out) != len(fs) + 1:
            return f'{len(out)} levels for {len(fs)} factors'
        R, C, spr, spc = c['R'], c['C'], _f(c['spr']), _f(c['spc'])
        for lvl, (rl, cl, a, b, aff) in enumerate(out):
            if lvl == 0 and (rl, cl) != (R, C):
                return 'level 0 is not the input mask'
            if lvl > 0 and (rl, cl) != (int(F(R) / fs[lvl - 1]), int(F(C) / fs[lvl - 1])):
                return f'level {lvl} size {(rl, cl)}'
            if not _close(rl * a, R * spr, 1e-9) or not _close(cl * b, C * spc, 1e-9):
                return (f'level {lvl} covers {rl * a} x {cl * b} mm, level 0 covers {R * spr} x {C * spc} mm')
            A = np.array(aff)
            if not (_close(np.linalg.norm(A[:, 1]), a) and _close(np.linalg.norm(A[:, 2]), b)):
                return f'level {lvl}: geometry spacing differs from recorded PixelSpacing'
            org = [_f(c['origin'][0]), _f(c['origin'][1]), _f(c.get('srcz') or 0)]
            if not all(_close(x, y) for x, y in zip(A[:, 3], org)):
                return f'level {lvl}: origin {A[:, 3].tolist()} is not the origin {org} of the source image'
        return None
    if k == 'pyramid_err':
        return None if isinstance(out, Err) else 'malformed down-sampling factors accepted'
    if k == 'pyr_multi':
        if isinstance(out, Err):
            return None if c['quirk'] else f'valid pyramid request refused: {out}'
        n = max(len(c['srcs']), len(c['pix']))
        if len(out) != n:
            return f'{len(out)} levels, expected {n}'
        s0 = c['srcs'][0]
        for lvl, (rl, cl, a, b, aff) in enumerate(out):
            A = np.array(aff)
            if len(c['srcs']) > 1:
                sv = c['srcs'][lvl]
                if (rl, cl) != (sv['R'], sv['C']):
                    return f'level {lvl} has size {(rl, cl)}, its source image {(sv["R"], sv["C"])}'
                if not (_close(a, _f(sv['spr']), 1e-9) and _close(b, _f(sv['spc']), 1e-9)):
                    return f'level {lvl} records pixel spacing {(a, b)}, its source image {(sv["spr"], sv["spc"])}'
            else:
                sv = s0
                if [rl, cl] != list(c['pix'][lvl]):
                    return f'level {lvl} has size {(rl, cl)}, its mask {c["pix"][lvl]}'
                if not (_close(rl * a, s0['R'] * _f(s0['spr']), 1e-9) and _close(cl * b, s0['C'] * _f(s0['spc']), 1e-9)):
                    return (f'level {lvl} covers {rl * a} x {cl * b} mm, the source image covers '
                            f'{s0["R"] * _f(s0["spr"])} x {s0["C"] * _f(s0["spc"])} mm')
            org = [_f(sv['origin'][0]), _f(sv['origin'][1]), _f(c.get('srcz') or 0)]
            if not all(_close(x, y) for x, y in zip(A[:, 3], org)):
                return f'level {lvl}: origin {A[:, 3].tolist()} is not the origin {org} of its source image'
            if not (_close(np.linalg.norm(A[:, 1]), a) and _close(np.linalg.norm(A[:, 2]), b)):
                return f'level {lvl}: geometry spacing differs from recorded PixelSpacing'
        return None
    if k == 'pyr_multi_err':
        return None if isinstance(out, Err) else f'malformed pyramid request ({c["what"]}) accepted'
    return f'unknown kind {k}'


def nontrivial(c, out):
    k = c['kind']
    if k.startswith('std'):
        return True
    if k.endswith('_seq'):
        return len(c['steps']) > 1
    if k.startswith('vol') or k.startswith('src'):
        return c['S'] > 1 and any(any(any(r) for r in pl) for pl in c['arr'])
    if k.startswith('tiled_place'):
        return c['MR'] * c['MC'] > 1
    if k.startswith('tiled'):
        return c['R'] * c['C'] > 1
    return True


def shrink(c):
    k = c['kind']
    if k.endswith('_seq'):
        steps = c['steps']
        if len(steps) > 1:
            for i in range(len(steps) - 1, -1, -1):
                rest = steps[:i] + steps[i + 1:]
                yield dict(c, steps=[dict(rest[0], via=None)] + rest[1:])
        for i, st in enumerate(steps):
            for key, plain in (('via', None), ('tol', None), ('perseg', False), ('am', True)):
                if st.get(key, plain) != plain:
                    yield dict(c, steps=steps[:i] + [dict(st, **{key: plain})] + steps[i + 1:])
            for key in _SEQ_KEYS[2:]:
                if st.get(key) is not None:
                    yield dict(c, steps=steps[:i] + [dict(st, **{key: None})] + steps[i + 1:])
        if c.get('open') is not None:
            if c['open']['lazy']:
                yield dict(c, open=dict(c['open'], lazy=False))
            else:
                yield dict(c, open=None)
        if c.get('chan4d'):
            yield dict(c, chan4d=False)
        if k in ('vol_seq', 'src_seq', 'src_img_seq'):
            for s_, pl in enumerate(c['arr']):
                for r, row in enumerate(pl):
                    for cc, v in enumerate(row):
                        if v > 1:
                            arr = [[list(rw) for rw in p] for p in c['arr']]
                            arr[s_][r][cc] = 1
                            yield dict(c, arr=arr)
        return
    if c.get('rd'):
        if c['rd']['fp'] != 'bytes':
            yield dict(c, rd=dict(c['rd'], fp='bytes'))
        if c['rd']['lazy']:
            yield dict(c, rd=dict(c['rd'], lazy=False))
        if k in ('pm', 'pm_tiled'):
            yield dict(c, rd=None)
        if c.get('ts') not in (None, 'explicit'):
            yield dict(c, ts='explicit')
    if k == 'pm':
        for key in ('ss', 'se', 'rs', 're', 'cs', 'ce'):
            if c.get(key) is not None:
                yield dict(c, **{key: None})
        if c['entry'] != 'positions' and c['S'] > 2 and all(c.get(x) is None for x in ('ss', 'se')):
            for drop in (c['S'] - 1, 0):
                cut = lambda l: l[:drop] + l[drop + 1:]      # noqa: E731
                yield dict(c, S=c['S'] - 1, arr=cut(c['arr']), ms=cut(c['ms']), positions=cut(c['positions']),
                           src=dict(c['src'], positions=cut(c['src']['positions'])))
        if c['u_pm'] is not None and c['entry'] != 'positions':
            yield dict(c, u_pm=None, eff_sbs=c['src']['sbs'])
        return
    if c.get('mem') and not c['mem'].get('bad'):
        m = c['mem']
        if m.get('op') is not None:
            yield dict(c, mem=dict(m, op=None, p=[0, 1, 2], flips=[], crop=None, ab=None))
        if m.get('copy'):
            yield dict(c, mem=dict(m, copy=False))
        if m['ts'] != 'explicit':
            yield dict(c, mem=dict(m, ts='explicit'))
        if m['dt'] != 'u1':
            yield dict(c, mem=dict(m, dt='u1'))
        lay = m['lay']
        n = len(lay['q'])
        for key, plain in (('q', list(range(n))), ('flips', [False] * n), ('steps', [1] * n),
                           ('pads', [[0, 0] for _ in range(n)]), ('ro', False)):
            if lay[key] != plain:
                yield dict(c, mem=dict(m, lay=dict(lay, **{key: plain})))
        if lay['q'] != list(range(n)):
            yield dict(c, mem=dict(m, lay=dict(lay, q=[0, 2, 1] + list(range(3, n)))))
    if k.startswith('vol') or k.startswith('src'):
        for key in ('ss', 'se', 'rs', 're', 'cs', 'ce'):
            if c.get(key) is not None:
                yield dict(c, **{key: None})
        if k == 'vol_hist':
            h = c['hist']
            if h['prop'] is not None:
                yield dict(c, hist=dict(h, prop=None))
            if h['mutate'] not in ('none', 'retarget'):
                yield dict(c, hist=dict(h, mutate='retarget'))
            if h['mutate'] != 'none':
                yield dict(c, hist=dict(h, mutate='none'))
            if h['entry'] != 'Volume':
                yield dict(c, hist=dict(h, entry='Volume'))
        if c.get('file_rt'):
            yield dict(c, file_rt=False)
        if c.get('chan4d'):
            yield dict(c, chan4d=False)
        if c['S'] > 1 and all(c.get(x) is None for x in ('ss', 'se')):
            for drop in (c['S'] - 1, 0):
                d = dict(c, S=c['S'] - 1, arr=c['arr'][:drop] + c['arr'][drop + 1:])
                if k.startswith('src'):
                    d['positions'] = c['positions'][:drop] + c['positions'][drop + 1:]
                if d['S'] >= (2 if k.startswith('src') else 1):
                    yield d
        for s, pl in enumerate(c['arr']):
            for r, row in enumerate(pl):
                for cc, v in enumerate(row):
                    if v > 1:
                        arr = [[list(rw) for rw in p] for p in c['arr']]
                        arr[s][r][cc] = 1
                        yield dict(c, arr=arr)
    elif k.startswith('tiled') or k == 'pm_tiled':
        for key in ('ss', 'se', 'rs', 're', 'cs', 'ce'):
            if c.get(key) is not None:
                yield dict(c, **{key: None})
        if k == 'tiled_place':
            if c.get('file_rt'):
                yield dict(c, file_rt=False)
            if c.get('flip0'):
                yield dict(c, flip0=False)
            if c.get('api') == 'image':
                yield dict(c, api='seg')
    elif k.startswith('pyr_multi'):
        if c['rank'] > 2:
            yield dict(c, rank=2)
        if c.get('srcz') is not None:
            yield dict(c, srcz=None)
    elif k.startswith('pyramid'):
        if len(c['fs']) > 1:
            for i in range(len(c['fs'])):
                yield dict(c, fs=c['fs'][:i] + c['fs'][i + 1:])
        if c['rank'] > 2:
            yield dict(c, rank=2, nseg=1)


def extra_obligations(work):
    # T-int: the integer helpers this model mirrors, re-translated from the current source
    import translate_int
    return translate_int.obligations(work, translate_int.FOR['C03'])


if __name__ == '__main__':
    sys.exit(common.main(sys.modules[__name__]))
