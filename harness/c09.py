"""C09 - geometry matching and comparison mean what they say.

Implementation functions driven (real code from $VERIF_REPO/src/highdicom/volume.py):
  Volume/VolumeGeometry.geometry_equal, .match_geometry (incl. the permute/pad/getitem it performs),
  VolumeToVolumeTransformer(...)(indices) with round_output/check_bounds,
  Volume/VolumeGeometry.map_reference_to_indices(round_output, check_bounds),
  Volume.match_geometry(mode=CONSTANT/EDGE/MINIMUM/MAXIMUM/MEAN/MEDIAN, constant_value=...) (voxel values compared),
  result.geometry_equal(target, tol=T) after a successful match, VolumeToVolumeTransformer.affine,
  map_indices_to_reference, and transformer vs. map_indices_to_reference -> map_reference_to_indices on the same points;
  the transformer called with index arrays of every integer / floating dtype (int8..int64, uint8..uint64, float32,
  float64): returned values, dtype of the returned array, bounds decision, side by side with the physical route;
  float16 / float32 index arrays whose MAPPED indices are large relative to the precision of the input type
  (stratum v2v_lowprec: magnifying targets, long axes, offsets within the last bits of .5).
Model: coq/theories/C09_Model.v; theorems: C09_Props.v.

Geometries are generated as exact rationals (orthonormal rational direction
matrices, rational spacings/positions); the implementation receives the
correctly rounded float64 affine, the model the exact rationals.
"""
import itertools
import json
import os
import sys
from fractions import Fraction as F

sys.path.insert(0, os.path.dirname(os.path.abspath(__file__)))
import common
from common import Err, catch, zlit, qlit

PROPERTY = 'C09'
PROPS_FILE = 'C09_Props.v'
COQ_IMPORTS = ['C09_Model']
TOL = F(1, 10**8)
ORACLE_PREMISES = [
    'float64 arithmetic of numpy (affine products, np.linalg.inv, sqrt column norms, dot products) stays within '
    '1e-8 relative of the exact rational model; tolerance decisions are never drawn within 1e-9 of their threshold '
    'unless all operands are dyadic (then float arithmetic is exact)',
    'numpy.pad(mode=constant) followed by basic slicing places source voxel c at padded index c + pad_before '
    '(modelled as the per-axis index map; validated voxel-by-voxel by the correspondence run)',
    'unit direction vectors of generated geometries are exactly orthonormal rationals; a geometry whose columns '
    'are not orthogonal is refused by the Volume constructor (not modelled)',
    'un-rounded float16 / float32 calls: the float64 value of an image and the exact rational round to the same '
    'float of the input type (no double rounding: images are drawn >= 1e-8 max(1,|t|) off every midpoint of the '
    'format, otherwise the case is judged by the numpy oracle alone); float16 overflow / subnormals are not drawn',
]
MODELLED = ('volume.py: _VolumeBase.geometry_equal, match_geometry (axis alignment, stride rounding, per-axis '
            'start/end/pad/crop arithmetic, requires_crop flag, slice checks of _prepare_getitem_index, '
            'slice.indices, resulting affine and voxel placement), map_reference_to_indices (bounds check before '
            'rounding, RuntimeError), VolumeToVolumeTransformer (inv(B).A by adjugate, rounding, bounds check '
            'after rounding, ValueError), VolumeToVolumeTransformer.affine, map_indices_to_reference, '
            'the pad options of match_geometry as implemented by Volume.pad (constant_value; EDGE = nearest '
            'source voxel per axis; MINIMUM/MAXIMUM/MEAN/MEDIAN of the label array); the dtype handling of '
            'VolumeToVolumeTransformer.__call__ (input_is_int = signed only, rounded output cast to the signed input '
            'type / int64 by two\'s complement, unrounded output cast back to a floating input type only, bounds check '
            'after the cast, dtype of the returned array); astype(float16 / float32) of the un-rounded result as '
            'fl_round (nearest p-bit float, ties to even; exponent range not modelled) in run_v2v_fp - the rounded '
            'branch never sees the precision of the input')
STRATA = ['geq', 'geq_for', 'geq_tol', 'match_direct', 'match_chain', 'match_outside', 'match_geomsrc',
          'match_perturbed', 'match_refuse_meta', 'v2v', 'v2v_boundary', 'v2v_outside', 'r2i', 'r2i_boundary',
          'bad_points', 'match_mode', 'v2v_affine', 'i2r', 'via_phys',
          'match_tiny_spacing', 'v2v_dtype', 'v2v_unsigned_neg', 'v2v_lowprec']
RULE = ('source geometries: rational orthonormal directions (48 signed permutations, Pythagorean and quaternion '
        'rotations, optionally mirrored), rational spacings, dyadic/rational positions, shapes 1..5 (..7 thorough), '
        'both coordinate systems, FoR UID present/absent; targets: (a) exact (sigma,k,a,m) per-axis '
        'prefix/suffix/interior/strided/reversed/padded/wholly-outside, (b) composed by the real API chain '
        'permute/flip/getitem/pad, (c) perturbed by sub-voxel shift, non-integer scale, rational rotation (sin = 1 .. 5e-5 '
        'must refuse, 1e-6 must be accepted), target spacing 1e-11 .. 0.49 x source spacing (stride rounds to 0, must refuse), other FoR '
        'UID / coordinate system; geometry_equal pairs with every clause violated once and deltas at 0.5/0.99/1.01/2 x '
        'the allclose threshold; point sets inside, exactly on the +-0.5 faces (dyadic geometries) and outside, '
        'int and float inputs, round_output x check_bounds; malformed point arrays; index arrays of dtype int8/16/32/64, '
        'uint8/16/32/64, float32/64 given to the transformer (related and unrelated geometries, images inside / negative '
        '/ beyond the target, target axes longer than 256 voxels, int8 images exactly at 127 / -128; narrow signed types '
        'only with images that fit), round_output x check_bounds for every dtype; stratum v2v_unsigned_neg = unsigned '
        'input with >= 1 negative image (rounded: the int64 result must keep it; unrounded: fixed defect D112); stratum '
        'v2v_lowprec = float16 / float32 index arrays (exactly representable points) into targets derived with '
        'fractional strides 1/32 .. 2 source voxels and fractional starts, >= 1 axis with mapped indices 2^13 .. 2^18 '
        '(float32) resp. 8 .. 2045 (float16), fractional parts .5 +- 2^-11 .. .2, next to a voxel centre, or arbitrary; '
        'first image in the last voxel of its axis / inside / just beyond / before the first voxel; round_output (70 %) '
        'x check_bounds; never within 2^-12 of a rounding tie or bounds threshold. non-trivial = source with > 1 '
        'voxel and (for point cases) >= 1 point; distinct by case hash')
NOT_EXECUTED = ['per_channel=True statistics padding of multi-channel volumes in match_geometry',
                'signed int8/int16/int32 index arrays whose rounded image does not fit the input type (documented '
                '"matched to the input datatype": wraps; outside the fits-hypothesis of C09_v2v_dtype_rounded_exact)',
                'un-rounded float16 calls with images >= 2048 / float32 with images >= 2^23 (the returned float type '
                'cannot hold every voxel index there: "matched to the input datatype" loses whole voxels by design), '
                'float16 overflow (> 65504) and subnormals']

FOR_UIDS = {None: None, 1: '1.2.826.0.1.3680043.8.498.1', 2: '1.2.826.0.1.3680043.8.498.2'}
CS = ['PATIENT', 'SLIDE']
_E = [(1, 0, 0), (0, 1, 0), (0, 0, 1)]
PYTH = [(3, 4, 5), (5, 12, 13), (8, 15, 17), (7, 24, 25), (20, 21, 29)]


# ----------------------------------------------------------------------------
# exact rational geometry
# ----------------------------------------------------------------------------
def fr(x):
    return F(x)


def _signed_perm(rng):
    p = [0, 1, 2]
    rng.shuffle(p)
    return [[F(rng.choice([1, -1]) * v) for v in _E[p[j]]] for j in range(3)]


def _matmul_cols(Acols, Bcols):
    """columns of A*B given columns of A and of B"""
    out = []
    for b in Bcols:
        out.append([sum(Acols[k][i] * b[k] for k in range(3)) for i in range(3)])
    return out


def _pyth_rot(rng):
    a, b, c = rng.choice(PYTH)
    co, si = F(a, c), F(b, c)
    if rng.random() < 0.5:
        co, si = si, co
    ax = rng.randrange(3)
    i, j = [k for k in range(3) if k != ax]
    cols = [[F(v) for v in _E[k]] for k in range(3)]
    cols[i] = [F(0)] * 3
    cols[j] = [F(0)] * 3
    cols[i][i], cols[i][j] = co, si
    cols[j][i], cols[j][j] = -si, co
    return cols


def _quat_rot(rng):
    while True:
        a, b, c, d = (rng.randint(-3, 3) for _ in range(4))
        n = a * a + b * b + c * c + d * d
        if n:
            break
    rows = [[a * a + b * b - c * c - d * d, 2 * (b * c - a * d), 2 * (b * d + a * c)],
            [2 * (b * c + a * d), a * a - b * b + c * c - d * d, 2 * (c * d - a * b)],
            [2 * (b * d - a * c), 2 * (c * d + a * b), a * a - b * b - c * c + d * d]]
    return [[F(rows[i][j], n) for i in range(3)] for j in range(3)]


def rand_dirs(rng, dyadic=False):
    r = rng.random()
    if dyadic or r < 0.45:
        return _signed_perm(rng)
    if r < 0.75:
        return _matmul_cols(_pyth_rot(rng), _signed_perm(rng))
    return _matmul_cols(_quat_rot(rng), _signed_perm(rng))


def rand_geom(rng, hi=5, dyadic=False):
    shape = [rng.choice([1, 2, 3, hi, rng.randint(1, hi)]) for _ in range(3)]
    if dyadic:
        S = [F(rng.choice([1, 2, 4, 8]), rng.choice([1, 2, 4])) for _ in range(3)]
        P = [F(rng.randint(-64, 64), rng.choice([1, 2, 4])) for _ in range(3)]
    else:
        S = [F(rng.randint(1, 40), rng.choice([1, 2, 3, 4, 5, 8, 10])) for _ in range(3)]
        P = [F(rng.randint(-2000, 2000), rng.choice([1, 2, 4, 5, 10])) for _ in range(3)]
    return mk_geom(shape, rng.choice([0, 0, 1]), rng.choice([None, 1, 1, 2]), rand_dirs(rng, dyadic), S, P)


def mk_geom(shape, cs, foru, U, S, P):
    return {'shape': [int(x) for x in shape], 'cs': cs, 'for': foru,
            'U': [[str(F(x)) for x in u] for u in U], 'S': [str(F(s)) for s in S], 'P': [str(F(p)) for p in P]}


def gU(g):
    return [[F(x) for x in u] for u in g['U']]


def gS(g):
    return [F(x) for x in g['S']]


def gP(g):
    return [F(x) for x in g['P']]


def g_cols(g):
    return [[s * x for x in u] for u, s in zip(gU(g), gS(g))]


def derive_target(g, sigma, k, a, m, **over):
    """target axis d runs along source axis sigma[d] with stride k[d] (nonzero), first voxel at source
    coordinate a[d], m[d] voxels"""
    U, S, P = gU(g), gS(g), gP(g)
    Ut = [[(1 if k[d] > 0 else -1) * x for x in U[sigma[d]]] for d in range(3)]
    St = [abs(k[d]) * S[sigma[d]] for d in range(3)]
    Pt = list(P)
    for d in range(3):
        for i in range(3):
            Pt[i] += a[d] * S[sigma[d]] * U[sigma[d]][i]
    h = mk_geom(m, g['cs'], g['for'], Ut, St, Pt)
    h.update(over)
    return h


def g_affine(g):
    import numpy as np
    A = np.eye(4)
    cols = g_cols(g)
    for j in range(3):
        for i in range(3):
            A[i, j] = float(cols[j][i])
    for i in range(3):
        A[i, 3] = float(gP(g)[i])
    return A


def q(x):
    return qlit(F(x)) + '%Q'


def _v3(xs):
    return '(V3 ' + ' '.join(q(x) for x in xs) + ')'


def g_coq(g):
    s = g['shape']
    foru = 'None' if g['for'] is None else f"(Some {zlit(g['for'])})"
    return (f"(Geom (T3 {zlit(s[0])} {zlit(s[1])} {zlit(s[2])}) {zlit(g['cs'])} {foru} "
            f"(T3 {_v3(g['U'][0])} {_v3(g['U'][1])} {_v3(g['U'][2])}) "
            f"(T3 {q(g['S'][0])} {q(g['S'][1])} {q(g['S'][2])}) {_v3(g['P'])})")


def build(g, kind='geometry', channels=0, dtype='float64'):
    """hd.Volume (labels 1..N, channel c adds 1000*c) or hd.VolumeGeometry for a geometry dict"""
    import numpy as np
    import highdicom as hd
    A = g_affine(g)
    uid = FOR_UIDS[g['for']]
    if kind == 'geometry':
        r = hd.VolumeGeometry(A, tuple(g['shape']), CS[g['cs']], frame_of_reference_uid=uid)
        A[:] = 12345.0     # the caller's float64 buffer is re-used afterwards: the geometry must own a copy
        return r
    n = g['shape'][0] * g['shape'][1] * g['shape'][2]
    arr = np.arange(1, n + 1, dtype=np.int64).reshape(g['shape'])
    ch = None
    if channels:
        arr = np.stack([arr + 1000 * c for c in range(channels)], axis=-1)
        ch = {'OpticalPathIdentifier': [str(c) for c in range(channels)]}
    r = hd.Volume(arr.astype(dtype), A, CS[g['cs']], frame_of_reference_uid=uid, channels=ch)
    A[:] = 12345.0         # see above
    return r


# ----------------------------------------------------------------------------
# generators
# ----------------------------------------------------------------------------
def _axis_target(rng, n, mode=None, max_m=6):
    """(k, a, m) for one axis of a source of length n"""
    mode = mode or rng.choice(['id', 'prefix', 'suffix', 'interior', 'strided', 'reversed', 'rev_strided',
                               'pad_before', 'pad_after', 'pad_both', 'partly', 'outside_before',
                               'outside_after', 'any'])
    if mode == 'id':
        return 1, 0, n
    if mode == 'prefix':
        return 1, 0, rng.randint(1, n)
    if mode == 'suffix':
        a = rng.randint(0, n - 1)
        return 1, a, n - a
    if mode == 'interior':
        a = rng.randint(0, n - 1)
        return 1, a, rng.randint(1, n - a)
    if mode == 'strided':
        k = rng.choice([2, 2, 3])
        a = rng.randint(0, n - 1)
        return k, a, rng.randint(1, (n - 1 - a) // k + 1)
    if mode == 'reversed':
        return -1, n - 1, n
    if mode == 'rev_strided':
        k = -rng.choice([1, 2, 3])
        a = rng.randint(0, n - 1)
        return k, a, rng.randint(1, a // (-k) + 1)
    if mode == 'pad_before':
        return 1, -rng.randint(1, 3), n + rng.randint(1, 3)
    if mode == 'pad_after':
        return 1, 0, n + rng.randint(1, 3)
    if mode == 'pad_both':
        pb = rng.randint(1, 2)
        return 1, -pb, n + pb + rng.randint(1, 2)
    if mode == 'partly':
        k = rng.choice([1, -1, 2, -2])
        return k, rng.randint(-3, n + 2), rng.randint(1, max_m)
    if mode == 'outside_before':
        m = rng.randint(1, 3)
        k = rng.choice([1, 2, -1])
        if k > 0:
            return k, -k * m - rng.randint(0, 2), m          # last voxel at a + k(m-1) < 0
        return k, -1 - rng.randint(0, 2), m
    if mode == 'outside_after':
        m = rng.randint(1, 3)
        k = rng.choice([1, 2, -1, -2])
        if k > 0:
            return k, n + rng.randint(0, 2), m
        return k, n + rng.randint(0, 2) + (-k) * (m - 1), m
    k = rng.choice([1, 1, -1, 2, -2, 3, -3])
    return k, rng.randint(-4, n + 3), rng.randint(1, max_m)


def _src_opts(rng):
    return {'src_kind': 'volume', 'tgt_kind': rng.choice(['geometry', 'volume']),
            'channels': rng.choice([0, 0, 0, 2]), 'dtype': rng.choice(['float64', 'int16', 'float32'])}


def _match_direct(rng, hi, modes=None, kind='match_direct'):
    g = rand_geom(rng, hi)
    sigma = [0, 1, 2]
    if rng.random() < 0.6:
        rng.shuffle(sigma)
    k, a, m = [], [], []
    for d in range(3):
        kk, aa, mm = _axis_target(rng, g['shape'][sigma[d]], rng.choice(modes) if modes else None)
        k.append(kk)
        a.append(aa)
        m.append(mm)
    h = derive_target(g, sigma, k, a, m)
    if rng.random() < 0.3:
        h['for'] = rng.choice([None, g['for']])
    c = {'kind': kind, 'g': g, 'h': h, 'tol': None, 'expect': 'ok',
         'spec': {'sigma': sigma, 'k': k, 'a': a, 'm': m}}
    c.update(_src_opts(rng))
    return c


def _chain(rng, g):
    """random chain of real-API ops; tracks the exact (sigma,k,a,m)"""
    n = g['shape']
    sigma, k, a, m = [0, 1, 2], [1, 1, 1], [0, 0, 0], list(n)
    ops = []
    for _ in range(rng.randint(1, 5)):
        op = rng.choice(['permute', 'flip', 'crop', 'crop', 'pad'])
        if op == 'permute':
            p = [0, 1, 2]
            rng.shuffle(p)
            sigma, k, a, m = ([x[p[d]] for d in range(3)] for x in (sigma, k, a, m))
            ops.append(['permute', p])
        elif op == 'flip':
            axes = rng.sample(range(3), rng.randint(1, 3))
            for d in axes:
                a[d] = a[d] + k[d] * (m[d] - 1)
                k[d] = -k[d]
            ops.append(['flip', axes])
        elif op == 'crop':
            sl = []
            for d in range(3):
                md = m[d]
                mode = rng.choice(['full', 'prefix', 'suffix', 'interior', 'strided', 'neg'])
                if mode == 'full' or (abs(k[d]) >= 3 and mode in ('strided', 'neg')):
                    s = (None, None, None)
                elif mode == 'prefix':
                    s = (None, rng.randint(1, md), None)
                elif mode == 'suffix':
                    s = (rng.randint(0, md - 1), None, None)
                elif mode == 'interior':
                    st = rng.randint(0, md - 1)
                    s = (st, rng.randint(st + 1, md), None)
                elif mode == 'strided':
                    s = (rng.randint(0, md - 1), None, 2)
                else:
                    s = (rng.choice([None, md - 1, rng.randint(0, md - 1)]), None, rng.choice([-1, -1, -2]))
                first, last, step = slice(*s).indices(md)
                size = len(range(first, last, step))
                a[d] = a[d] + k[d] * first
                k[d] = k[d] * step
                m[d] = size
                sl.append(list(s))
            ops.append(['crop', sl])
        else:
            pw = [[rng.randint(0, 2), rng.randint(0, 2)] for _ in range(3)]
            for d in range(3):
                if m[d] + pw[d][0] + pw[d][1] > 8:
                    pw[d] = [0, 0]
                a[d] = a[d] - k[d] * pw[d][0]
                m[d] = m[d] + pw[d][0] + pw[d][1]
            ops.append(['pad', pw])
    return ops, {'sigma': sigma, 'k': k, 'a': a, 'm': m}


def _match_chain(rng, hi):
    g = rand_geom(rng, hi)
    ops, spec = _chain(rng, g)
    h = derive_target(g, spec['sigma'], spec['k'], spec['a'], spec['m'])
    c = {'kind': 'match_chain', 'g': g, 'h': h, 'ops': ops, 'tol': None, 'expect': 'ok', 'spec': spec}
    c.update(_src_opts(rng))
    c['tgt_kind'] = 'chain'
    return c


def small_rotation(n):
    """rational rotation about z by the angle of the triple (2n+1, 2n(n+1), 2n(n+1)+1): sin ~ 1/n"""
    a, b, c = 2 * n + 1, 2 * n * (n + 1), 2 * n * (n + 1) + 1
    co, si = F(b, c), F(a, c)
    return [[co, si, F(0)], [-si, co, F(0)], [F(0), F(0), F(1)]]


def rotate_geom(h, n, axis):
    R = small_rotation(n)
    # conjugate so that the rotation is about `axis`
    perm = {0: [1, 2, 0], 1: [2, 0, 1], 2: [0, 1, 2]}[axis]     # world axis used as x,y,z of R
    inv = [perm.index(i) for i in range(3)]
    def rot(v):
        w = [v[perm[i]] for i in range(3)]
        w2 = [sum(R[kk][i] * w[kk] for kk in range(3)) for i in range(3)]
        return [w2[inv[i]] for i in range(3)]
    U = [rot(u) for u in gU(h)]
    out = dict(h)
    out['U'] = [[str(x) for x in u] for u in U]
    return out


def _match_perturbed(rng, hi):
    c = _match_direct(rng, hi, modes=['id', 'prefix', 'interior', 'strided', 'reversed', 'pad_both'],
                      kind='match_perturbed')
    g, h = c['g'], dict(c['h'])
    tolv = F(1, 100000)
    if rng.random() < 0.2:
        tolv = rng.choice([F(1, 1000), F(1, 100), F(1, 10**7)])
        c['tol'] = str(tolv)
    sig = c['spec']['sigma']
    p = rng.choice(['shift', 'shift', 'scale', 'scale', 'rotate', 'rotate', 'shift_ok', 'scale_ok', 'rotate_ok'])
    d = rng.randrange(3)
    j = sig[d]
    S, U = gS(g), gU(g)
    if p in ('shift', 'shift_ok'):
        if p == 'shift':
            cands = [F(1, 2), F(1, 4), F(-1, 2), F(3, 2), F(1, 3), F(1, 100), 50 * tolv, 2 * tolv,
                     F(101, 100) * tolv, -F(3, 2) * tolv]
            # stay clear of the threshold itself (distance to the source grid > 1.005 tol)
            cands = [x for x in cands if abs(x - round(x)) > F(1005, 1000) * tolv]
            delta = rng.choice(cands)
        else:
            delta = rng.choice([F(1, 2) * tolv, F(99, 100) * tolv, -F(1, 10) * tolv, tolv / 1000])
        P = gP(h)
        P = [P[i] + delta * S[j] * U[j][i] for i in range(3)]
        h['P'] = [str(x) for x in P]
        c['pert'] = [p, str(delta)]
    elif p in ('scale', 'scale_ok'):
        if p == 'scale':
            kk = abs(c['spec']['k'][d])
            cands = [F(3, 2), F(5, 2), F(1, 2), F(2, 5), F(4, 3), 1 + 100 * tolv, 1 + 2 * tolv,
                     1 - F(3, 2) * tolv, 2 + F(11, 10) * tolv, F(7, 10)]
            # the effective stride kk*f must stay clear of every integer (else the target is reachable)
            cands = [x for x in cands if abs(kk * x - round(kk * x)) > F(3, 2) * tolv]
            f = rng.choice(cands)
        else:
            f = 1 + rng.choice([tolv / 2, -F(9, 10) * tolv, tolv / 1000]) / abs(c['spec']['k'][d])
        St = gS(h)
        # spacing relative to the source axis; keep the stride's integer part
        St[d] = St[d] * f
        h['S'] = [str(x) for x in St]
        c['pert'] = [p, str(f)]
    else:
        if p == 'rotate':
            # incl. the angles that the pre-D62 test (1 - cos < tol) accepted: 224 .. 20000
            n = rng.choice([1, 2, 3, 7, 20, 100, 224, 250, 1000, 5000, 20000]) if tolv == F(1, 100000) else 1
        else:
            n = 10**6 if tolv <= F(1, 100000) else 10**5
            if tolv < F(1, 100000):
                n = 10**8
        h = rotate_geom(h, n, rng.randrange(3))
        c['pert'] = [p, n]
    c['h'] = h
    c['expect'] = 'accept_tol' if p.endswith('_ok') else 'refuse'
    return c


def _match_refuse_meta(rng, hi):
    c = _match_direct(rng, hi, kind='match_refuse_meta')
    g, h = c['g'], dict(c['h'])
    if rng.random() < 0.5:
        g['for'] = rng.choice([1, 2])
        h['for'] = 3 - g['for']
        c['pert'] = ['for']
    else:
        h['cs'] = 1 - g['cs']
        c['pert'] = ['cs']
    c['h'] = h
    c['expect'] = 'refuse'
    return c


def _match_tiny_spacing(rng, hi):
    """target spacing far below the source spacing along an aligned axis: the stride rounds to 0 and must be
    refused with RuntimeError (fixed defect D104: used to escape as ValueError 'slice step cannot be zero')"""
    c = _match_direct(rng, hi, modes=['id', 'prefix', 'interior', 'reversed', 'pad_both'], kind='match_tiny_spacing')
    h = dict(c['h'])
    d = rng.randrange(3)
    j = c['spec']['sigma'][d]
    tolv = F(1, 100000)
    if rng.random() < 0.3:
        tolv = rng.choice([F(1, 1000), F(1, 100)])
        c['tol'] = str(tolv)
    # ratio below tol (passes the |scale - step| test with step 0), just above tol, and < 1/2 (rounds to 0 but far off)
    ratio = rng.choice([tolv / 10, tolv / 2, F(99, 100) * tolv, F(1, 10**6) * tolv, 2 * tolv, F(1, 4), F(49, 100)])
    St = gS(h)
    St[d] = gS(c['g'])[j] * ratio
    h['S'] = [str(x) for x in St]
    c['h'] = h
    c['pert'] = ['tiny_spacing', str(ratio)]
    c['expect'] = 'refuse'
    return c


def _geq(rng, hi):
    g = rand_geom(rng, hi, dyadic=rng.random() < 0.3)
    h = json.loads(json.dumps(g))
    tol = rng.choice(['default', 'default', 'none', '0', '1/1000', '1/2'])
    what = rng.choice(['same', 'same', 'shape', 'cs', 'for', 'pos', 'pos', 'pos_big', 'spacing', 'flip', 'swapdir'])
    kind = 'geq'
    tv = {'default': F(1, 100000), 'none': None, '0': F(0)}.get(tol)
    if tv is None and tol not in ('none',):
        tv = F(tol)
    if what == 'shape':
        d = rng.randrange(3)
        h['shape'][d] += rng.choice([1, -1]) if h['shape'][d] > 1 else 1
    elif what == 'cs':
        h['cs'] = 1 - h['cs']
    elif what == 'for':
        kind = 'geq_for'
        g['for'], h['for'] = rng.choice([(None, None), (None, 1), (1, None), (1, 1), (1, 2), (2, 1)])
    elif what in ('pos', 'pos_big'):
        kind = 'geq_tol'
        i = rng.randrange(3)
        P = gP(h)
        if what == 'pos_big':
            P[i] = F(rng.choice([1000, -2000, 12345]))
            g['P'][i] = str(P[i])
        thr = (tv if tv is not None else F(0)) + F(1, 100000) * abs(P[i])
        fac = rng.choice([F(1, 2), F(99, 100), F(101, 100), F(2), F(-99, 100), F(-101, 100)])
        delta = thr * fac if thr else F(rng.choice([1, -1]), 2**20)
        # g differs from h; the threshold uses |h| (second argument of allclose)
        Pg = gP(g)
        Pg[i] = P[i] + delta
        g['P'] = [str(x) for x in Pg]
        h['P'] = [str(x) for x in P]
        if rng.random() < 0.5:
            g, h = h, g      # asymmetric rtol term
    elif what == 'spacing':
        kind = 'geq_tol'
        d = rng.randrange(3)
        S = gS(h)
        S[d] = S[d] * rng.choice([1 + F(1, 10**7), 1 + F(1, 1000), F(2), 1 - F(1, 10**4), 1 + F(1, 2**30)])
        h['S'] = [str(x) for x in S]
    elif what == 'flip':
        d = rng.randrange(3)
        h['U'][d] = [str(-F(x)) for x in h['U'][d]]
    elif what == 'swapdir':
        h['U'][0], h['U'][1] = h['U'][1], h['U'][0]
        h['S'][0], h['S'][1] = h['S'][1], h['S'][0]
    # channel dimensions are not part of the geometry: operands with different channel layouts
    # (multi-channel Volume vs geometry / single-channel / other channel count) must compare the same
    return {'kind': kind, 'g': g, 'h': h, 'tol': tol, 'what': what,
            'kinds': [rng.choice(['geometry', 'volume']), rng.choice(['geometry', 'volume'])],
            'chs': [rng.choice([0, 0, 2, 3]), rng.choice([0, 0, 1, 2])]}


def _exact_index(g, h, pt):
    """exact target index of source index pt (Fractions)"""
    cg, ch = g_cols(g), g_cols(h)
    x = [gP(g)[i] + sum(cg[j][i] * pt[j] for j in range(3)) for i in range(3)]
    return _exact_ref2idx(h, x)


def _exact_ref2idx(h, x):
    U, S, P = gU(h), gS(h), gP(h)
    return [sum(U[j][i] * (x[i] - P[i]) for i in range(3)) / S[j] for j in range(3)]


def _margin_ok(idx, shape):
    """no coordinate within 1e-6 of a bounds threshold or a rounding tie"""
    eps = F(1, 10**6)
    for v, n in zip(idx, shape):
        if abs(v + F(1, 2)) < eps or abs(v - (n - F(1, 2))) < eps:
            return False
        fracp = v - (v.numerator // v.denominator)
        if abs(fracp - F(1, 2)) < eps:
            return False
    return True


def _v2v(rng, hi, kind):
    if kind in ('v2v_boundary', 'r2i_boundary'):
        g, h = rand_geom(rng, hi, dyadic=True), rand_geom(rng, hi, dyadic=True)
    else:
        g, h = rand_geom(rng, hi), rand_geom(rng, hi)
        if rng.random() < 0.5:
            # related geometries (target derived from the source) give integer indices
            sig = [0, 1, 2]
            rng.shuffle(sig)
            kam = [_axis_target(rng, g['shape'][sig[d]]) for d in range(3)]
            h = derive_target(g, sig, [x[0] for x in kam], [x[1] for x in kam], [x[2] for x in kam])
    r2i = kind.startswith('r2i')
    n = h['shape']
    npts = rng.choice([1, 1, 2, 3, 5])
    where = {'v2v': rng.choice(['inside', 'inside', 'mixed']), 'r2i': rng.choice(['inside', 'mixed']),
             'v2v_outside': 'outside', 'v2v_boundary': 'boundary', 'r2i_boundary': 'boundary'}[kind]
    cg = g_cols(g)
    ch = g_cols(h)
    pts = []
    int_input = (not r2i) and kind != 'v2v_boundary' and rng.random() < 0.4
    tries = 0
    while len(pts) < npts and tries < 200:
        tries += 1
        # choose a target index, then pull it back exactly
        t = []
        for d in range(3):
            w = where if where != 'mixed' else rng.choice(['inside', 'outside', 'inside'])
            if where == 'outside' and len(pts) + 1 < npts and rng.random() < 0.6:
                w = 'inside'        # only some points / one axis outside
            if w == 'inside':
                t.append(F(rng.randint(-4, 8 * n[d] - 5), 8) if rng.random() < 0.7 else F(rng.randint(0, n[d] - 1)))
            elif w == 'outside':
                if rng.random() < 0.5 or d == 2:
                    t.append(rng.choice([F(-1), F(-5, 8), F(n[d]), F(n[d]) - F(3, 8), F(-3), F(n[d] + 2)]))
                else:
                    t.append(F(rng.randint(0, n[d] - 1)))
            else:   # boundary: exactly on a face, or 2^-20 off
                b = rng.choice([F(-1, 2), n[d] - F(1, 2), F(-1, 2) + F(1, 2**20), F(-1, 2) - F(1, 2**20),
                                n[d] - F(1, 2) + F(1, 2**20), n[d] - F(1, 2) - F(1, 2**20),
                                F(rng.randint(0, n[d] - 1)), F(1, 2), F(3, 2), n[d] - F(3, 2)])
                t.append(b)
        x = [gP(h)[i] + sum(ch[j][i] * t[j] for j in range(3)) for i in range(3)]
        if r2i:
            p = x
            idx = t
        else:
            p = _exact_ref2idx(g, x)         # source index mapping exactly onto t
            if int_input:
                p = [F(round(v)) for v in p]
            idx = _exact_index(g, h, p)
        if kind in ('v2v_boundary', 'r2i_boundary'):
            if any(v.denominator & (v.denominator - 1) or abs(v) > 2**20 for v in p):
                continue
        elif not _margin_ok(idx, n):
            continue
        pts.append([str(v) for v in p])
    if not pts:
        pts = [['0', '0', '0']]
        int_input = False
        if not r2i and not _margin_ok(_exact_index(g, h, [F(0)] * 3), n):
            g['P'] = [str(F(x) + F(1, 3)) for x in g['P']]
    return {'kind': kind, 'g': g, 'h': h, 'pts': pts, 'round': rng.random() < 0.5,
            'check': kind in ('v2v_outside', 'v2v_boundary', 'r2i_boundary') or rng.random() < 0.6,
            'int_input': int_input,
            'kinds': [rng.choice(['geometry', 'volume']), rng.choice(['geometry', 'volume'])]}


def _bad_points(rng, hi):
    c = _v2v(rng, hi, 'v2v')
    c['kind'] = 'bad_points'
    c['bad'] = rng.choice(['cols2', 'cols4', '1d', '3d', 'empty_check'])
    c['api'] = rng.choice(['v2v', 'r2i'])
    c['check'] = True
    return c


PAD_MODES = ['CONSTANT', 'CONSTANT', 'EDGE', 'EDGE', 'MINIMUM', 'MAXIMUM', 'MEAN', 'MEDIAN']
COQ_MODE = {'CONSTANT': 'PConst', 'EDGE': 'PEdge', 'MINIMUM': 'PMin', 'MAXIMUM': 'PMax', 'MEAN': 'PMean',
            'MEDIAN': 'PMedian'}


def _match_mode(rng, hi):
    """match_geometry with the pad options; voxel VALUES are compared with the model"""
    r = rng.random()
    if r < 0.6:
        c = _match_direct(rng, hi, modes=['pad_before', 'pad_after', 'pad_both', 'partly', 'outside_before',
                                          'outside_after', 'any', 'reversed', 'strided', 'id'])
    elif r < 0.8:
        c = _match_chain(rng, hi)
    else:
        c = _match_perturbed(rng, hi)
    c['orig_kind'] = c['kind']
    c['kind'] = 'match_mode'
    c['src_kind'] = 'volume'
    c['channels'] = 0
    c['dtype'] = 'float64'
    c['mode'] = rng.choice(PAD_MODES)
    c['mode_as_str'] = rng.random() < 0.3
    c['cval'] = rng.choice(['0', '-7', '5/2', '1000', '0']) if c['mode'] == 'CONSTANT' else rng.choice(['0', '3'])
    return c


def _geq_T(c):
    """atol (mm) above the bound of C09_match_sound_geometry_equal for this case"""
    tol = F(c['tol']) if c.get('tol') is not None else F(1, 100000)
    if c['expect'] == 'ok':
        return None            # exact target: the default tolerance must do
    sg, sh = gS(c['g']), gS(c['h'])
    return float(4 * tol * max(sum(sg), max(sh) + max(sg)))


def _pts_case(rng, hi, kind):
    c = _v2v(rng, hi, rng.choice(['v2v', 'v2v', 'v2v_outside']) if kind != 'via_phys_b' else 'v2v_boundary')
    c['orig_kind'] = c['kind']
    c['kind'] = 'via_phys' if kind == 'via_phys_b' else kind
    if kind == 'via_phys':
        c['check'] = rng.random() < 0.7
    return c


# ---- dtype of the index array handed to the transformer ---------------------------------------------
SIGNED = ['int8', 'int16', 'int32', 'int64']
UNSIGNED = ['uint8', 'uint16', 'uint32', 'uint64']
FLOATS = ['float32', 'float64']
DT_RANGE = {'int8': (-2**7, 2**7 - 1), 'int16': (-2**15, 2**15 - 1), 'int32': (-2**31, 2**31 - 1),
            'int64': (-2**63, 2**63 - 1), 'uint8': (0, 2**8 - 1), 'uint16': (0, 2**16 - 1),
            'uint32': (0, 2**32 - 1), 'uint64': (0, 2**64 - 1)}
DT_COQ = {'int8': '(DInt W8)', 'int16': '(DInt W16)', 'int32': '(DInt W32)', 'int64': '(DInt W64)',
          'uint8': '(DUInt W8)', 'uint16': '(DUInt W16)', 'uint32': '(DUInt W32)', 'uint64': '(DUInt W64)',
          'float16': '(DFloat W16)', 'float32': '(DFloat W32)', 'float64': '(DFloat W64)'}


def _rhe(v):
    """round half to even of a Fraction"""
    f = v.numerator // v.denominator
    r = v - f
    if r < F(1, 2):
        return f
    if r > F(1, 2):
        return f + 1
    return f if f % 2 == 0 else f + 1


def _margin_rel(idx, shape, rel):
    """no coordinate within rel * max(1, |v|) of a bounds threshold or a rounding tie"""
    for v, n in zip(idx, shape):
        eps = rel * max(F(1), abs(v))
        if abs(v + F(1, 2)) < eps or abs(v - (n - F(1, 2))) < eps:
            return False
        if abs(v - (v.numerator // v.denominator) - F(1, 2)) < eps:
            return False
    return True


def _v2v_dtype(rng, hi, kind):
    """transformer(index array of a given dtype): related (derived) or unrelated target, images inside / negative /
    beyond the target; kind v2v_unsigned_neg forces an unsigned dtype and >= 1 negative image"""
    neg = kind == 'v2v_unsigned_neg'
    g = rand_geom(rng, hi)
    if neg:
        dt = rng.choice(UNSIGNED)
    else:
        dt = rng.choice(SIGNED + UNSIGNED + FLOATS + ['uint8', 'int8', 'float32'])
    isint = dt not in FLOATS
    unsigned = dt in UNSIGNED
    rnd = rng.random() < (0.65 if neg else 0.55)
    lo_in = DT_RANGE[dt][0] if isint else None
    free = rng.random() < (0.25 if neg else 0.3)
    rel = F(1, 10**4) if dt == 'float32' else F(1, 10**6)
    pts, spec = [], None
    if free:
        h = rand_geom(rng, hi)
        if rng.random() < 0.3:
            d = rng.randrange(3)
            h['shape'][d] = rng.randint(257, 400)
        n = h['shape']
        ch = g_cols(h)
        npts = rng.choice([1, 2, 3, 4])
        tries = 0
        while len(pts) < npts and tries < 300:
            tries += 1
            t = []
            for d in range(3):
                w = rng.choice(['in', 'in', 'neg', 'beyond'])
                if neg and not pts and d == tries % 3:
                    w = 'neg'
                if w == 'in':
                    t.append(F(rng.randint(0, 8 * n[d] - 8), 8))
                elif w == 'neg':
                    t.append(F(-rng.randint(5, 40), 8))
                else:
                    t.append(n[d] - 1 + F(rng.randint(5, 24), 8))
            x = [gP(h)[i] + sum(ch[j][i] * t[j] for j in range(3)) for i in range(3)]
            p = _exact_ref2idx(g, x)
            if isint:
                p = [F(round(v)) for v in p]
                if unsigned:
                    p = [max(v, F(0)) for v in p]
                if any(v < DT_RANGE[dt][0] or v > DT_RANGE[dt][1] for v in p):
                    continue
            elif dt == 'float32':
                p = [F(round(v * 8), 8) for v in p]
                if any(abs(v) > 2**15 for v in p):
                    continue
            idx = _exact_index(g, h, p)
            if not _margin_rel(idx, n, rel):
                continue
            if neg and not pts and not any(v < F(-1, 2) for v in idx):
                continue
            pts.append([str(v) for v in p])
        if not pts:
            free = False
    if not free:
        sig = [0, 1, 2]
        rng.shuffle(sig)
        k = [rng.choice([1, 1, 1, 2, 3, -1, -1, -2]) for _ in range(3)]
        a = [rng.randint(-2, g['shape'][sig[d]] + 1) for d in range(3)]
        m = [rng.randint(1, 6) for _ in range(3)]
        if rng.random() < (0.4 if dt in ('uint8', 'int8') else 0.2):
            m[rng.randrange(3)] = rng.randint(257, 400)       # a wrapped 8-bit value can look in-bounds
        # one forced image coordinate of the first point: negative (unsigned inputs: the output type must hold
        # it), or exactly the last / first value an int8 result can hold
        forced = None
        if neg or (unsigned and rng.random() < 0.5):
            forced = (rng.randrange(3), -rng.choice([1, 1, 2, 3, 4, 7]))
        elif dt == 'int8' and rnd and rng.random() < 0.3:
            d = rng.randrange(3)
            k[d] = rng.choice([1, -1])
            forced = (d, rng.choice([127, -128, 126, -127]))
            m[d] = rng.choice([m[d], 128, 130])
        if forced:
            d, t0 = forced
            p0 = rng.randint(0, g['shape'][sig[d]] + 1)
            a[d] = p0 - k[d] * t0
        h = derive_target(g, sig, k, a, m)
        spec = {'sigma': sig, 'k': k, 'a': a, 'm': m}
        npts = rng.choice([1, 2, 3, 4])
        tries = 0
        while len(pts) < npts and tries < 300:
            tries += 1
            p = [None] * 3
            for d in range(3):
                if forced and not pts and d == forced[0]:
                    t = F(forced[1])
                else:
                    w = rng.choice(['in', 'in', 'in', 'neg', 'beyond'])
                    den = 1 if isint else rng.choice([1, 2, 8, 8])
                    if w == 'in':
                        t = F(rng.randint(0, den * (m[d] - 1)), den)
                    elif w == 'neg':
                        t = F(-rng.randint(1, 4 * den), den)
                    else:
                        t = m[d] - 1 + F(rng.randint(1, 3 * den), den)
                p[sig[d]] = a[d] + k[d] * t
            if isint and any(v < DT_RANGE[dt][0] or v > DT_RANGE[dt][1] for v in p):
                continue
            idx = _exact_index(g, h, p)
            if not _margin_rel(idx, m, rel):
                continue
            pts.append([str(v) for v in p])
        if not pts:
            raise AssertionError('v2v_dtype: no admissible point')      # cannot happen: the forced point is admissible
    # narrow signed inputs: "matched to the input datatype if possible" - keep to images the type can hold
    if dt in SIGNED and rnd:
        r = [_rhe(v) for p in pts for v in _exact_index(g, h, [F(x) for x in p])]
        fit = [x for x in SIGNED if DT_RANGE[x][0] <= min(r) and max(r) <= DT_RANGE[x][1] and
               all(DT_RANGE[x][0] <= F(v) <= DT_RANGE[x][1] for p in pts for v in p)]
        if dt not in fit:
            dt = fit[0]
    c = {'kind': kind, 'g': g, 'h': h, 'pts': pts, 'round': rnd, 'check': rng.random() < 0.5, 'in_dtype': dt,
         'related': not free, 'kinds': [rng.choice(['geometry', 'volume']), rng.choice(['geometry', 'volume'])]}
    if spec:
        c['spec'] = spec
    return c


# ---- index arrays of REDUCED floating point precision (float16 / float32) ------------------------------
FBITS = {'float16': 11, 'float32': 24}
LOWP_K = [F(1), F(1), F(-1), F(1, 2), F(1, 4), F(1, 8), F(1, 16), F(1, 16), F(-1, 16), F(-1, 4), F(1, 10),
          F(1, 3), F(2), F(3, 2), F(1, 32)]


def _fl_exp(x, p):
    """exponent e of the unit in the last place 2^e of x != 0 in a binary format with p significant bits"""
    n, d = abs(x.numerator), x.denominator
    E = n.bit_length() - d.bit_length()
    while F(2) ** E > abs(x):
        E -= 1
    while F(2) ** (E + 1) <= abs(x):
        E += 1
    return E - (p - 1)


def _fl(x, p):
    """generator-side rounding of a Fraction to p significant bits, ties to even (the oracle uses numpy instead)"""
    x = F(x)
    if x == 0:
        return x
    u = F(2) ** _fl_exp(x, p)
    return _rhe(x / u) * u


def _fl_safe(t, p):
    """the float64 value of t and t itself round to the same p-bit float: t is not within 1e-8 max(1,|t|) of the
    midpoint of two neighbouring floats (or the format is so fine there that a flip is below the comparison TOL)"""
    if t == 0:
        return True
    u = F(2) ** _fl_exp(t, p)
    if u <= F(5, 10**9):
        return True
    y = t / u
    return abs(y - (y.numerator // y.denominator) - F(1, 2)) * u >= F(1, 10**8) * max(F(1), abs(t))


def _lowp_ok(t, p, rnd):
    """admissible image coordinate: clear of rounding ties / bounds thresholds (2^-12 and 2e-9 |t|: float64 error),
    for the un-rounded call also clear of the midpoints of the input format"""
    d = abs(t - (t.numerator // t.denominator) - F(1, 2))
    if d < F(1, 4096) or d < F(2, 10**9) * abs(t):
        return False
    return rnd or _fl_safe(t, p)


def _lowp_frac(rng):
    r = rng.random()
    if r < 0.6:       # within the last bits of a rounding tie: .5 +- delta
        delta = rng.choice([F(3, 1000), F(1, 1000), F(1, 256), F(rng.randint(1, 500), 2048),
                            F(rng.randint(1, 249), 1000), F(1, 2048), F(1, 10), F(1, 5)])
        return F(1, 2) + rng.choice([1, -1]) * delta
    if r < 0.8:       # next to a voxel centre
        return rng.choice([F(0), F(1, 1000), F(-1, 1000), F(1, 8), F(-1, 8), F(3, 10), F(-3, 10)])
    return F(rng.randint(0, 999), 1000)


def _v2v_lowprec(rng, hi):
    """transformer(float16 / float32 index array) where the MAPPED indices are large relative to the precision of
    the input type and non-integral: magnifying targets (stride 1/2 .. 1/32 source voxels: pyramid level -> base
    level), long axes, sub-voxel offsets within the last bits of .5; images in the last voxel / just beyond"""
    dt = rng.choice(['float32', 'float16'])
    p = FBITS[dt]
    rnd = rng.random() < 0.7
    g = rand_geom(rng, hi)
    sig = [0, 1, 2]
    rng.shuffle(sig)
    big = rng.randrange(3)
    k, a, m, first = [], [], [], [None] * 3
    for d in range(3):
        for _ in range(200):
            if d == big or rng.random() < 0.3:
                lo, top = (13, 18) if dt == 'float32' else (3, 11)
                N = min(int(2 ** rng.uniform(lo, top)), 2 ** top - 3)
            else:
                N = rng.choice([0, 1, rng.randint(0, 40), rng.randint(0, 40)]) if rng.random() < 0.93 else rng.choice([-1, -2])
            kd = rng.choice(LOWP_K)
            t0 = N + _lowp_frac(rng)
            p0 = _fl(abs(kd) * abs(N) + F(rng.randint(0, 16), 4), p)
            if dt == 'float16' and abs(p0) > 2047:
                continue
            if _lowp_ok(t0, p, rnd):
                break
        else:
            raise AssertionError('v2v_lowprec: no admissible first point')
        r0 = _rhe(t0)
        if r0 < 0:
            md = rng.randint(1, 6)
        else:
            # last voxel / inside / just beyond
            md = r0 + (0 if rng.random() < 0.08 else rng.choice([1, 1, 1, 2, rng.randint(2, 2000)]))
        if dt == 'float16':
            md = min(md, 2047)
        k.append(kd)
        a.append(p0 - kd * t0)
        m.append(max(1, md))
        first[sig[d]] = p0
    h = derive_target(g, sig, k, a, m)
    pts = [[str(v) for v in first]]
    lim = F(2047) if dt == 'float16' else F(2 ** 23)
    for _ in range(rng.choice([0, 1, 2, 3])):
        want_in = rng.random() < 0.75
        for _ in range(50):
            q = [v if rng.random() < 0.4 else _fl(v + F(rng.randint(-64, 64), rng.choice([1, 1, 2, 4])), p)
                 for v in first]
            idx = _exact_index(g, h, q)
            if want_in and not all(F(-1, 2) < t < md - F(1, 2) for t, md in zip(idx, m)):
                continue
            if all(_lowp_ok(t, p, rnd) and abs(t) < lim for t in idx) and all(0 <= v <= lim for v in q):
                pts.append([str(v) for v in q])
                break
    # the source holds every point handed over (indices of real voxels of the source)
    for j in range(3):
        top = max(F(q[j]) for q in pts)
        g['shape'][j] = max(g['shape'][j], int(top) + 2)
    nvox = m[0] * m[1] * m[2]
    nsrc = g['shape'][0] * g['shape'][1] * g['shape'][2]
    return {'kind': 'v2v_lowprec', 'g': g, 'h': h, 'pts': pts, 'round': rnd, 'check': rng.random() < 0.55,
            'in_dtype': dt, 'related': True, 'spec': {'sigma': sig, 'k': [str(x) for x in k],
                                                       'a': [str(x) for x in a], 'm': m},
            'kinds': ['geometry' if nsrc > 200000 else rng.choice(['geometry', 'volume']),
                      'geometry' if nvox > 200000 else rng.choice(['geometry', 'volume'])]}


def gen_cases(rng, tier):
    n = {'quick': 60, 'thorough': 1500, 'search': 400}[tier]
    hi = 5 if tier == 'quick' else 7
    cases = []
    for _ in range(2 * n):
        cases.append(_geq(rng, hi))
    for _ in range(2 * n):
        cases.append(_match_direct(rng, hi))
    for _ in range(n):
        cases.append(_match_direct(rng, hi, modes=['outside_before', 'outside_after', 'partly', 'id'],
                                   kind='match_outside'))
    for _ in range(n // 2):
        c = _match_direct(rng, hi, kind='match_geomsrc')
        c['src_kind'] = 'geometry'
        cases.append(c)
    for _ in range(2 * n):
        cases.append(_match_chain(rng, hi))
    for _ in range(2 * n):
        cases.append(_match_perturbed(rng, hi))
    for _ in range(n // 2):
        cases.append(_match_refuse_meta(rng, hi))
    for _ in range(n // 2):
        cases.append(_match_tiny_spacing(rng, hi))
    for kind, k in (('v2v', 2 * n), ('v2v_boundary', n), ('v2v_outside', n), ('r2i', n), ('r2i_boundary', n // 2)):
        for _ in range(k):
            cases.append(_v2v(rng, hi, kind))
    for _ in range(n // 3):
        cases.append(_bad_points(rng, hi))
    for _ in range(2 * n):
        cases.append(_match_mode(rng, hi))
    for _ in range(n // 2):
        cases.append(_pts_case(rng, hi, 'v2v_affine'))
    for _ in range(n // 2):
        cases.append(_pts_case(rng, hi, 'i2r'))
    for _ in range(n):
        cases.append(_pts_case(rng, hi, 'via_phys'))
    for _ in range(n // 2):
        cases.append(_pts_case(rng, hi, 'via_phys_b'))
    for _ in range(2 * n):
        cases.append(_v2v_dtype(rng, hi, 'v2v_dtype'))
    for _ in range(n):
        cases.append(_v2v_dtype(rng, hi, 'v2v_unsigned_neg'))
    for _ in range(2 * n):
        cases.append(_v2v_lowprec(rng, hi))
    return cases


# ----------------------------------------------------------------------------
# implementation runner
# ----------------------------------------------------------------------------
def _labels(vol):
    import numpy as np
    arr = vol.array
    if arr.ndim > 3:
        arr = arr[..., 0]
    return [int(x) for x in np.asarray(arr).reshape(-1).tolist()]


def _geom_out(v):
    A = v.affine
    return [list(int(x) for x in v.spatial_shape), A[:3, 0].tolist(), A[:3, 1].tolist(), A[:3, 2].tolist(),
            A[:3, 3].tolist()]


def _apply_chain(vol, ops):
    for name, arg in ops:
        if name == 'permute':
            vol = vol.permute_spatial_axes(arg)
        elif name == 'flip':
            vol = vol.flip_spatial(arg)
        elif name == 'crop':
            vol = vol[tuple(slice(*s) for s in arg)]
        else:
            vol = vol.pad(arg)
    return vol


def _run_points_ext(c):
    import numpy as np
    import highdicom as hd
    k = c['kind']
    a = build(c['g'], c['kinds'][0])
    b = build(c['h'], c['kinds'][1])
    pts = np.array([[float(F(v)) for v in p] for p in c['pts']], dtype=np.float64).reshape(-1, 3)
    if c.get('int_input'):
        pts = pts.astype(np.int64)
    if k == 'v2v_affine':
        def f():
            t = hd.VolumeToVolumeTransformer(a, b, round_output=c['round'], check_bounds=c['check'])
            A = t.affine
            if A.shape != (4, 4) or A[3].tolist() != [0.0, 0.0, 0.0, 1.0]:
                raise AssertionError('affine is not a homogeneous 4x4 matrix')
            keep = A.copy()
            A[:] = 7.0                      # the property must hand out a copy
            if not np.array_equal(t.affine, keep):
                raise AssertionError('affine property aliases the internal matrix')
            return [keep[:3, j].tolist() for j in range(4)]
        return catch(f)
    if k == 'i2r':
        return catch(lambda: a.map_indices_to_reference(pts).tolist())

    def direct():
        t = hd.VolumeToVolumeTransformer(a, b, round_output=c['round'], check_bounds=c['check'])
        return t(pts).tolist()

    def via():
        x = a.map_indices_to_reference(pts)
        return b.map_reference_to_indices(x, round_output=c['round'], check_bounds=c['check']).tolist()
    return [catch(direct), catch(via)]


def _dt_code(dt):
    return {'i': 100, 'u': 200, 'f': 300}.get(dt.kind, 900) + 8 * dt.itemsize


def _run_dtype(c):
    """[ transformer(index array of dtype in_dtype) -> [values, dtype code of the returned array] | Err,
         physical route on the same array -> values | Err ]"""
    import numpy as np
    import highdicom as hd
    a = build(c['g'], c['kinds'][0])
    b = build(c['h'], c['kinds'][1])
    dt = np.dtype(c['in_dtype'])
    if dt.kind in 'iu':
        pts = np.array([[int(F(v)) for v in p] for p in c['pts']], dtype=dt).reshape(-1, 3)
    else:
        p64 = np.array([[float(F(v)) for v in p] for p in c['pts']], dtype=np.float64).reshape(-1, 3)
        pts = p64.astype(dt)
        if c['kind'] == 'v2v_lowprec' and not np.array_equal(pts.astype(np.float64), p64):
            raise AssertionError('v2v_lowprec: a point is not representable in ' + c['in_dtype'])

    def direct():
        t = hd.VolumeToVolumeTransformer(a, b, round_output=c['round'], check_bounds=c['check'])
        out = t(pts)
        return [out.tolist(), _dt_code(out.dtype)]

    def via():
        x = a.map_indices_to_reference(pts)
        return b.map_reference_to_indices(x, round_output=c['round'], check_bounds=c['check']).tolist()
    return [catch(direct), catch(via)]


def run_impl(c):
    import numpy as np
    import highdicom as hd
    k = c['kind']
    if k.startswith('geq'):
        chs = c.get('chs', [0, 0])
        a = build(c['g'], c['kinds'][0], chs[0])
        b = build(c['h'], c['kinds'][1], chs[1])
        if c['tol'] == 'default':
            return bool(a.geometry_equal(b))
        tol = None if c['tol'] == 'none' else float(F(c['tol']))
        return bool(a.geometry_equal(b, tol=tol))
    if k in ('v2v_affine', 'i2r', 'via_phys'):
        return _run_points_ext(c)
    if k in ('v2v_dtype', 'v2v_unsigned_neg', 'v2v_lowprec'):
        return _run_dtype(c)
    if k.startswith('match'):
        src = build(c['g'], c['src_kind'], c.get('channels', 0), c.get('dtype', 'float64'))
        if c['tgt_kind'] == 'chain':
            tgt = _apply_chain(build(c['g'], 'volume'), c['ops'])
            if c['g']['for'] != c['h']['for'] or c['g']['cs'] != c['h']['cs']:
                raise AssertionError('chain target meta')
        else:
            tgt = build(c['h'], c['tgt_kind'])
        before = None if c['src_kind'] == 'geometry' else src.array.copy()
        A0 = src.affine.copy()
        kw = {} if c.get('tol') is None else {'tol': float(F(c['tol']))}

        if k == 'match_mode':
            kw['mode'] = c['mode'].lower() if c.get('mode_as_str') else hd.PadModes[c['mode']]
            kw['constant_value'] = float(F(c['cval']))

            def fm():
                r = src.match_geometry(tgt, **kw)
                if not (bool(np.array_equal(src.affine, A0)) and bool(np.array_equal(src.array, before))):
                    raise AssertionError('source modified')
                T = _geq_T(c)
                geq = bool(r.geometry_equal(tgt)) if T is None else bool(r.geometry_equal(tgt, tol=T))
                vals = [float(x) for x in np.asarray(r.array, dtype=np.float64).reshape(-1).tolist()]
                return [_geom_out(r), vals, [geq]]
            return catch(fm)

        def f():
            r = src.match_geometry(tgt, **kw)
            flags = [r.coordinate_system == src.coordinate_system,
                     r.frame_of_reference_uid == src.frame_of_reference_uid,
                     bool(np.array_equal(src.affine, A0)) and (before is None or bool(np.array_equal(src.array, before))),
                     type(r) is type(src)]
            if c['src_kind'] == 'geometry':
                return [_geom_out(r), flags]
            ch_ok = True
            if r.array.ndim > 3:
                ch_ok = all(bool(np.array_equal(np.where(r.array[..., 0] > 0, r.array[..., 0] + 1000 * cc, 0),
                                                r.array[..., cc])) for cc in range(r.array.shape[3]))
                ch_ok = ch_ok and r.channel_descriptors == src.channel_descriptors
            flags.append(bool(ch_ok) and r.array.dtype == src.array.dtype)
            return [_geom_out(r), _labels(r), flags]
        return catch(f)
    if k in ('v2v', 'v2v_boundary', 'v2v_outside', 'r2i', 'r2i_boundary', 'bad_points'):
        a = build(c['g'], c['kinds'][0])
        b = build(c['h'], c['kinds'][1])
        pts = np.array([[float(F(v)) for v in p] for p in c['pts']], dtype=np.float64).reshape(-1, 3)
        if c.get('int_input'):
            pts = pts.astype(np.int64)
        api = c.get('api', 'r2i' if k.startswith('r2i') else 'v2v')
        bad = c.get('bad')
        if bad == 'cols2':
            pts = pts[:, :2]
        elif bad == 'cols4':
            pts = np.hstack([pts, pts[:, :1]])
        elif bad == '1d':
            pts = pts[0]
        elif bad == '3d':
            pts = pts[None]
        elif bad == 'empty_check':
            pts = pts[:0]

        def f():
            if api == 'v2v':
                t = hd.VolumeToVolumeTransformer(a, b, round_output=c['round'], check_bounds=c['check'])
                out = t(pts)
            else:
                out = b.map_reference_to_indices(pts, round_output=c['round'], check_bounds=c['check'])
            if c['round'] and out.dtype.kind != 'i':
                raise AssertionError('rounded output is not integer typed')
            return out.tolist()
        return catch(f)
    raise ValueError(k)


# ----------------------------------------------------------------------------
# model terms
# ----------------------------------------------------------------------------
def _b(x):
    return 'true' if x else 'false'


def coq_term(c):
    k = c['kind']
    if k.startswith('geq'):
        tol = {'default': '(Some (1 # 100000)%Q)', 'none': 'None'}.get(c['tol']) or f"(Some {q(c['tol'])})"
        return f"(run_geq {tol} {g_coq(c['g'])} {g_coq(c['h'])})"
    if k == 'match_mode':
        tol = q(c['tol']) if c.get('tol') is not None else '(1 # 100000)%Q'
        return f"(run_match_mode {tol} {COQ_MODE[c['mode']]} {q(c['cval'])} {g_coq(c['g'])} {g_coq(c['h'])})"
    if k == 'v2v_affine':
        return f"(run_v2v_affine {g_coq(c['g'])} {g_coq(c['h'])})"
    if k in ('i2r', 'via_phys'):
        pts = '[' + '; '.join(_v3([F(round(F(v))) for v in p] if c.get('int_input') else p) for p in c['pts']) + ']'
        if k == 'i2r':
            return f"(run_idx2ref {g_coq(c['g'])} {pts})"
        return f"(run_via_phys {g_coq(c['g'])} {g_coq(c['h'])} {_b(c['round'])} {_b(c['check'])} {pts})"
    if k in ('v2v_dtype', 'v2v_unsigned_neg', 'v2v_lowprec'):
        fn = 'run_v2v_dt'
        if c['in_dtype'] in FBITS and not c['round']:
            # the unrounded result is rounded to float32 / float16: exact in run_v2v_dt (model-compared when every
            # image is exactly representable), modelled faithfully (fl_round) in run_v2v_fp - compared whenever the
            # float64 value and the exact value cannot fall on different sides of a midpoint of the format
            # (double rounding, oracle premise); judged by the numpy oracle alone otherwise
            idx = [v for p in c['pts'] for v in _exact_index(c['g'], c['h'], [F(x) for x in p])]
            if all(_fl_safe(v, FBITS[c['in_dtype']]) for v in idx):
                fn = 'run_v2v_fp'
            elif any((v * 1024).denominator != 1 or abs(v) > 4096 for v in idx) or c['in_dtype'] != 'float32':
                return None
        elif k == 'v2v_lowprec':
            fn = 'run_v2v_fp'
        pts = '[' + '; '.join(_v3(p) for p in c['pts']) + ']'
        return (f"({fn} {DT_COQ[c['in_dtype']]} {g_coq(c['g'])} {g_coq(c['h'])} {_b(c['round'])} "
                f"{_b(c['check'])} {pts})")
    if k.startswith('match'):
        tol = q(c['tol']) if c.get('tol') is not None else '(1 # 100000)%Q'
        fn = 'run_match_g' if c['src_kind'] == 'geometry' else 'run_match'
        return f"({fn} {tol} {g_coq(c['g'])} {g_coq(c['h'])})"
    if k == 'bad_points':
        return None
    pts = '[' + '; '.join(_v3(p) for p in c['pts']) + ']'
    if k.startswith('r2i'):
        return f"(run_ref2idx {g_coq(c['h'])} {_b(c['round'])} {_b(c['check'])} {pts})"
    return f"(run_v2v {g_coq(c['g'])} {g_coq(c['h'])} {_b(c['round'])} {_b(c['check'])} {pts})"


# ----------------------------------------------------------------------------
# independent oracle (numpy, through physical coordinates)
# ----------------------------------------------------------------------------
def _oracle_geq(c, out):
    import numpy as np
    g, h = c['g'], c['h']
    A, B = g_affine(g), g_affine(h)
    want = True
    if g['for'] is not None and h['for'] is not None and g['for'] != h['for']:
        want = False
    if g['shape'] != h['shape'] or g['cs'] != h['cs']:
        want = False
    if c['tol'] == 'none':
        close = all(A[i, j] == B[i, j] for i in range(4) for j in range(4))
    else:
        t = F(1, 100000) if c['tol'] == 'default' else F(c['tol'])
        close = all(abs(F(float(A[i, j])) - F(float(B[i, j]))) <= t + F(1, 100000) * abs(F(float(B[i, j])))
                    for i in range(4) for j in range(4))
    want = want and close
    return None if out == want else f'geometry_equal={out}, expected {want} ({c["what"]}, tol={c["tol"]})'


def _oracle_match(c, out):
    import numpy as np
    exp = c['expect']
    if isinstance(out, Err):
        if exp in ('ok', 'accept_tol'):
            return f'target reachable by permute/flip/crop/pad refused: {out} spec={c.get("spec")} pert={c.get("pert")}'
        if out.kind != 'RuntimeError':
            return f'refusal raised {out.kind}, expected RuntimeError'
        return None
    if exp == 'refuse':
        return f'perturbed target accepted ({c.get("pert")})'
    geo = c['src_kind'] == 'geometry'
    geom, flags = out[0], out[-1]
    g, h = c['g'], c['h']
    if not all(flags):
        return f'result flags (coordinate system kept, FoR kept, source untouched, same class, channels) = {flags}'
    if geom[0] != h['shape']:
        return f'result shape {geom[0]} != target shape {h["shape"]}'
    B = g_affine(h)
    R = np.eye(4)
    for j in range(3):
        R[:3, j] = geom[1 + j]
    R[:3, 3] = geom[4]
    scale = max(1.0, float(np.abs(B[:3, :3]).max()))
    # accepted-within-tolerance targets: match_geometry's tolerances are in voxel / ratio / unit-vector units,
    # so the result may differ from the target by tol x spacing (judged with 3 x tol x spacing)
    atol = 1e-7 * max(1.0, float(np.abs(B).max())) if exp == 'ok' else 3e-5 * scale * (
        float(F(c['tol'])) / 1e-5 if c.get('tol') else 1.0)
    if not np.allclose(R, B, rtol=0.0, atol=atol):
        return (f'result affine differs from the target affine by {float(np.abs(R - B).max()):.3g} '
                f'(allowed {atol:.3g}); pert={c.get("pert")}')
    if geo:
        return None
    # voxel identity through physical space: target voxel centre -> source index
    labels = np.array(out[1], dtype=np.int64).reshape(h['shape'])
    A = g_affine(g)
    n = g['shape']
    vt = 1e-6 if exp == 'ok' else 0.45     # accepted-within-tolerance: nearest source voxel must be unambiguous
    for idx in itertools.product(*[range(s) for s in h['shape']]):
        x = B[:3, :3] @ np.array(idx, dtype=float) + B[:3, 3]
        s = np.linalg.solve(A[:3, :3], x - A[:3, 3])
        r = np.rint(s)
        if np.abs(s - r).max() > vt:
            return f'target voxel {idx} does not fall on a source voxel centre (source index {s.tolist()})'
        if all(0 <= r[d] < n[d] for d in range(3)):
            want = 1 + int((r[0] * n[1] + r[1]) * n[2] + r[2])
        else:
            want = 0
        if labels[idx] != want:
            return (f'voxel {idx} of the result holds label {int(labels[idx])}, the source voxel at the same '
                    f'physical position is {want} (0 = outside the source)')
    return None


def _oracle_points(c, out):
    import numpy as np
    g, h = c['g'], c['h']
    A, B = g_affine(g), g_affine(h)
    r2i = c['kind'].startswith('r2i')
    pts = np.array([[float(F(v)) for v in p] for p in c['pts']], dtype=float)
    if c.get('int_input'):
        pts = np.rint(pts)
    phys = pts if r2i else (A[:3, :3] @ pts.T).T + A[:3, 3]
    idx = np.linalg.solve(B[:3, :3], (phys - B[:3, 3]).T).T
    n = np.array(h['shape'], dtype=float)
    dyadic = c['kind'].endswith('boundary')
    eps = 0.0 if dyadic else 1e-7
    if c['round'] and not r2i:
        chk = np.rint(idx)          # v2v checks what it returns
    else:
        chk = idx
    strictly_out = bool(((chk < -0.5 - eps) | (chk > n - 0.5 + eps)).any())
    on_or_out = bool(((idx <= -0.5 + eps) | (idx >= n - 0.5 - eps)).any())
    if isinstance(out, Err):
        want_kind = 'RuntimeError' if r2i else 'ValueError'
        if not c['check']:
            return f'raised {out} without check_bounds'
        if out.kind != want_kind:
            return f'bounds failure raised {out.kind}, expected {want_kind}'
        if not on_or_out:
            return f'bounds check failed although every point lies inside the target (indices {idx.tolist()})'
        return None
    if c['check'] and strictly_out:
        return f'bounds check passed although a point lies outside the target (indices {idx.tolist()})'
    got = np.array(out, dtype=float).reshape(-1, 3)
    want = idx
    if c['round']:
        want = np.rint(idx)
        if not dyadic:
            pass
    if got.shape != want.shape or not np.allclose(got, want, rtol=0, atol=1e-6 * max(1.0, float(np.abs(want).max()))):
        return f'indices {got.tolist()} differ from mapping through physical space {want.tolist()}'
    return None


def _oracle_match_mode(c, out):
    """geometry as for the plain match; voxel VALUES per pad mode, through physical coordinates"""
    import numpy as np
    exp = c['expect']
    if isinstance(out, Err) or exp == 'refuse':
        return _oracle_match(c, out)
    geom, vals, flags = out
    msg = _oracle_match(dict(c, src_kind='geometry'), [geom, [True]])
    if msg:
        return msg
    if flags != [True]:
        return (f'result.geometry_equal(target{"" if _geq_T(c) is None else ", tol=%g" % _geq_T(c)}) is False after a '
                f'successful match (pert={c.get("pert")})')
    g, h = c['g'], c['h']
    A, B = g_affine(g), g_affine(h)
    n = g['shape']
    N = n[0] * n[1] * n[2]
    vals = np.array(vals, dtype=float).reshape(h['shape'])
    vt = 1e-6 if exp == 'ok' else 0.45
    padv = {'CONSTANT': float(F(c['cval'])), 'MINIMUM': 1.0, 'MAXIMUM': float(N), 'MEAN': (N + 1) / 2,
            'MEDIAN': (N + 1) / 2}.get(c['mode'])
    for idx in itertools.product(*[range(x) for x in h['shape']]):
        x = B[:3, :3] @ np.array(idx, dtype=float) + B[:3, 3]
        s = np.linalg.solve(A[:3, :3], x - A[:3, 3])
        r = np.rint(s)
        if np.abs(s - r).max() > vt:
            return f'target voxel {idx} does not fall on a source voxel centre (source index {s.tolist()})'
        inside = all(0 <= r[d] < n[d] for d in range(3))
        if not inside and c['mode'] == 'EDGE':
            r = np.array([min(max(r[d], 0), n[d] - 1) for d in range(3)])
        if inside or c['mode'] == 'EDGE':
            want = 1.0 + (r[0] * n[1] + r[1]) * n[2] + r[2]
        else:
            want = padv
        if vals[idx] != want:
            return (f'voxel {idx} of the result holds {vals[idx]}, expected {want} (mode {c["mode"]}, '
                    f'{"inside" if inside else "outside"} the source, source index {r.tolist()})')
    return None


def _oracle_points_ext(c, out):
    import numpy as np
    g, h = c['g'], c['h']
    A, B = g_affine(g), g_affine(h)
    k = c['kind']
    pts = np.array([[float(F(v)) for v in p] for p in c['pts']], dtype=float).reshape(-1, 3)
    if c.get('int_input'):
        pts = np.rint(pts)
    if k == 'v2v_affine':
        if isinstance(out, Err):
            return f'transformer affine raised {out}'
        T = np.linalg.solve(B, A)
        got = np.array(out, dtype=float).T          # 3 x 4
        if not np.allclose(got, T[:3, :], rtol=1e-9, atol=1e-7 * max(1.0, float(np.abs(T).max()))):
            return f'transformer affine {got.tolist()} is not inv(B).A {T[:3].tolist()}'
        return None
    if k == 'i2r':
        if isinstance(out, Err):
            return f'map_indices_to_reference raised {out}'
        want = (A[:3, :3] @ pts.T).T + A[:3, 3]
        got = np.array(out, dtype=float).reshape(-1, 3)
        if got.shape != want.shape or not np.allclose(got, want, rtol=1e-12, atol=1e-9 * max(1.0, float(np.abs(want).max()))):
            return f'map_indices_to_reference gave {got.tolist()}, expected {want.tolist()}'
        return None
    # via_phys: each route judged on its own, then against each other
    direct, via = out
    m1 = _oracle_points(dict(c, kind=c.get('orig_kind', 'v2v')), direct)
    if m1:
        return 'transformer: ' + m1
    phys = (A[:3, :3] @ pts.T).T + A[:3, 3]
    c2 = dict(c, kind='r2i_boundary' if c.get('orig_kind') == 'v2v_boundary' else 'r2i',
              pts=[[str(F(float(v))) for v in p] for p in phys.tolist()], int_input=False)
    m2 = _oracle_points(c2, via)
    if m2:
        return 'physical route: ' + m2
    if isinstance(direct, Err) or isinstance(via, Err):
        if isinstance(via, Err) and not isinstance(direct, Err):
            return 'map_reference_to_indices refused points that the transformer accepted'
        if isinstance(direct, Err) and not isinstance(via, Err) and not c['round']:
            return 'the transformer refused points that the route through physical space accepted (no rounding)'
        return None
    d, v = np.array(direct, dtype=float), np.array(via, dtype=float)
    if d.shape != v.shape or not np.allclose(d, v, rtol=0, atol=1e-6 * max(1.0, float(np.abs(v).max()))):
        return f'transformer indices {d.tolist()} differ from the route through physical space {v.tolist()}'
    return None


def _oracle_dtype(c, out):
    """transformer on an index array of dtype in_dtype: the values are judged through physical coordinates exactly
    as for any other input (the dtype of the caller's array must not matter), the physical route likewise, both
    against each other; the returned array must be of a signed integer type when rounded, of a float type otherwise"""
    direct, via = out
    vals = direct
    if not isinstance(direct, Err):
        vals, code = direct
        want = 1 if c['round'] else 3
        if code // 100 != want:
            name = {1: 'int', 2: 'uint', 3: 'float'}.get(code // 100, 'other') + str(code % 100)
            return (f'{c["in_dtype"]} input, round_output={c["round"]}: the returned array has dtype {name}, '
                    f'expected {"a signed integer" if c["round"] else "a floating point"} type; values {vals}')
    msg = _oracle_points_ext(dict(c, kind='via_phys', orig_kind='v2v', int_input=False), [vals, via])
    return f'{c["in_dtype"]} input: {msg}' if msg else None


def _oracle_lowprec(c, out):
    """float16 / float32 index array.  Everything is recomputed in float64 through physical coordinates from the
    (exactly representable) points.  Rounded call: the returned int64 values must be rint() of that mapping and the
    bounds check must fail exactly when a rounded index leaves the target - whatever the precision of the input.
    Un-rounded call: each returned coordinate must be the float64 mapping correctly rounded to the input type (half
    an ulp of that type), returned in that type; the bounds check may fail only for points really outside and must
    fail for points outside by more than one ulp of the input type.  The physical route on the same array is a
    float64 computation (judged as such); both routes must accept / refuse alike."""
    import numpy as np
    direct, via = out
    g, h = c['g'], c['h']
    dt = np.dtype(c['in_dtype'])
    A, B = g_affine(g), g_affine(h)
    pts = np.array([[float(F(v)) for v in p] for p in c['pts']], dtype=np.float64).reshape(-1, 3)
    phys = (A[:3, :3] @ pts.T).T + A[:3, 3]
    idx = np.linalg.solve(B[:3, :3], (phys - B[:3, 3]).T).T
    n = np.array(h['shape'], dtype=np.float64)
    rounded = np.rint(idx)
    out_rounded = bool(((rounded < 0) | (rounded > n - 1)).any())
    out_exact = bool(((idx < -0.5) | (idx > n - 0.5)).any())
    who = f'{c["in_dtype"]} input, round_output={c["round"]}: '
    where = f' (mapping through physical space: {idx.tolist()}, target shape {h["shape"]})'
    # --- the transformer
    if isinstance(direct, Err):
        if not c['check']:
            return who + f'raised {direct} without check_bounds'
        if direct.kind != 'ValueError':
            return who + f'bounds failure raised {direct.kind}, expected ValueError'
        if not (out_rounded if c['round'] else out_exact):
            return who + 'bounds check failed although every point lies inside the target' + where
    else:
        vals, code = direct
        want_code = 164 if c['round'] else 300 + 8 * dt.itemsize
        if code != want_code:
            return who + f'returned array has dtype code {code}, expected {want_code} (kind*100 + bits)'
        got = np.array(vals, dtype=np.float64).reshape(-1, 3)
        if got.shape != idx.shape:
            return who + f'returned shape {got.shape}'
        if c['round']:
            if c['check'] and out_rounded:
                return who + 'bounds check passed although a rounded index lies outside the target' + where
            if not np.array_equal(got, rounded):
                bad = np.argwhere((got != rounded).any(axis=1)).ravel()[0]
                return (who + f'point {pts[bad].tolist()} mapped to voxel {got[bad].tolist()}, through physical '
                        f'space it is {rounded[bad].tolist()} (continuous {idx[bad].tolist()})')
        else:
            ulp = np.spacing(np.abs(idx).astype(dt)).astype(np.float64)
            tolv = 0.5 * ulp * (1 + 1e-6) + 1e-9 * np.maximum(1.0, np.abs(idx))
            if not (np.abs(got - idx) <= tolv).all():
                return who + f'indices {got.tolist()} are not the mapping through physical space rounded to the input type' + where
            if c['check']:
                lo_u = float(np.spacing(dt.type(0.5)))
                hi_u = np.spacing(np.abs(n - 0.5).astype(dt)).astype(np.float64)
                if bool(((idx < -0.5 - lo_u) | (idx > n - 0.5 + hi_u)).any()):
                    return who + 'bounds check passed although a point lies outside the target' + where
    # --- the route through physical space on the same array
    if isinstance(via, Err):
        if not c['check'] or via.kind != 'RuntimeError' or not out_exact:
            return who + f'map_reference_to_indices raised {via} (check_bounds={c["check"]})' + where
    else:
        gv = np.array(via, dtype=np.float64).reshape(-1, 3)
        if c['check'] and out_exact:
            return who + 'map_reference_to_indices passed a point outside the target' + where
        wantv = rounded if c['round'] else idx
        if gv.shape != wantv.shape or not np.allclose(gv, wantv, rtol=0, atol=1e-9 * max(1.0, float(np.abs(idx).max()))):
            return who + f'physical route gave {gv.tolist()}' + where
    # --- against each other (no rounding ties are drawn: out_rounded == out_exact)
    if c['round'] and isinstance(direct, Err) != isinstance(via, Err):
        return who + (f'the transformer {"refused" if isinstance(direct, Err) else "accepted"} a point set that the '
                      f'route through physical space {"refused" if isinstance(via, Err) else "accepted"}') + where
    if not c['round'] and isinstance(via, Err) and not isinstance(direct, Err) and c['check']:
        pass        # outside by less than one ulp of the input type: the returned (cast) value lies on the face
    return None


def oracle(c, out):
    k = c['kind']
    if k.startswith('geq'):
        return _oracle_geq(c, out)
    if k == 'match_mode':
        return _oracle_match_mode(c, out)
    if k in ('v2v_affine', 'i2r', 'via_phys'):
        return _oracle_points_ext(c, out)
    if k in ('v2v_dtype', 'v2v_unsigned_neg'):
        return _oracle_dtype(c, out)
    if k == 'v2v_lowprec':
        return _oracle_lowprec(c, out)
    if k.startswith('match'):
        return _oracle_match(c, out)
    if k == 'bad_points':
        if c['bad'] == 'empty_check':
            # an empty point set has no point outside; numpy's zero-size reduction raises ValueError in both
            # implementations.  Outside the property's quantifier (point sets inside/on/outside); recorded only.
            return None
        return None if out == Err('ValueError') else f'malformed point array ({c["bad"]}) gave {out}'
    return _oracle_points(c, out)


def nontrivial(c, out):
    g = c['g']
    nvox = g['shape'][0] * g['shape'][1] * g['shape'][2]
    if c['kind'].startswith('match'):
        return nvox > 1
    if c['kind'].startswith('geq'):
        return True
    if c['kind'] == 'v2v_unsigned_neg':
        # an unsigned index array with at least one image before the first voxel of the target
        return c['in_dtype'] in UNSIGNED and any(
            v < F(-1, 2) for p in c['pts'] for v in _exact_index(c['g'], c['h'], [F(x) for x in p]))
    if c['kind'] == 'v2v_lowprec':
        # >= 1 image coordinate at which the input type resolves less than 2^-10 voxel
        pb = FBITS[c['in_dtype']]
        return any(abs(v) >= 2 ** (pb - 10) for p in c['pts'] for v in _exact_index(c['g'], c['h'], [F(x) for x in p]))
    return len(c['pts']) >= 1


def shrink(c):
    k = c['kind']
    if 'pts' in c and len(c['pts']) > 1:
        for i in range(len(c['pts'])):
            yield dict(c, pts=c['pts'][:i] + c['pts'][i + 1:])
    if k in ('match_direct', 'match_outside') and 'spec' in c:
        sp = c['spec']
        g = c['g']
        for d in range(3):
            j = sp['sigma'][d]
            if g['shape'][j] > 1:
                g2 = dict(g, shape=[s - 1 if i == j else s for i, s in enumerate(g['shape'])])
                yield dict(c, g=g2, h=derive_target(g2, sp['sigma'], sp['k'], sp['a'], sp['m'],
                                                    **{'for': c['h']['for'], 'cs': c['h']['cs']}))
            if sp['m'][d] > 1:
                sp2 = dict(sp, m=[x - 1 if i == d else x for i, x in enumerate(sp['m'])])
                yield dict(c, spec=sp2, h=derive_target(g, sp2['sigma'], sp2['k'], sp2['a'], sp2['m'],
                                                        **{'for': c['h']['for'], 'cs': c['h']['cs']}))
        if c.get('channels'):
            yield dict(c, channels=0)
    if k == 'match_chain' and len(c.get('ops', [])) > 1:
        # drop the last op and recompute the target by replaying the exact bookkeeping is not possible here;
        # shrink only the representation
        if c.get('channels'):
            yield dict(c, channels=0)


FINDINGS = {}

if __name__ == '__main__':
    sys.exit(common.main(sys.modules[__name__]))
