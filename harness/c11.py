"""C11 - slice stacks are recognised, ordered and assembled correctly.

Implementation functions driven (real code from /repo/src):
  spatial.get_normal_vector, get_volume_positions, get_series_volume_positions,
  get_plane_sort_index, sort_datasets (get_dataset_sort_index),
  image.get_volume_from_series, Image.get_volume / get_volume_geometry on
  synthetic enhanced multi-frame CT datasets; Image.get_volume_geometry and
  Segmentation.get_volume_geometry with every combination of passed / defaulted
  allow_missing_positions x allow_duplicate_positions (kind mf_geometry);
  get_volume_positions on the same stack in two orders (kind order_pair, both
  orders evaluated by the model) and on integer-typed positions (int_positions);
  every entry point that forwards rtol / atol on stacks whose irregularity lies
  between the two readings of the tolerance value (kind tol_forward);
  ONE Image / Segmentation object asked a list of get_volume_geometry /
  get_volume queries (Image.get_volume, Segmentation.get_volume with frames of
  one plane in different segments) one after the other (kind mf_history);
  Image / Segmentation objects whose plane orientation and / or pixel measures (PixelSpacing,
  SpacingBetweenSlices) are stored PER FRAME - all frames agreeing, or one / several frames with another
  orientation (antiparallel, rotated in plane, perpendicular, tilted), pixel spacing or spacing hint - asked
  get_volume_geometry / get_volume, in two frame orders (kind mf_perframe).
Model: coq/theories/C11_Model.v; theorems: C11_Props.v.

The oracle is independent of the model: every stack is generated from ideal
integer ranks k_i, a spacing s, per-plane jitter along the normal and lateral
(in-plane) offsets; `_spec` decides by exact Fraction arithmetic on those 1-D
quantities whether the stack is regular (monotone equal spacing within tolerance,
declared duplicates and gaps, shear) and which index every plane must get; a
numpy check verifies the returned indices against the float positions."""
import itertools
import math
import os
import sys
from fractions import Fraction as F

sys.path.insert(0, os.path.dirname(os.path.abspath(__file__)))
import common
from common import Err, catch, zlit, qlit

PROPERTY = 'C11'
PROPS_FILE = 'C11_Props.v'
COQ_IMPORTS = ['C11_Model']
TOL = F(1, 10**9)
ORACLE_PREMISES = [
    'float64 arithmetic of numpy (dot products, differences, division, np.isclose) decides like the exact '
    'rational model on inputs that are not within 1e-6 (relative) of a tolerance threshold; such inputs are '
    'excluded by construction and the ones the spec cannot decide are counted as trivial',
    'np.unique(axis=0) = lexicographically sorted distinct rows; np.argsort orders distinct distances (it is NOT stable: '
    'planes at equal distance come out in unspecified order; cases whose outcome depends on that order are oracle-only)',
    'the perpendicularity test |n.span/|span| -+ 1| < tol is modelled in squared form (equivalent over the reals)',
    'pydicom attribute access, the SQLite frame table and pixel decoding of native int16 frames are exercised, not modelled',
]
MODELLED = ('spatial.get_normal_vector, _normalize_pixel_index_convention, _get_slice_distances, '
            'get_volume_positions (all branches), get_series_volume_positions, get_plane_sort_index, '
            'get_dataset_sort_index/sort_datasets; image.get_volume_from_series (ordering, spacing, origin, slice '
            'axis), _Image._get_stacked_volume_geometry + get_volume (frame placement, gaps, origin, slice axis), '
            'Image.get_volume_geometry / Segmentation.get_volume_geometry -> _get_volume_geometry (class defaults of '
            'allow_missing_positions / allow_duplicate_positions, forwarding of both declarations, RuntimeError -> '
            'None, number of slices, spacing, origin, slice axis); Image.get_volume / Segmentation.get_volume '
            '(stacked branch: frames identified by (position, segment), _prepare_volume_positions_table, which frame '
            'lands in which slice x channel); a sequence of queries on one object = the list of the stateless answers; '
            '_Image._get_shared_frame_value as used by _get_stacked_volume_geometry (THE ImageOrientationPatient / '
            'PixelSpacing / SpacingBetweenSlices of the frames: exactly one distinct row in the frame table, else '
            'RuntimeError), frame table filled from shared or per-frame functional groups')
STRATA = ['perm_all', 'regular', 'unsorted', 'dups', 'gaps', 'jitter', 'shear', 'scrambled', 'inplane', 'hint',
          'malformed', 'normal', 'series', 'plane_sort', 'sort_datasets', 'vol_series', 'vol_multiframe',
          'mf_geometry', 'order_pair', 'int_positions', 'tol_forward', 'mf_history', 'mf_perframe']
NOT_EXECUTED = ['Segmentation.get_volume options other than rtol / atol / allow_missing_positions (segment selection, '
                'combine_segments, relabel: C01/C02 harnesses)',
                'tiled (slide coordinate system) branch of get_volume: no stacking involved',
                'slice_start / slice_end / as_indices of Image.get_volume (index standardisation: C03)',
                'single-frame branch of _get_volume_geometry (one plane: no stack to recognise)']
RULE = ('stacks of n <= 8 planes (<= 12 thorough) from integer ranks x spacing along the normal of 24 axis-aligned '
        'and 8 oblique rational orientations, 8 index conventions x 2 handedness; every permutation for n <= 4 '
        '(<= 5 thorough) and random permutations above; duplicates, gaps, jitter at 0.25/0.5/2/3 x tolerance '
        '(rtol or atol), shear below/above the perpendicularity tolerance, interior planes translated in-plane '
        '(np.unique order != normal order), planes at equal distance, hints that '
        'match / mismatch / are negative / zero, sort on and off, enforce_handedness, each guard violated in the '
        'malformed stream; series of single-frame CT datasets and enhanced multi-frame CT datasets built from the '
        'same stacks, every instance / frame with its own dyadic RescaleSlope/Intercept and distinct stored pixels, '
        'apply_modality_transform default/True/False, the whole assembled array compared with the ground truth '
        'stored_k*slope_k+intercept_k at the sorted index; mf_geometry: multi-frame images (enhanced CT through '
        'Image, binary segmentation through Segmentation) whose frames share planes (every plane several frames / one '
        'repeated frame / all coincident), with gaps, both, jitter, shear, hints, queried through get_volume_geometry '
        'with allow_missing_positions and allow_duplicate_positions each passed True / False / not passed (class '
        'default): the full 3 x 3 matrix x both classes on stacks with duplicates, duplicates and a gap, complete and '
        'with a gap, plus random ones; the same frames in a second order must give the identical geometry (the '
        'second order is a model-compared case of its own); order_pair: get_volume_positions on the same stack '
        '(regular, duplicates, gaps, jitter, shear, scrambled, hints, ties) in two orders, both model-compared, same '
        'verdict / spacing / per-plane index demanded; int_positions: integer-valued stacks passed as Python ints; '
        'tol_forward: spacing s outside (1/2, 2), one value t passed as rtol or as atol, one gap off by an amount '
        'between t and t x s (with declared gaps: the farthest plane off by between t and t x kmax spacings), or inside / '
        'outside both, through get_volume_positions, get_series_volume_positions, get_volume_from_series, '
        'Image.get_volume and Image / Segmentation.get_volume_geometry; mf_history: one Image (enhanced CT) or '
        'Segmentation (frames of one plane in different segments, now and then in the same one) with several frames '
        'per plane / a gap / both / a gap off by between two tolerances / complete, asked 2-8 queries in a row '
        '(get_volume_geometry with allow_missing_positions x allow_duplicate_positions x rtol / atol passed or not, '
        'get_volume with allow_missing_positions x rtol / atol), always containing two queries that differ only in '
        'the argument that decides this stack, in either order, often the first query again at the end and a '
        'get_volume after geometry queries; every answer judged on its own from the stack and the arguments of '
        'that query, identical queries must get identical answers, assembled arrays checked frame by frame; '
        'mf_perframe: the same objects with PlaneOrientationSequence and / or PixelMeasuresSequence moved from the '
        'shared to the per-frame functional groups: every frame the same values (must behave exactly like shared '
        'values), or the first / a middle / the last / several / all but one frame with another orientation '
        '(row and column cosines exchanged, rotated 90 degrees in plane, mirrored, perpendicular plane differing '
        'in the row or in the column cosines only, tilted), another PixelSpacing (both / first / second value, '
        'exchanged) or another SpacingBetweenSlices, positions still a regular stack along the normal of the '
        'majority orientation; get_volume_geometry must be None and get_volume refuse (RuntimeError) whichever '
        'frame comes first; every case also with its frames in a second order; in-plane axes of the returned '
        'affine observed. '
        'non-trivial = more than one distinct plane and the spec decides the case (not within 1e-6 of '
        'a threshold); distinct by case hash')
EXHAUSTIVE = {'quick': False, 'thorough': False}

# --------------------------------------------------------------------------
# orientations (exact rationals)
# --------------------------------------------------------------------------
_ax = [(1, 0, 0), (0, 1, 0), (0, 0, 1)]
AXIS_ORIENTS = []
for _i, _j in itertools.permutations(range(3), 2):
    for _si in (1, -1):
        for _sj in (1, -1):
            AXIS_ORIENTS.append((tuple(F(_si * x) for x in _ax[_i]), tuple(F(_sj * x) for x in _ax[_j])))
OBLIQUE_ORIENTS = [
    ((F(3, 5), F(4, 5), F(0)), (F(-4, 5), F(3, 5), F(0))),
    ((F(3, 5), F(0), F(4, 5)), (F(0), F(1), F(0))),
    ((F(1), F(0), F(0)), (F(0), F(3, 5), F(-4, 5))),
    ((F(2, 3), F(2, 3), F(1, 3)), (F(-2, 3), F(1, 3), F(2, 3))),
    ((F(5, 13), F(12, 13), F(0)), (F(12, 13), F(-5, 13), F(0))),
    ((F(0), F(5, 13), F(12, 13)), (F(1), F(0), F(0))),
    ((F(2, 7), F(3, 7), F(6, 7)), (F(3, 7), F(-6, 7), F(2, 7))),
    ((F(-4, 5), F(0), F(3, 5)), (F(0), F(-1), F(0))),
]
CONVS = ['RD', 'DR', 'LD', 'DL', 'RU', 'UR', 'LU', 'UL']
BAD_CONVS = ['RL', 'UD', 'RR', 'DD', 'LR', 'DU']


def _cross(a, b):
    return (a[1] * b[2] - a[2] * b[1], a[2] * b[0] - a[0] * b[2], a[0] * b[1] - a[1] * b[0])


def _dotf(a, b):
    return sum(x * y for x, y in zip(a, b))


def _den(v):
    d = 1
    for x in v:
        d = d * F(x).denominator // math.gcd(d, F(x).denominator)
    return d


def _sign_for(rc, cc, conv, hand):
    """+1 if the requested positive normal is cross(rowcos, colcos), -1 otherwise.
    Independent definition: the frame (e0, e1, n) built from the two in-plane index
    directions and the normal must have determinant +1 (right) / -1 (left)."""
    import numpy as np
    r = np.array([float(x) for x in rc])
    c = np.array([float(x) for x in cc])
    e = {'R': r, 'L': -r, 'D': c, 'U': -c}
    u = np.cross(r, c)
    det = np.linalg.det(np.column_stack([e[conv[0]], e[conv[1]], u]))
    want = 1.0 if hand == 'R' else -1.0
    return 1 if det * want > 0 else -1


# --------------------------------------------------------------------------
# case construction
# --------------------------------------------------------------------------
def _fs(xs):
    return [str(F(x)) for x in xs]


def _mk(rng, kind, ranks, rc=None, cc=None, jit=None, lat=None, s=None, opts=None, conv=None, hand=None,
        dyadic=True, note=''):
    """Build a gvp-style case from ideal ranks."""
    if rc is None:
        rc, cc = rng.choice(AXIS_ORIENTS if rng.random() < 0.5 else OBLIQUE_ORIENTS)
    u = _cross(rc, cc)
    q = _den(u)
    if s is None:
        if dyadic or q > 1:
            s = F(q * rng.randint(1, 24), rng.choice([1, 2, 4, 8]))
        else:
            s = F(rng.choice([7, 13, 25, 31, 123]), rng.choice([10, 100]))
    s = F(s)
    n = len(ranks)
    jit = [F(0)] * n if jit is None else [F(x) for x in jit]
    lat = [F(0)] * n if lat is None else [F(x) for x in lat]
    org = [F(rng.randint(-400, 400), rng.choice([1, 2, 4])) for _ in range(3)]
    pos = []
    for k, j, l in zip(ranks, jit, lat):
        a = k * s + j
        pos.append([float(org[i] + a * u[i] + l * rc[i]) for i in range(3)])
    o = {'rtol': None, 'atol': None, 'sort': True, 'missing': False, 'dups': False, 'hint': None,
         'enforce': False}
    o.update(opts or {})
    return {'kind': kind, 'rc': _fs(rc), 'cc': _fs(cc), 'conv': conv or rng.choice(CONVS),
            'hand': hand or rng.choice(['R', 'L']), 'pos': pos, 'opts': o,
            'meta': {'k': list(ranks), 's': str(s), 'jit': _fs(jit), 'lat': _fs(lat), 'note': note}}


def _stored(fid, rows, cols):
    return [[10 * fid + r * cols + q for q in range(cols)] for r in range(rows)]


def _add_rescale(rng, c):
    """every instance / frame gets its own dyadic RescaleSlope / RescaleIntercept (PET-like) and distinct
    stored pixels; apply_modality_transform default / True / False.  The transformed frames are
    pairwise distinct so that every slice of the assembled array identifies its source."""
    n = len(c['pos'])
    if rng.random() < 0.15:
        c['resc'], c['amt'] = None, rng.choice([None, False])
        return
    while True:
        resc = [[rng.choice([0.25, 0.5, 1.0, 1.5, 2.0, 4.0]), rng.choice([-2.0, 0.0, 0.5, 3.0, 8.0, 100.0])]
                for _ in range(n)]
        if rng.random() < 0.1:
            resc = [resc[0]] * n
        vals = [tuple(v * sl + ic for row in _stored(i + 1, c['rows'], c['cols']) for v in row)
                for i, (sl, ic) in enumerate(resc)]
        if len(set(vals)) == n:
            break
    c['resc'], c['amt'] = resc, rng.choice([None, None, True, False])


def _tol(rng):
    """(rtol, atol) as floats or None; dyadic so that Fraction(float) is small."""
    r = rng.random()
    if r < 0.35:
        return None, None
    if r < 0.65:
        return rng.choice([1 / 64, 1 / 16, 1 / 128, 0.02]), None
    return None, rng.choice([1 / 32, 1 / 8, 0.05, 1 / 512])


def _tol_abs(rtol, atol, s):
    """absolute tolerance on a spacing of size s in the regular branch"""
    if atol is not None:
        return F(atol)
    return (F(rtol) if rtol is not None else F(1, 100)) * s


def _perm(rng, n):
    p = list(range(n))
    rng.shuffle(p)
    return p


def gen_cases(rng, tier):
    cases = []
    nmax = {'quick': 8, 'thorough': 12, 'search': 8}[tier]
    pmax = {'quick': 4, 'thorough': 5, 'search': 5}[tier]
    N = {'quick': 60, 'thorough': 1000, 'search': 400}[tier]

    # -- every permutation of small regular stacks, both sort modes
    for n in range(1, pmax + 1):
        for p in itertools.permutations(range(n)):
            for sort in (True, False):
                cases.append(_mk(rng, 'perm_all', list(p), opts={'sort': sort, 'enforce': rng.random() < 0.5}))
    # -- regular stacks, random permutations, options
    for _ in range(N):
        n = rng.randint(1, nmax)
        rt, at = _tol(rng)
        k0 = rng.randint(-3, 3)
        cases.append(_mk(rng, 'regular', [k0 + k for k in _perm(rng, n)], dyadic=rng.random() < 0.7,
                         opts={'rtol': rt, 'atol': at, 'missing': rng.random() < 0.3,
                               'dups': rng.random() < 0.3}))
    # -- sort=False: monotone up / down / one swap / random, enforce_handedness
    for _ in range(N):
        n = rng.randint(2, nmax)
        mode = rng.choice(['up', 'down', 'swap', 'rand', 'up', 'down'])
        ks = list(range(n))
        if mode == 'down':
            ks.reverse()
        elif mode == 'swap' and n > 2:
            i = rng.randrange(n - 1)
            ks[i], ks[i + 1] = ks[i + 1], ks[i]
        elif mode == 'rand':
            ks = _perm(rng, n)
        rt, at = _tol(rng)
        cases.append(_mk(rng, 'unsorted', ks, note=mode,
                         opts={'sort': False, 'enforce': rng.random() < 0.5, 'rtol': rt, 'atol': at,
                               'hint': None}))
    # -- duplicates
    for _ in range(N):
        n = rng.randint(1, nmax - 1)
        ks = _perm(rng, n)
        for _d in range(rng.randint(1, 3)):
            ks.insert(rng.randrange(len(ks) + 1), rng.choice(ks))
        if rng.random() < 0.15:
            ks = [ks[0]] * rng.randint(2, 4)           # all coincident
        cases.append(_mk(rng, 'dups', ks, opts={'dups': rng.random() < 0.6, 'missing': rng.random() < 0.3,
                                                'hint': None}))
    # -- gaps
    for _ in range(N):
        n = rng.randint(3, nmax + 2)
        ks = _perm(rng, n)
        drop = rng.sample(range(n), rng.randint(1, max(1, n // 3)))
        ks = [k for k in ks if k not in drop] or [0, 2]
        if rng.random() < 0.2:
            ks = [2 * k for k in ks]                     # only even ranks present
        rt, at = _tol(rng)
        s_h = None
        c = _mk(rng, 'gaps', ks, opts={'missing': rng.random() < 0.65, 'rtol': rt, 'atol': at})
        if rng.random() < 0.4:
            c['opts']['hint'] = float(F(c['meta']['s']) * rng.choice([1, 1, 1, 2, F(1, 2)]))
        cases.append(c)
    # -- jitter along the normal at fractions of the tolerance
    for _ in range(N):
        n = rng.randint(3, nmax)
        ks = _perm(rng, n)
        rt, at = _tol(rng)
        c = _mk(rng, 'jitter', ks, opts={'rtol': rt, 'atol': at})
        s = F(c['meta']['s'])
        missing = rng.random() < 0.25
        if missing:
            # tolerance applies to the multiple (index units): atol + rtol * index
            base = (F(at) if at is not None else (F(rt) if rt is not None else F(1, 100))) * s
        else:
            base = _tol_abs(rt, at, s)
        f = rng.choice([F(1, 4), F(1, 2), F(2), F(3)]) * rng.choice([1, -1])
        jit = [F(0)] * n
        who = rng.randrange(n)
        jit[who] = f * base if base < s / 3 else f * s / 8
        c = _mk(rng, 'jitter', ks, rc=[F(x) for x in c['rc']], cc=[F(x) for x in c['cc']], jit=jit, s=s,
                opts={'rtol': rt, 'atol': at, 'missing': missing}, note=f'{f}x tol on rank {ks[who]}')
        cases.append(c)
    # -- shear: lateral offset proportional to rank
    for _ in range(N):
        n = rng.randint(2, nmax)
        ks = _perm(rng, n)
        c0 = _mk(rng, 'shear', ks)
        s = F(c0['meta']['s'])
        # tan(angle): cos = 1/sqrt(1+t^2); threshold cos = 0.999 <=> t = 0.04473...
        t = rng.choice([F(1, 100), F(1, 50), F(1, 32), F(1, 16), F(1, 8), F(1, 2), F(1)])
        lat = [k * s * t for k in ks]
        cases.append(_mk(rng, 'shear', ks, rc=[F(x) for x in c0['rc']], cc=[F(x) for x in c0['cc']], lat=lat, s=s,
                         opts={'sort': rng.random() < 0.8, 'missing': False}, note=f'tan={t}'))
    # -- interior planes translated in-plane (only the first-to-last vector is tested for shear): the
    #    lexicographic order of np.unique differs from the order along the normal
    for _ in range(N):
        n = rng.randint(3, nmax)
        ks = _perm(rng, n)
        c0 = _mk(rng, 'scrambled', ks)
        s = F(c0['meta']['s'])
        lat = [F(0) if k in (0, n - 1) else F(rng.randint(-12, 12), 2) * s for k in ks]
        if rng.random() < 0.2:
            lat[ks.index(n - 1)] = s * rng.choice([F(1, 64), F(1, 2)])
        ks2, lat2 = list(ks), list(lat)
        if rng.random() < 0.3:
            j = rng.randrange(n)
            ks2.append(ks[j])
            lat2.append(lat[j])
        cases.append(_mk(rng, 'scrambled', ks2, rc=[F(x) for x in c0['rc']], cc=[F(x) for x in c0['cc']], lat=lat2,
                         s=s, opts={'dups': rng.random() < 0.7, 'missing': rng.random() < 0.3}))
    # -- in-plane translated planes (ties in distance); axis-aligned + dyadic only (exact floats)
    for _ in range(N // 2 + 1):
        n = rng.randint(2, 6)
        ks = _perm(rng, n)
        ks.insert(rng.randrange(n + 1), rng.choice(ks))
        lat = [F(0)] * len(ks)
        lat[rng.randrange(len(ks))] = F(rng.randint(1, 9), 2)
        rc, cc = rng.choice(AXIS_ORIENTS)
        cases.append(_mk(rng, 'inplane', ks, rc=rc, cc=cc, lat=lat,
                         opts={'dups': rng.random() < 0.5, 'missing': rng.random() < 0.5,
                               'atol': rng.choice([None, None, 1 / 8])}))
    # -- spacing hints
    for _ in range(N):
        n = rng.randint(1, nmax)
        ks = _perm(rng, n)
        c = _mk(rng, 'hint', ks, opts={'missing': rng.random() < 0.4, 'sort': rng.random() < 0.85})
        if not c['opts']['sort']:
            c['opts']['missing'] = False
        s = F(c['meta']['s'])
        c['opts']['hint'] = float(s * rng.choice([1, 1, -1, F(3, 2), F(1, 2), 2, F(1001, 1000), F(9, 8)]))
        cases.append(c)
    # -- malformed stream: every guard violated
    for _ in range(max(24, N // 2)):
        n = rng.randint(0, 4)
        c = _mk(rng, 'malformed', _perm(rng, n))
        bad = rng.choice(['nosort_dups', 'nosort_missing', 'hint0', 'both_tol', 'conv', 'empty', 'conv_n1'])
        if bad == 'nosort_dups':
            c['opts'].update(sort=False, dups=True)
        elif bad == 'nosort_missing':
            c['opts'].update(sort=False, missing=True)
        elif bad == 'hint0':
            c['opts'].update(hint=0.0)
        elif bad == 'both_tol':
            c['opts'].update(rtol=1 / 64, atol=1 / 8)
        elif bad == 'conv':
            c['conv'] = rng.choice(BAD_CONVS)
        elif bad == 'empty':
            c['pos'], c['meta']['k'], c['meta']['jit'], c['meta']['lat'] = [], [], [], []
        elif bad == 'conv_n1':
            c = _mk(rng, 'malformed', [0], conv=rng.choice(BAD_CONVS))
        c['meta']['note'] = bad
        cases.append(c)
    # -- get_normal_vector for every convention x handedness
    for rc, cc in AXIS_ORIENTS[:6] + OBLIQUE_ORIENTS if tier == 'quick' else AXIS_ORIENTS + OBLIQUE_ORIENTS:
        for conv in CONVS + BAD_CONVS[:2]:
            for hand in 'RL':
                cases.append({'kind': 'normal', 'rc': _fs(rc), 'cc': _fs(cc), 'conv': conv, 'hand': hand})
    # -- order_invariant, model-compared on BOTH orders: the same get_volume_positions stack (regular or not:
    #    duplicates, gaps, jitter, shear, scrambled, hints) passed in a second order; the model evaluates both
    #    orders (theorem C11_order_invariant), the oracle demands the same verdict / spacing and that every
    #    plane keeps its index
    pool = [c for c in cases if c['kind'] in ('regular', 'dups', 'gaps', 'jitter', 'shear', 'scrambled', 'hint',
                                              'inplane')
            and c['opts']['sort'] and len(c['pos']) >= 2]
    for c in rng.sample(pool, min(len(pool), N)):
        order = _perm(rng, len(c['pos']))
        if rng.random() < 0.25:
            order = list(reversed(range(len(c['pos']))))
        cases.append(dict(c, kind='order_pair', perm=order))
    # -- dataset level
    for _ in range(N):
        n = rng.randint(1, min(nmax, 8))
        mode = rng.choice(['ok', 'ok', 'ok', 'gap', 'dup', 'orient', 'hint', 'badhint', 'unsorted', 'jit'])
        ks = _perm(rng, n)
        o = {}
        if mode == 'gap' and n > 2:
            ks.remove(1)
            o['missing'] = rng.random() < 0.6
        if mode == 'dup':
            ks.append(ks[0])
            o['dups'] = rng.random() < 0.6
        if mode == 'unsorted':
            ks = sorted(ks, reverse=rng.random() < 0.5)
            o.update(sort=False, enforce=rng.random() < 0.5)
        elif rng.random() < 0.4:
            # the two declarations independently of what the stack contains
            o.setdefault('missing', rng.random() < 0.5)
            o.setdefault('dups', rng.random() < 0.5)
        c = _mk(rng, 'series', ks, opts=o, note=mode)
        s = F(c['meta']['s'])
        if mode == 'jit' and n > 2:
            jit = [F(0)] * len(ks)
            jit[rng.randrange(len(ks))] = s * rng.choice([F(1, 400), F(1, 20)])
            c = _mk(rng, 'series', ks, rc=[F(x) for x in c['rc']], cc=[F(x) for x in c['cc']], jit=jit, s=s, note=mode)
        c['ds_hint'] = float(s) if mode == 'hint' else float(2 * s) if mode == 'badhint' else None
        c['orient_break'] = rng.randrange(1, len(ks)) if mode == 'orient' and len(ks) > 1 else None
        cases.append(c)
    for _ in range(N // 2 + 1):
        n = rng.randint(1, nmax)
        k0 = rng.randint(-2, 2)
        ks = [k0 + k * rng.choice([1, 1, 2]) for k in _perm(rng, n)]
        ks = list(dict.fromkeys(ks))
        cases.append(_mk(rng, 'plane_sort', ks, dyadic=rng.random() < 0.7))
    for _ in range(N // 2 + 1):
        n = rng.randint(1, 6)
        c = _mk(rng, 'sort_datasets', _perm(rng, n))
        c['orient_break'] = rng.randrange(0, n) if rng.random() < 0.12 and n > 1 else None
        cases.append(c)
    for _ in range(N):
        n = rng.randint(1, 6)
        mode = rng.choice(['ok', 'ok', 'ok', 'ok', 'gap', 'dup', 'hint', 'badhint', 'orient', 'jit', 'shear', 'atol'])
        ks = _perm(rng, n)
        if mode == 'gap' and n > 2:
            ks.remove(1)
        if mode == 'dup':
            ks.append(ks[0])
        c = _mk(rng, 'vol_series', ks, conv='DR', hand='R', note=mode)
        s = F(c['meta']['s'])
        if mode in ('jit', 'shear') and n > 2:
            jit = [F(0)] * len(ks)
            lat = [F(0)] * len(ks)
            if mode == 'jit':
                jit[rng.randrange(len(ks))] = s * rng.choice([F(1, 400), F(1, 20)])
            else:
                lat = [k * s * rng.choice([F(1, 100), F(1, 4)]) for k in ks]
            c = _mk(rng, 'vol_series', ks, rc=[F(x) for x in c['rc']], cc=[F(x) for x in c['cc']], jit=jit, lat=lat,
                    s=s, conv='DR', hand='R', note=mode)
        if mode == 'atol':
            c['opts']['atol'] = 1 / 8
        c['ds_hint'] = float(s) if mode == 'hint' else float(2 * s) if mode == 'badhint' else None
        c['orient_break'] = rng.randrange(1, len(ks)) if mode == 'orient' and len(ks) > 1 else None
        c['rows'], c['cols'] = rng.randint(1, 3), rng.randint(1, 3)
        _add_rescale(rng, c)
        cases.append(c)
    for _ in range(N):
        n = rng.randint(2, 6)
        mode = rng.choice(['ok', 'ok', 'ok', 'gap', 'gap', 'dup', 'hint', 'badhint', 'jit', 'shear'])
        ks = _perm(rng, n + (1 if mode == 'gap' else 0))
        o = {'dups': True}
        if mode == 'gap':
            ks.remove(rng.choice([1, 1, max(ks) - 1])) if len(ks) > 2 else None
            o['missing'] = rng.random() < 0.7
        if mode == 'dup':
            ks.append(ks[0])
        c = _mk(rng, 'vol_multiframe', ks, opts=o, conv='DR', hand='R', note=mode)
        s = F(c['meta']['s'])
        if mode in ('jit', 'shear') and n > 2:
            jit = [F(0)] * len(ks)
            lat = [F(0)] * len(ks)
            if mode == 'jit':
                jit[rng.randrange(len(ks))] = s * rng.choice([F(1, 400), F(1, 20)])
            else:
                lat = [k * s * rng.choice([F(1, 100), F(1, 4)]) for k in ks]
            c = _mk(rng, 'vol_multiframe', ks, rc=[F(x) for x in c['rc']], cc=[F(x) for x in c['cc']], jit=jit,
                    lat=lat, s=s, opts=o, conv='DR', hand='R', note=mode)
        c['opts']['hint'] = float(s) if mode == 'hint' else float(2 * s) if mode == 'badhint' else None
        c['rows'], c['cols'] = rng.randint(1, 3), rng.randint(1, 3)
        _add_rescale(rng, c)
        cases.append(c)
    # -- geometry of a multi-frame image through the public entry points, with the two declarations
    #    (gaps / duplicates) each passed True / False / left to the default of the class
    tri = (None, True, False)
    for target in ('image', 'seg'):
        for km in tri:
            for kd in tri:
                for mode in ('dupall', 'dupgap', 'ok', 'gap'):
                    cases.append(_mk_geometry(rng, target, mode, km, kd, rng.randint(2, 4)))
    for _ in range(N):
        mode = rng.choice(['ok', 'dup', 'dup', 'dupall', 'dupall', 'gap', 'dupgap', 'dupgap', 'coincident', 'hint',
                           'badhint', 'jit', 'shear', 'single', 'bothtol'])
        cases.append(_mk_geometry(rng, 'seg' if rng.random() < 0.35 else 'image', mode, rng.choice(tri),
                                  rng.choice(tri), rng.randint(2, 6)))
    # -- the reordered frames of mf_geometry cases as cases of their own (so the model sees the second order too)
    for c in [c for c in cases if c['kind'] == 'mf_geometry' and c.get('perm_seed') is not None and len(c['pos']) > 1
              and (tier != 'quick' or c['perm_seed'] % 2 == 0)]:
        import random as _random
        order = list(range(len(c['pos'])))
        _random.Random(c['perm_seed']).shuffle(order)
        d = _permuted(c, order)
        d['perm_seed'] = None
        d['meta'] = dict(d['meta'], note=d['meta']['note'] + ' (frames reordered)')
        cases.append(d)
    # -- the tolerance that was REQUESTED is the one applied, through every entry point that forwards it:
    #    spacing s clearly != 1 and one gap off by an amount that lies BETWEEN the two readings of the same
    #    number t (t as a fraction of the spacing / t in mm; under declared gaps: t per index / t), or inside /
    #    outside both
    for via in ('gvp', 'series', 'vol_series', 'vol_multiframe', 'mf_geometry'):
        for _ in range(max(10, N // 4)):
            cases.append(_mk_tol(rng, via))
    # -- ONE multi-frame object asked several questions (get_volume_geometry / get_volume with different
    #    declarations and tolerances, repeated, interleaved): every answer must be the one the stack and the
    #    declarations of THAT question call for
    for target in ('image', 'seg'):
        for mode in ('dups', 'dups', 'gap', 'dupgap', 'tol', 'tol', 'ok'):
            for _ in range(max(4, N // 12)):
                cases.append(_mk_history(rng, target, mode))
    # -- integer-valued stacks passed as Python ints (any array-like is documented as accepted)
    for _ in range(max(6, N // 6)):
        n = rng.randint(2, 5)
        rc, cc = rng.choice(AXIS_ORIENTS)
        c = _mk(rng, 'int_positions', _perm(rng, n), rc=rc, cc=cc, s=rng.randint(1, 5),
                opts={'sort': rng.random() < 0.8, 'dups': False, 'missing': False})
        frac = [x - math.floor(x) for x in c['pos'][0]]      # common fractional part of the (dyadic) origin
        c['pos'] = [[int(round(x - f)) for x, f in zip(p, frac)] for p in c['pos']]
        cases.append(c)
    # -- orientation / pixel measures stored PER FRAME: frames that agree are a stack exactly as with shared
    #    values; one (or several) frames with another orientation, pixel spacing or spacing hint are not a stack
    #    of parallel congruent planes, wherever the foreign frame sits in the frame table; both frame orders
    for target in ('image', 'seg'):
        for what in ('none', 'none', 'ori', 'ori', 'ori', 'px', 'px', 'sbs'):
            for _ in range(max(3, N // 20)):
                c = _mk_perframe(rng, target, what)
                cases.append(c)
                if rng.random() < 0.6:
                    cases.append(_perframe_reordered(rng, c))
    return cases


def _via(c):
    """the entry point a case goes through: kinds that cover a DIMENSION (tol_forward) carry it in 'via'"""
    return c.get('via') or c['kind']


def _permuted(c, order):
    """the same case with its planes / frames passed in `order`"""
    m = c['meta']
    d = dict(c, pos=[c['pos'][i] for i in order],
             meta=dict(m, k=[m['k'][i] for i in order], jit=[m['jit'][i] for i in order],
                       lat=[m['lat'][i] for i in order]))
    if c.get('resc') is not None:
        d['resc'] = [c['resc'][i] for i in order]
    return d


def _mk_geometry(rng, target, mode, km, kd, n):
    """mf_geometry case: `n` planes; km / kd = allow_missing_positions / allow_duplicate_positions as
    passed to get_volume_geometry (None = not passed)."""
    ks = _perm(rng, n + (1 if mode in ('gap', 'dupgap') else 0))
    if mode in ('gap', 'dupgap'):
        ks.remove(rng.choice([1, max(ks) - 1]))
    if mode == 'dup':
        for _d in range(rng.randint(1, 2)):
            ks.insert(rng.randrange(len(ks) + 1), rng.choice(ks))
    if mode in ('dupall', 'dupgap'):
        ks = ks * rng.randint(2, 3) if mode == 'dupall' or rng.random() < 0.5 else ks + [rng.choice(ks)]
        rng.shuffle(ks)
    if mode == 'coincident':
        ks = [ks[0]] * rng.randint(2, 4)
    if mode == 'single':
        ks = ks[:1]
    rt, at = _tol(rng) if mode not in ('jit', 'shear') else (None, None)
    if mode == 'bothtol':
        rt, at = 1 / 64, 1 / 8
    if mode in ('jit', 'shear') and rng.random() < 0.5:
        ks.append(rng.choice(ks))
    c = _mk(rng, 'mf_geometry', ks, opts={'rtol': rt, 'atol': at}, conv='DR', hand='R', note=mode)
    s = F(c['meta']['s'])
    if mode in ('jit', 'shear'):
        fj = s * rng.choice([F(1, 400), F(1, 20)])
        who = rng.choice(ks)
        tl = rng.choice([F(1, 100), F(1, 4)])
        jit = [fj if (mode == 'jit' and k == who) else F(0) for k in ks]      # frames of one plane move together
        lat = [k * s * tl if mode == 'shear' else F(0) for k in ks]
        c = _mk(rng, 'mf_geometry', ks, rc=[F(x) for x in c['rc']], cc=[F(x) for x in c['cc']], jit=jit, lat=lat,
                s=s, opts={'rtol': rt, 'atol': at}, conv='DR', hand='R', note=mode)
    c['opts']['hint'] = (float(s) if mode == 'hint' else float(2 * s) if mode == 'badhint' else
                         float(s) if rng.random() < 0.1 else None)
    c['target'], c['kw_missing'], c['kw_dups'] = target, km, kd
    c['opts']['missing'] = c['opts']['dups'] = None     # not used by this kind: see kw_missing / kw_dups
    c['perm_seed'] = rng.randrange(1, 10**6) if rng.random() < 0.6 else None
    c['rows'], c['cols'], c['resc'], c['amt'] = rng.randint(1, 3), rng.randint(1, 3), None, None
    return c



_TVALS = [1 / 64, 1 / 32, 1 / 16, 1 / 8, 0.05, 0.02]
_TRI = (None, True, False)


def _far_from_one(rng, q):
    """a spacing for which `t x spacing` and `t` are clearly different amounts"""
    while True:
        s = F(q * rng.randint(1, 24), rng.choice([1, 2, 4, 8]))
        if s >= 2 or F(1, 4) <= s <= F(1, 2):
            return s


def _role_jitter(rng, ks, s, t, gaps_reading, sign, where):
    """per-plane jitter along the normal that separates the two readings of the tolerance value t.
    Without declared gaps a consecutive spacing may deviate from the mean by atol (mm) or rtol x spacing: one
    interior plane is moved by an amount between t and t x s.  With declared gaps the multiple of the spacing
    may deviate from its integer k by atol or rtol x k (index units): the plane farthest along the positive
    normal (index kmax) is moved outwards by between t and t x kmax spacings."""
    n = len(ks)
    jit = [F(0)] * n
    t = F(t)
    if gaps_reading:
        kmax = max(ks) - min(ks)
        lo, hi = sorted([t, t * kmax])
        d = {'between': (lo + hi) / 2, 'inside': lo / 2, 'outside': 2 * hi}[where]
        if d >= F(1, 2):
            d = F(3, 8)
        top = max(ks) if sign > 0 else min(ks)
        jit[ks.index(top)] = sign * d * s
    else:
        lo, hi = sorted([t, t * s])
        d = {'between': (lo + hi) / 2, 'inside': lo / 2, 'outside': 2 * hi}[where]
        if d >= s / 2:
            d = s * F(3, 8)
        inner = [i for i, k in enumerate(ks) if k not in (min(ks), max(ks))]
        jit[rng.choice(inner)] = d * rng.choice([1, -1])
    return jit


def _mk_tol(rng, via, where=None):
    """tol_forward case through the entry point `via` (dispatch: see _via)"""
    rc, cc = rng.choice(AXIS_ORIENTS if rng.random() < 0.5 else OBLIQUE_ORIENTS)
    s = _far_from_one(rng, _den(_cross(rc, cc)))
    t = rng.choice(_TVALS)
    role = rng.choice(['rtol', 'atol'])
    where = where or rng.choice(['between', 'between', 'between', 'inside', 'outside'])
    ks = _perm(rng, rng.randint(4, 6))
    vol = via in ('vol_series', 'vol_multiframe', 'mf_geometry')
    conv, hand = ('DR', 'R') if vol else (rng.choice(CONVS), rng.choice(['R', 'L']))
    target, km = None, None
    if via == 'mf_geometry':
        target, km = rng.choice(['image', 'seg']), rng.choice(_TRI)
        gaps = _GEOMETRY_DEFAULTS[target]['missing'] if km is None else km
    elif via == 'vol_series':
        gaps = False
    else:
        gaps = rng.random() < 0.3
    jit = _role_jitter(rng, ks, s, t, gaps, _sign_for(rc, cc, conv, hand), where)
    o = {'rtol': t if role == 'rtol' else None, 'atol': t if role == 'atol' else None, 'missing': gaps}
    if via == 'vol_multiframe':
        o['dups'] = True
    c = _mk(rng, 'tol_forward', ks, rc=rc, cc=cc, jit=jit, s=s, opts=o, conv=conv, hand=hand,
            note=f'{role}={t}, deviation {where} the two readings, spacing {s}')
    c['via'] = via
    if via in ('series', 'vol_series'):
        c['ds_hint'], c['orient_break'] = None, None
    if vol:
        c['rows'], c['cols'] = rng.randint(1, 3), rng.randint(1, 3)
        if via == 'mf_geometry':
            c['target'], c['kw_missing'], c['kw_dups'] = target, km, rng.choice(_TRI)
            c['opts']['missing'] = c['opts']['dups'] = None
            c['perm_seed'], c['resc'], c['amt'] = None, None, None
        else:
            _add_rescale(rng, c)
    return c


def _mk_history(rng, target, mode):
    """mf_history case: one Image / Segmentation and a list of queries put to it one after the other.
    mode = what the stack contains, hence which argument changes the answer: 'dups' (several frames per plane:
    allow_duplicate_positions), 'gap' (allow_missing_positions), 'dupgap' (both), 'tol' (a gap off by an amount
    between two tolerances: rtol / atol), 'ok'."""
    n = rng.randint(2, 5)
    ks = _perm(rng, n + (1 if mode in ('gap', 'dupgap') else 0))
    if mode in ('gap', 'dupgap'):
        ks.remove(rng.choice([1, max(ks) - 1]))
    if mode in ('dups', 'dupgap'):
        ks = ks * rng.randint(2, 3) if rng.random() < 0.6 else ks + [rng.choice(ks)]
        rng.shuffle(ks)
    rc, cc = rng.choice(AXIS_ORIENTS if rng.random() < 0.5 else OBLIQUE_ORIENTS)
    jit, t = None, None
    if mode == 'tol':
        ks = _perm(rng, rng.randint(4, 6))
        s = _far_from_one(rng, _den(_cross(rc, cc)))
        t = rng.choice(_TVALS)
        jit = _role_jitter(rng, ks, s, t, target == 'seg' and rng.random() < 0.5, _sign_for(rc, cc, 'DR', 'R'),
                           'between')
        if rng.random() < 0.3:
            j = rng.randrange(len(ks))
            ks, jit = ks + [ks[j]], jit + [jit[j]]        # and two frames on one of the planes
    else:
        s = None
    c = _mk(rng, 'mf_history', ks, rc=rc, cc=cc, jit=jit, s=s, conv='DR', hand='R', note=mode)
    c['opts']['hint'] = float(F(c['meta']['s'])) if rng.random() < 0.1 else None
    c['opts']['missing'] = c['opts']['dups'] = None          # per query
    c['target'] = target
    # channel of every frame: the segment it belongs to (frames of one plane in different segments, as in
    # a segmentation with overlapping segments; now and then all in one segment), 0 for an image
    if target == 'seg':
        seen = {}
        c['segs'] = []
        for k in ks:
            seen[k] = seen.get(k, 0) + 1
            c['segs'].append(seen[k])
        if rng.random() < 0.15:
            c['segs'] = [1] * len(ks)
    else:
        c['segs'] = [0] * len(ks)
    c['rows'], c['cols'], c['resc'], c['amt'] = rng.randint(1, 3), rng.randint(1, 3), None, None

    def tol():
        if mode == 'tol':
            return rng.choice([(None, None), (t, None), (None, t), (t, None), (None, t)])
        r = rng.random()
        return (None, None) if r < 0.7 else (1 / 64, 1 / 8) if r < 0.75 else _tol(rng)

    def q(op=None, km='?', kd='?', rt_at=None):
        rt, at = rt_at if rt_at is not None else tol()
        return {'op': op or rng.choice(['geometry', 'geometry', 'geometry', 'volume']),
                'km': rng.choice(_TRI) if km == '?' else km, 'kd': rng.choice(_TRI) if kd == '?' else kd,
                'rtol': rt, 'atol': at}
    # two queries that differ ONLY in the argument that matters for this stack (either order), ...
    a = q(op=rng.choice(['geometry', 'geometry', 'volume']))
    b = dict(a, op=rng.choice(['geometry', 'geometry', a['op']]))
    if mode in ('dups', 'dupgap') and rng.random() < 0.8:
        a['kd'], b['kd'], b['op'] = rng.choice([(None, False), (True, False), (False, None), (False, True)]) + ('geometry',)
        if a['kd'] is False:
            a['op'] = 'geometry'
    elif mode in ('gap', 'dupgap'):
        a['km'], b['km'] = rng.choice([(True, False), (False, True), (None, not _GEOMETRY_DEFAULTS[target]['missing']),
                                       (not _GEOMETRY_DEFAULTS[target]['missing'], None)])
    elif mode == 'tol':
        (a['rtol'], a['atol']), (b['rtol'], b['atol']) = rng.choice([((t, None), (None, t)), ((None, t), (t, None)),
                                                                     ((None, None), (t, None)), ((None, t), (None, None))])
    qs = [a, b]
    # ... then further questions, the first one again, the volume
    for _ in range(rng.randint(0, 3)):
        qs.append(q())
    if rng.random() < 0.6:
        qs.append(dict(a))
    if rng.random() < 0.4 or mode == 'tol':
        qs.append(q(op='volume', km=rng.choice([None, a['km']]),
                    rt_at=rng.choice([(t, None), (None, t)]) if mode == 'tol' else (a['rtol'], a['atol'])))
    if rng.random() < 0.2:
        qs.insert(0, q())
    for x in qs:
        if x['op'] == 'volume':
            x['kd'] = None                 # get_volume has no such argument
    c['queries'] = qs
    return c


_FOREIGN_ORI = ['swap', 'rot90', 'mirror', 'perp_col', 'perp_row', 'tilt']
_MAIN_PX = [(1.0, 1.0), (0.5, 0.5), (0.75, 0.5), (2.0, 1.25), (0.25, 1.5)]


def _foreign_orient(rc, cc, how):
    """another orientation (exact rationals) for a frame of a stack whose orientation is (rc, cc)"""
    n = _cross(rc, cc)
    neg = lambda v: tuple(-x for x in v)
    if how == 'swap':            # row and column cosines exchanged: antiparallel normal
        return tuple(cc), tuple(rc)
    if how == 'rot90':           # rotated by 90 degrees in its plane: same normal, another pixel grid
        return tuple(cc), neg(rc)
    if how == 'mirror':          # antiparallel normal
        return neg(rc), tuple(cc)
    if how == 'perp_col':        # perpendicular plane; differs in the column cosines only
        return tuple(rc), tuple(n)
    if how == 'perp_row':        # perpendicular plane; differs in the row cosines only
        return tuple(n), tuple(cc)
    # tilted about the row direction (3-4-5)
    return tuple(rc), tuple(F(3, 5) * a + F(4, 5) * b for a, b in zip(cc, n))


def _foreign_px(px, how):
    a, b = px
    return {'both': [2 * a, 2 * b], 'first': [a / 2, b], 'second': [a, 2 * b], 'swapped': [b, a]}[how]


def _mk_perframe(rng, target, what):
    """mf_perframe case: the object of an mf_history case (stack, segments, queries) whose plane orientation
    and / or pixel measures are stored in the per-frame functional groups.  what = 'none' (all frames agree),
    'ori' / 'px' / 'sbs' (the frames listed in c['odd'] carry another orientation / PixelSpacing /
    SpacingBetweenSlices).  ori_of / px_of / sbs_of: per-frame values (None = stored in the shared groups)."""
    c = _mk_history(rng, target, rng.choice(['ok', 'ok', 'ok', 'ok', 'gap', 'dups', 'dupgap', 'tol']))
    c['kind'] = 'mf_perframe'
    n = len(c['pos'])
    s = F(c['meta']['s'])
    rc, cc = [F(x) for x in c['rc']], [F(x) for x in c['cc']]
    main = _orient(c)
    c['px'] = list(rng.choice(_MAIN_PX))
    ori_pf = what == 'ori' or rng.random() < (0.6 if what == 'none' else 0.3)
    pm_pf = what in ('px', 'sbs') or rng.random() < (0.6 if what == 'none' else 0.3)
    if what == 'none' and not (ori_pf or pm_pf):
        ori_pf = True
    if what == 'sbs':
        c['opts']['hint'] = float(s * rng.choice([1, 1, 1, 2]))
    elif pm_pf and rng.random() < 0.3:
        c['opts']['hint'] = float(s * rng.choice([1, 1, 2]))
    hint = c['opts']['hint']
    # which frames are foreign: the first / a middle one / the last / several / all but one
    odd = []
    if what != 'none' and n > 1:
        r = rng.random()
        if r < 0.25:
            odd = [0]
        elif r < 0.45:
            odd = [n - 1]
        elif r < 0.7:
            odd = [rng.randrange(n)]
        elif r < 0.85:
            odd = sorted(rng.sample(range(n), rng.randint(1, n - 1)))
        else:
            keep = rng.randrange(n)
            odd = [i for i in range(n) if i != keep]
    how = None
    c['ori_of'] = [list(main) for _ in range(n)] if ori_pf else None
    c['px_of'] = [list(c['px']) for _ in range(n)] if pm_pf else None
    c['sbs_of'] = [hint] * n if pm_pf else None
    if odd:
        if what == 'ori':
            how = rng.choice(_FOREIGN_ORI)
            frc, fcc = _foreign_orient(rc, cc, how)
            for i in odd:
                c['ori_of'][i] = [float(x) for x in frc] + [float(x) for x in fcc]
        elif what == 'px':
            how = rng.choice(['both', 'first', 'second'] + (['swapped'] if c['px'][0] != c['px'][1] else []))
            for i in odd:
                c['px_of'][i] = _foreign_px(c['px'], how)
        else:
            how = rng.choice(['double', 'half', 'other'])
            for i in odd:
                c['sbs_of'][i] = hint * {'double': 2.0, 'half': 0.5, 'other': 1.25}[how]
    c['odd'] = {'what': what if odd else 'none', 'frames': odd, 'how': how}
    c['meta'] = dict(c['meta'], note=f"{c['meta']['note']}; per-frame "
                     f"{'orientation ' if ori_pf else ''}{'pixel measures ' if pm_pf else ''}- "
                     + (f"frames {[i + 1 for i in odd]} with another {what} ({how})" if odd else 'all frames agree'))
    # both entry points in every history
    ops = {q['op'] for q in c['queries']}
    if 'geometry' not in ops:
        c['queries'].append(dict(c['queries'][0], op='geometry'))
    if 'volume' not in ops:
        c['queries'].append(dict(c['queries'][0], op='volume', kd=None))
    return c


def _perframe_reordered(rng, c):
    """the same frames in another order: a foreign frame moved to the front / to the end, or shuffled"""
    n = len(c['pos'])
    order = list(range(n))
    odd = c['odd']['frames']
    r = rng.random()
    if odd and r < 0.35:
        i = rng.choice(odd)
        order = [i] + [j for j in order if j != i]
    elif odd and r < 0.6:
        i = rng.choice(odd)
        order = [j for j in order if j != i] + [i]
    elif r < 0.8:
        order.reverse()
    else:
        rng.shuffle(order)
    d = _permuted(c, order)
    for key in ('segs', 'ori_of', 'px_of', 'sbs_of'):
        if c.get(key) is not None:
            d[key] = [c[key][i] for i in order]
    d['odd'] = dict(c['odd'], frames=sorted(order.index(i) for i in odd))
    d['meta'] = dict(d['meta'], note=c['meta']['note'] + f' (frames reordered {order})')
    return d


# --------------------------------------------------------------------------
# implementation side
# --------------------------------------------------------------------------
def _orient(c):
    return [float(F(x)) for x in c['rc']] + [float(F(x)) for x in c['cc']]


def _hand(c):
    return 'RIGHT_HANDED' if c['hand'] == 'R' else 'LEFT_HANDED'


def _kw(c):
    o = c['opts']
    return dict(rtol=o['rtol'], atol=o['atol'], sort=o['sort'], allow_missing_positions=o['missing'],
                allow_duplicate_positions=o['dups'], index_convention=c['conv'], handedness=_hand(c),
                enforce_handedness=o['enforce'])


def _canon(r):
    sp, idx = r
    if sp is None and idx is None:
        return None
    return [float(sp), [int(i) for i in idx]]


def _frame_pixels(fid, rows, cols):
    import numpy as np
    return (np.arange(rows * cols, dtype=np.int16).reshape(rows, cols) + 10 * fid)


def _frame_value(c, fid):
    """ground truth of one slice: stored * slope + intercept of ITS OWN instance / frame when the
    modality transform applies, else the stored values"""
    import numpy as np
    a = _frame_pixels(fid, c['rows'], c['cols']).astype(np.float64)
    if c.get('resc') is not None and c.get('amt') is not False:
        sl, ic = c['resc'][fid - 1]
        a = a * sl + ic
    return a


def _datasets(c, with_pixels=False):
    """single-frame CT datasets for the planes of the case; identifiers 1..n in input order"""
    import synth
    rows, cols = c.get('rows', 1), c.get('cols', 1)
    s, st, f = synth.uid(), synth.uid(), synth.uid()
    out = []
    ori = _orient(c)
    for i, p in enumerate(c['pos']):
        o = list(ori)
        if c.get('orient_break') is not None and i == c['orient_break']:
            o = o[3:] + o[:3]
        ds = synth.ct_frame(p, rows, cols, orientation=o, series_uid=s, study_uid=st, for_uid=f,
                            instance_number=i + 1,
                            pixels=_frame_pixels(i + 1, rows, cols) if with_pixels else None)
        for kw in ('SpacingBetweenSlices', 'RescaleSlope', 'RescaleIntercept', 'RescaleType'):
            if kw in ds:
                delattr(ds, kw)
        if with_pixels and c.get('resc') is not None:
            ds.RescaleSlope, ds.RescaleIntercept = c['resc'][i]
            ds.RescaleType = 'HU'
        out.append(ds)
    if c.get('ds_hint') is not None and out:
        out[0].SpacingBetweenSlices = c['ds_hint']
    return out


def _enhanced(c):
    """enhanced multi-frame CT dataset whose frames are the planes of the case"""
    import numpy as np
    import synth
    from pydicom.dataset import Dataset
    rows, cols = c['rows'], c['cols']
    ds = synth.base('ct_image.dcm')
    ds.SOPClassUID = '1.2.840.10008.5.1.4.1.1.2.1'
    ds.file_meta.MediaStorageSOPClassUID = ds.SOPClassUID
    ds.SOPInstanceUID = synth.uid()
    for kw in ('ImagePositionPatient', 'ImageOrientationPatient', 'PixelSpacing', 'SliceThickness', 'RescaleSlope',
               'RescaleIntercept', 'RescaleType', 'SliceLocation', 'SpacingBetweenSlices'):
        if kw in ds:
            delattr(ds, kw)
    ds.Rows, ds.Columns = rows, cols
    ds.NumberOfFrames = len(c['pos'])
    sh = Dataset()
    po = Dataset()
    po.ImageOrientationPatient = _orient(c)
    sh.PlaneOrientationSequence = [po]
    pm = Dataset()
    pm.PixelSpacing = [1.0, 1.0]
    pm.SliceThickness = 1.0
    if c['opts']['hint'] is not None:
        pm.SpacingBetweenSlices = c['opts']['hint']
    sh.PixelMeasuresSequence = [pm]
    ds.SharedFunctionalGroupsSequence = [sh]
    pf = []
    for i, p in enumerate(c['pos']):
        it = Dataset()
        pp = Dataset()
        pp.ImagePositionPatient = [float(x) for x in p]
        it.PlanePositionSequence = [pp]
        if c.get('resc') is not None:
            pv = Dataset()
            pv.RescaleSlope, pv.RescaleIntercept = c['resc'][i]
            pv.RescaleType = 'US'
            it.PixelValueTransformationSequence = [pv]
        pf.append(it)
    ds.PerFrameFunctionalGroupsSequence = pf
    ds.PixelData = np.stack([_frame_pixels(i + 1, rows, cols) for i in range(len(c['pos']))]).tobytes()
    return ds


def _seg_dataset(c):
    """binary segmentation (from the shipped fixture) whose frames are the planes of the case; with c['segs']
    frame f belongs to segment segs[f] (segments 1..max described) and has exactly pixel number f set"""
    import numpy as np
    import synth
    from copy import deepcopy
    from pydicom.pixels.utils import pack_bits
    ds = synth.base('seg_image_ct_binary.dcm')
    n = len(c['pos'])
    segs = c.get('segs')
    sh = ds.SharedFunctionalGroupsSequence[0]
    sh.PlaneOrientationSequence[0].ImageOrientationPatient = _orient(c)
    pm = sh.PixelMeasuresSequence[0]
    if 'SpacingBetweenSlices' in pm:
        del pm.SpacingBetweenSlices
    if c['opts']['hint'] is not None:
        pm.SpacingBetweenSlices = c['opts']['hint']
    if segs is not None:
        described = []
        for k in range(1, max(segs) + 1):
            it = deepcopy(ds.SegmentSequence[0])
            it.SegmentNumber, it.SegmentLabel = k, f'segment {k}'
            described.append(it)
        ds.SegmentSequence = described
    tmpl = ds.PerFrameFunctionalGroupsSequence[0]
    items = []
    px = np.zeros((n, ds.Rows * ds.Columns), np.uint8)
    for f, p in enumerate(c['pos']):
        it = deepcopy(tmpl)
        it.PlanePositionSequence[0].ImagePositionPatient = [float(x) for x in p]
        it.FrameContentSequence[0].DimensionIndexValues = [1 if segs is None else segs[f], f + 1]
        if segs is not None:
            it.SegmentIdentificationSequence[0].ReferencedSegmentNumber = segs[f]
            px[f, f] = 1
        items.append(it)
    ds.PerFrameFunctionalGroupsSequence = items
    ds.NumberOfFrames = n
    ds.PixelData = pack_bits(px.flatten())
    return ds


def _to_perframe(ds, c):
    """move the plane orientation / pixel measures of the dataset into the per-frame functional groups, with the
    per-frame values of the (mf_perframe) case; the shared PixelSpacing is c['px']"""
    from pydicom.dataset import Dataset
    sh = ds.SharedFunctionalGroupsSequence[0]
    pm = sh.PixelMeasuresSequence[0]
    pm.PixelSpacing = [float(x) for x in c['px']]
    items = ds.PerFrameFunctionalGroupsSequence
    if c.get('ori_of') is not None:
        del sh.PlaneOrientationSequence
        for it, o in zip(items, c['ori_of']):
            po = Dataset()
            po.ImageOrientationPatient = [float(x) for x in o]
            it.PlaneOrientationSequence = [po]
    if c.get('px_of') is not None:
        thick = float(pm.get('SliceThickness', 1.0))
        del sh.PixelMeasuresSequence
        for it, px, h in zip(items, c['px_of'], c['sbs_of']):
            m = Dataset()
            m.SliceThickness = thick
            m.PixelSpacing = [float(x) for x in px]
            if h is not None:
                m.SpacingBetweenSlices = float(h)
            it.PixelMeasuresSequence = [m]
    return ds


def _geometry_image(c, order=None):
    """the multi-frame image of an mf_geometry case (frames in `order`), as Image or Segmentation"""
    import highdicom as hd
    d = c if order is None else dict(c, pos=[c['pos'][i] for i in order])
    ds = _seg_dataset(d) if c['target'] == 'seg' else _enhanced(d)
    if c['kind'] == 'mf_perframe':
        ds = _to_perframe(ds, d)
    if c['target'] == 'seg':
        return hd.seg.Segmentation.from_dataset(ds)
    return hd.Image.from_dataset(ds)


def _geometry_kwargs(c):
    kw = dict(rtol=c['opts']['rtol'], atol=c['opts']['atol'])
    if c['kw_missing'] is not None:
        kw['allow_missing_positions'] = c['kw_missing']
    if c['kw_dups'] is not None:
        kw['allow_duplicate_positions'] = c['kw_dups']
    return kw


def _canon_geometry(g):
    if g is None:
        return None
    return [int(g.spatial_shape[0]), float(g.spacing[0]), g.affine[:3, 3].tolist(), g.affine[:3, 0].tolist()]


def _ask(obj, c, q):
    """one query put to the object of an mf_history case"""
    import numpy as np
    kw = dict(rtol=q['rtol'], atol=q['atol'])
    if q['km'] is not None:
        kw['allow_missing_positions'] = q['km']
    if q['op'] == 'geometry':
        if q['kd'] is not None:
            kw['allow_duplicate_positions'] = q['kd']
        g = obj.get_volume_geometry(**kw)
        if g is not None and c['kind'] == 'mf_perframe':
            return _canon_geometry(g) + [g.affine[:3, 1].tolist(), g.affine[:3, 2].tolist()]
        return _canon_geometry(g)
    v = obj.get_volume(**kw)
    n = len(c['pos'])
    if c['target'] == 'seg':
        # array[slice, row, column, segment]: frame f is the one with pixel number f - 1 set
        a = np.asarray(v.array)
        a = a.reshape(a.shape[0], -1, a.shape[-1])
        slots = []
        for k in range(a.shape[0]):
            row = []
            for ch in range(a.shape[2]):
                hit = np.flatnonzero(a[k, :, ch])
                row.append(None if len(hit) == 0 else int(hit[0]) + 1 if len(hit) == 1 and hit[0] < n else -1)
            slots.append(row)
    else:
        slots = [[i] for i in _ids_of(v.array, c, n)]
    inplane = [v.affine[:3, 1].tolist(), v.affine[:3, 2].tolist()] if c['kind'] == 'mf_perframe' else []
    return ([int(v.spatial_shape[0]), float(v.spacing[0]), v.affine[:3, 3].tolist(), v.affine[:3, 0].tolist()]
            + inplane + [slots])


def _ids_of(arr, c, n):
    """identifier of every slice of an assembled ARRAY (None = empty slot, -1 = the slice is not the
    ground truth  stored_k * slope_k + intercept_k  of any input instance / frame)"""
    import numpy as np
    ids = []
    for sl in arr:
        if sl.any():
            hit = [f for f in range(1, n + 1) if sl.shape == (c['rows'], c['cols']) and
                   np.array_equal(sl, _frame_value(c, f))]
            ids.append(hit[0] if len(hit) == 1 else -1)
            continue
        # an all-zero slice can only be an empty slot (every ground-truth value is > 0)
        ids.append(None)
    return ids


def run_impl(c):
    import warnings
    import numpy as np
    from highdicom import spatial
    import highdicom as hd
    k = _via(c)
    with warnings.catch_warnings():
        warnings.simplefilter('ignore')
        if k == 'normal':
            return catch(lambda: spatial.get_normal_vector(_orient(c), index_convention=c['conv'],
                                                           handedness=_hand(c)).tolist())
        if k == 'plane_sort':
            return catch(lambda: [int(i) for i in spatial.get_plane_sort_index(
                c['pos'], _orient(c), index_convention=c['conv'], handedness=_hand(c))])
        if k == 'series':
            dss = _datasets(c)
            kw = _kw(c)
            return catch(lambda: _canon(spatial.get_series_volume_positions(dss, **kw)))
        if k == 'sort_datasets':
            dss = _datasets(c)
            return catch(lambda: [int(d.InstanceNumber) for d in spatial.sort_datasets(
                dss, index_convention=c['conv'], handedness=_hand(c))])
        if k == 'vol_series':
            dss = _datasets(c, with_pixels=True)

            def f():
                v = hd.get_volume_from_series(dss, rtol=c['opts']['rtol'], atol=c['opts']['atol'],
                                              apply_modality_transform=c.get('amt'))
                ids = _ids_of(v.array, c, len(dss))
                return [[-1 if i is None else i for i in ids], float(v.spacing[0]),
                        v.affine[:3, 3].tolist(), v.affine[:3, 0].tolist()]
            return catch(f)
        if k == 'vol_multiframe':
            ds = _enhanced(c)

            def f():
                im = hd.Image.from_dataset(ds)
                v = im.get_volume(rtol=c['opts']['rtol'], atol=c['opts']['atol'],
                                  apply_modality_transform=c.get('amt'),
                                  allow_missing_positions=c['opts']['missing'])
                g = im.get_volume_geometry(rtol=c['opts']['rtol'], atol=c['opts']['atol'],
                                           allow_missing_positions=c['opts']['missing'])
                if g is None or not np.array_equal(g.affine, v.affine) or g.spatial_shape != v.spatial_shape:
                    return 'geometry differs from volume'
                ids = _ids_of(v.array, c, len(c['pos']))
                return [ids, float(v.spacing[0]), v.affine[:3, 3].tolist(), v.affine[:3, 0].tolist()]
            return catch(f)
        if k in ('mf_history', 'mf_perframe'):
            obj = _geometry_image(c)          # ONE object for the whole history
            return [catch(lambda: _ask(obj, c, q)) for q in c['queries']]
        if k == 'mf_geometry':
            kw = _geometry_kwargs(c)
            out = catch(lambda: _canon_geometry(_geometry_image(c).get_volume_geometry(**kw)))
            if c.get('perm_seed') is not None and len(c['pos']) > 1:
                import random
                order = list(range(len(c['pos'])))
                random.Random(c['perm_seed']).shuffle(order)
                out2 = catch(lambda: _canon_geometry(_geometry_image(c, order).get_volume_geometry(**kw)))
                if out2 != out:
                    return f'geometry depends on the order of the frames: {out!r} / frames reordered {order}: {out2!r}'
            return out
        # get_volume_positions kinds
        kw = _kw(c)
        kw['spacing_hint'] = c['opts']['hint']
        if k == 'order_pair':
            d = _permuted(c, c['perm'])
            return [catch(lambda: _canon(spatial.get_volume_positions(c['pos'], _orient(c), **kw))),
                    catch(lambda: _canon(spatial.get_volume_positions(d['pos'], _orient(c), **kw)))]
        return catch(lambda: _canon(spatial.get_volume_positions(c['pos'], _orient(c), **kw)))


# --------------------------------------------------------------------------
# model terms
# --------------------------------------------------------------------------
def _qf(x):
    return qlit(F(x))       # exact value of a float / Fraction string


def _v3(xs):
    return '(V3 ' + ' '.join(_qf(x) for x in xs) + ')'


def _oq(x):
    return 'None' if x is None else f'(Some {_qf(x)})'


_DIR = {'R': 'DirR', 'L': 'DirL', 'U': 'DirU', 'D': 'DirD'}


def _b(x):
    return 'true' if x else 'false'


def _opts(c, hint):
    o = c['opts']
    return (f"(mkOpts {_oq(o['rtol'])} {_oq(o['atol'])} {_b(o['sort'])} {_b(o['missing'])} {_b(o['dups'])} "
            f"{_oq(hint)} {_DIR[c['conv'][0]]} {_DIR[c['conv'][1]]} {_b(c['hand'] == 'R')} {_b(o['enforce'])})")


def _fl(xs):
    return [float(F(x)) for x in xs]


def _sds(c):
    rc, cc = _fl(c['rc']), _fl(c['cc'])
    items = []
    for i, p in enumerate(c['pos']):
        a, b = (cc, rc) if c.get('orient_break') is not None and i == c['orient_break'] else (rc, cc)
        items.append(f'({_v3(a)}, {_v3(b)}, {_v3(p)})')
    return items


def _undecided(c):
    """the Fraction spec cannot decide the case (within 1e-6 of a tolerance threshold, or the outcome
    depends on the order of planes at equal distance): excluded from the model comparison, counted
    as trivial"""
    k = _via(c)
    if k in ('normal', 'plane_sort', 'sort_datasets'):
        return False
    if c.get('orient_break') is not None or len(c['pos']) < 2:
        return False
    if k == 'series':
        return _expected(c, hint=c['ds_hint']) == ANY
    if k == 'vol_series':
        _, D, L = _by_rank(c)
        return _spec(D, L, dict(c['opts'], sort=True, missing=False, dups=False, enforce=False), c['ds_hint']) == ANY
    if k == 'vol_multiframe':
        _, D, L = _by_rank(c)
        return _spec(D, L, dict(c['opts'], sort=True, dups=True, enforce=False), c['opts']['hint']) == ANY
    if k == 'mf_geometry':
        return _geometry_expected(c)[2] == ANY
    if k == 'mf_history':
        return any(_query_expected(c, q)[2] == ANY for q in c['queries'])
    if k == 'mf_perframe':
        return _pf_consistent(c) and any(_query_expected(c, q)[2] == ANY for q in c['queries'])
    return _expected(c) == ANY


def coq_term(c):
    k = _via(c)
    if _undecided(c):
        return None
    rc, cc = _v3(_fl(c['rc'])), _v3(_fl(c['cc']))
    conv = f"{_DIR[c['conv'][0]]} {_DIR[c['conv'][1]]} {_b(c['hand'] == 'R')}"
    if k == 'normal':
        return f'(run_normal {rc} {cc} {conv})'
    ps = '[' + '; '.join(_v3(p) for p in c['pos']) + ']'
    if k == 'plane_sort':
        return f'(run_plane_sort {ps} {rc} {cc} {conv})'
    if k == 'series':
        return f"(run_series [{'; '.join(_sds(c))}] {_oq(c['ds_hint'])} {_opts(c, None)})"
    if k == 'sort_datasets':
        items = [f'({i + 1}, {t})' for i, t in enumerate(_sds(c))]
        return f"(run_sort_datasets [{'; '.join(items)}] {conv})"
    if k == 'vol_series':
        items = [f'({i + 1}, {t})' for i, t in enumerate(_sds(c))]
        return (f"(run_volume_from_series [{'; '.join(items)}] {_oq(c['ds_hint'])} "
                f"{_oq(c['opts']['rtol'])} {_oq(c['opts']['atol'])})")
    if k == 'vol_multiframe':
        items = [f'({i + 1}, {_v3(p)})' for i, p in enumerate(c['pos'])]
        return (f"(run_multiframe [{'; '.join(items)}] {rc} {cc} {_oq(c['opts']['hint'])} "
                f"{_oq(c['opts']['rtol'])} {_oq(c['opts']['atol'])} {_b(c['opts']['missing'])})")
    if k == 'mf_geometry':
        ob = lambda x: 'None' if x is None else f'(Some {_b(x)})'
        return (f"(run_mf_geometry {ps} {rc} {cc} {_oq(c['opts']['hint'])} {_oq(c['opts']['rtol'])} "
                f"{_oq(c['opts']['atol'])} {_b(c['target'] == 'seg')} {ob(c['kw_missing'])} {ob(c['kw_dups'])})")
    if k == 'mf_history':
        ob = lambda x: 'None' if x is None else f'(Some {_b(x)})'
        qs = [f"QGeom {_oq(q['rtol'])} {_oq(q['atol'])} {ob(q['km'])} {ob(q['kd'])}" if q['op'] == 'geometry' else
              f"QVol {_oq(q['rtol'])} {_oq(q['atol'])} {ob(q['km'])}" for q in c['queries']]
        return (f"(run_mf_history {common.zl(c['segs'])} {common.zl(_out_channels(c))} {ps} {rc} {cc} "
                f"{_oq(c['opts']['hint'])} {_b(c['target'] == 'seg')} [{'; '.join(qs)}])")
    if k == 'mf_perframe':
        ob = lambda x: 'None' if x is None else f'(Some {_b(x)})'
        qs = [f"QGeom {_oq(q['rtol'])} {_oq(q['atol'])} {ob(q['km'])} {ob(q['kd'])}" if q['op'] == 'geometry' else
              f"QVol {_oq(q['rtol'])} {_oq(q['atol'])} {ob(q['km'])}" for q in c['queries']]
        frames = []
        for i, p in enumerate(c['pos']):
            o = c['ori_of'][i] if c['ori_of'] is not None else _orient(c)
            px = c['px_of'][i] if c['px_of'] is not None else c['px']
            h = c['sbs_of'][i] if c['px_of'] is not None else c['opts']['hint']
            frames.append(f"mkFA {_v3(o[:3])} {_v3(o[3:])} {_qf(px[0])} {_qf(px[1])} {_oq(h)} {_v3(p)}")
        return (f"(run_pf_history {common.zl(c['segs'])} {common.zl(_out_channels(c))} [{'; '.join(frames)}] "
                f"{_b(c['target'] == 'seg')} [{'; '.join(qs)}])")
    if k == 'order_pair':
        ps2 = '[' + '; '.join(_v3(c['pos'][i]) for i in c['perm']) + ']'
        o = _opts(c, c['opts']['hint'])
        return f"(VL [run_gvp {ps} {rc} {cc} {o}; run_gvp {ps2} {rc} {cc} {o}])"
    return f"(run_gvp {ps} {rc} {cc} {_opts(c, c['opts']['hint'])})"


# --------------------------------------------------------------------------
# independent oracle
# --------------------------------------------------------------------------
ANY = ('any',)
_MARGIN = F(1, 10**6)


class _Close(Exception):
    """a comparison too close to its threshold for float arithmetic to be trusted"""


def _le(a, b, scale):
    """a <= b, refusing to decide within the margin"""
    if abs(a - b) <= _MARGIN * (abs(scale) + abs(b) + F(1, 10**9)):
        raise _Close()
    return a < b


def _rne(x):
    f = math.floor(x)
    r = x - f
    # a multiple near .5 is never within tolerance of an integer, so the direction does not matter
    if r < F(1, 2):
        return f
    if r > F(1, 2):
        return f + 1
    return f if f % 2 == 0 else f + 1


def _spec(D, L, o, hint):
    """The property, on the 1-D description of the stack: D[i] = coordinate of plane i along the
    requested positive normal, L[i] = lateral (in-plane) offset.  Returns ('err', kind) | ('none',) |
    ('some', spacing, indices) | ANY (cannot be decided reliably / order of ties unspecified)."""
    n = len(D)
    if not o['sort'] and (o['dups'] or o['missing']):
        return ('err', 'ValueError')
    if hint is not None:
        hint = abs(F(hint))
        if hint == 0:
            return ('err', 'ValueError')
    if o['rtol'] is not None and o['atol'] is not None:
        return ('err', 'TypeError')
    rtol = F(o['rtol']) if o['rtol'] is not None else (F(0) if o['atol'] is not None else F(1, 100))
    atol = F(o['atol']) if o['atol'] is not None else F(0)
    if n == 0:
        return ('err', 'ValueError')
    if n == 1:
        return ('some', hint if hint is not None else F(1), [0])
    planes = list(zip(D, L))
    distinct = sorted(set(planes))
    if len(distinct) < n and not o['dups']:
        return ('none',)
    if len(distinct) == 1:
        return ('some', hint if hint is not None else F(1), [0] * n)
    try:
        if o['sort']:
            order = distinct
            ties = len({d for d, _ in distinct}) < len(distinct)
        else:
            order = planes
            ties = False
        ds = [d for d, _ in order]
        m = len(ds)
        if o['missing']:
            if hint is not None:
                sp = hint
            else:
                sp = min(b - a for a, b in zip(ds, ds[1:]))
                if _le(abs(sp), F(1, 10**5), sp):
                    return ('none',)
            dmin = min(ds)
            idx_of = {}
            reg = True
            for d, l in order:
                mult = (d - dmin) / sp
                r = _rne(mult)
                idx_of[(d, l)] = r
                if d == dmin:
                    continue        # the lowest plane has multiple exactly 0 (also in floats)
                if not _le(abs(mult - r), atol + rtol * abs(r), 1):
                    reg = False
            spacing = sp
        else:
            spacing = (ds[-1] - ds[0]) / (m - 1)
            if hint is not None and not _le(abs(abs(spacing) - hint), atol + rtol * hint, hint):
                return ('err', 'RuntimeError')
            reg = all(_le(abs((b - a) - spacing), atol + rtol * abs(spacing), spacing) for a, b in zip(ds, ds[1:]))
            idx_of = {p: i for i, p in enumerate(order)}
        if not reg:
            return ('none',)
        if o['enforce'] and spacing < 0:
            return ('none',)
        if ties:
            return ANY          # which of two tied planes comes first is unspecified (np.argsort is not stable)
        # shear: angle between the first-to-last vector and the normal
        dd, dl = order[-1][0] - order[0][0], order[-1][1] - order[0][1]
        n2 = dd * dd + dl * dl
        if n2 == 0:
            return ANY
        # |dd| / sqrt(n2) > 1 - 1e-3
        lhs, rhs = dd * dd, (1 - F(1, 1000)) ** 2 * n2
        if abs(lhs - rhs) <= _MARGIN * n2:
            raise _Close()
        if lhs < rhs:
            return ('none',)
        return ('some', abs(spacing), [idx_of[p] for p in planes])
    except _Close:
        return ANY


def _DL(c, sign):
    m = c['meta']
    s = F(m['s'])
    D = [sign * (k * s + F(j)) for k, j in zip(m['k'], m['jit'])]
    L = [F(x) for x in m['lat']]
    return D, L


def _expected(c, opts=None, hint='opts'):
    import copy
    o = copy.deepcopy(opts or c['opts'])
    if c['conv'] in BAD_CONVS:
        # convention is validated only when a normal is needed
        pre = _spec([F(0)] * len(c['pos']), [F(0)] * len(c['pos']), o, o['hint'] if hint == 'opts' else hint)
        if pre[0] == 'err' or len(c['pos']) == 1:
            return pre
        return ('err', 'ValueError')
    sign = _sign_for([F(x) for x in c['rc']], [F(x) for x in c['cc']], c['conv'], c['hand'])
    D, L = _DL(c, sign)
    return _spec(D, L, o, o['hint'] if hint == 'opts' else hint)


def _match(out, exp, what):
    if exp == ANY:
        return None
    if exp[0] == 'err':
        return None if out == Err(exp[1]) else f'{what}: expected {exp[1]}, got {out!r}'
    if exp[0] == 'none':
        return None if out is None else f'{what}: stack must be rejected, got {out!r}'
    if isinstance(out, Err) or out is None:
        return f'{what}: regular stack refused ({out!r}), expected spacing {float(exp[1])} indices {exp[2]}'
    sp, idx = out
    if abs(sp - float(exp[1])) > 1e-9 * (1 + abs(float(exp[1]))):
        return f'{what}: spacing {sp}, expected {float(exp[1])}'
    if list(idx) != list(exp[2]):
        return f'{what}: indices {idx}, expected {exp[2]}'
    return None


def _numpy_check(c, out):
    """brute force on the float positions: indices are monotone along the positive normal with
    equal spacing, index 0 is used"""
    import numpy as np
    if out is None or isinstance(out, Err) or len(c['pos']) < 2:
        return None
    sp, idx = out
    if len(set(map(tuple, c['pos']))) == 1:
        return None
    sign = _sign_for([F(x) for x in c['rc']], [F(x) for x in c['cc']], c['conv'], c['hand'])
    r = np.array(_fl(c['rc']))
    cc = np.array(_fl(c['cc']))
    nrm = sign * np.cross(r, cc)
    d = np.array(c['pos']) @ nrm
    idx = np.array(idx)
    if len(idx) != len(d):
        return f'{len(idx)} indices for {len(d)} planes'
    if idx.min() != 0:
        return f'smallest index is {idx.min()}'
    o = c['opts']
    tol = (o['atol'] if o['atol'] is not None else (o['rtol'] if o['rtol'] is not None else 0.01) * sp)
    if o['missing']:
        tol = (o['atol'] if o['atol'] is not None else 0) * sp + (o['rtol'] if o['rtol'] is not None else (0 if o['atol'] is not None else 0.01)) * sp * (idx.max() + 1)
    slack = 2 * len(d) * tol + 1e-7 * (1 + abs(d).max())
    descending_ok = not o['sort'] and not o['enforce']
    for i in range(len(d)):
        for j in range(len(d)):
            want = (idx[i] - idx[j]) * sp
            got = d[i] - d[j]
            if abs(got - want) > slack and not (descending_ok and abs(got + want) <= slack):
                return (f'planes {i},{j}: distance along +normal {got:.6g} but index difference '
                        f'{idx[i] - idx[j]} x spacing {sp:.6g}')
    return None


def _by_rank(c):
    """identifiers (1-based input order) sorted along the positive normal of the volume convention"""
    sign = _sign_for([F(x) for x in c['rc']], [F(x) for x in c['cc']], 'DR', 'R')
    D, L = _DL(c, sign)
    return sign, D, L


def oracle(c, out):
    import numpy as np
    k = _via(c)
    if isinstance(out, str):
        return out
    if k == 'normal':
        if c['conv'] in BAD_CONVS:
            return None if out == Err('ValueError') else f'invalid convention {c["conv"]} accepted'
        if isinstance(out, Err):
            return f'valid convention refused: {out}'
        rc, cc = [F(x) for x in c['rc']], [F(x) for x in c['cc']]
        sign = _sign_for(rc, cc, c['conv'], c['hand'])
        want = [float(sign * x) for x in _cross(rc, cc)]
        return None if np.allclose(out, want, atol=1e-12) else f'normal {out}, expected {want}'
    if k == 'plane_sort':
        if isinstance(out, Err):
            return f'refused: {out}'
        sign = _sign_for([F(x) for x in c['rc']], [F(x) for x in c['cc']], c['conv'], c['hand'])
        D, _ = _DL(c, sign)
        if sorted(out) != list(range(len(D))):
            return f'{out} is not a permutation'
        return None if [D[i] for i in out] == sorted(D) else f'sort index {out} does not order the planes along +normal'
    if k == 'sort_datasets':
        if c.get('orient_break') is not None:
            return None if out == Err('ValueError') else f'inconsistent orientation accepted: {out!r}'
        if isinstance(out, Err):
            return f'refused: {out}'
        sign = _sign_for([F(x) for x in c['rc']], [F(x) for x in c['cc']], c['conv'], c['hand'])
        D, _ = _DL(c, sign)
        want = [i + 1 for i in sorted(range(len(D)), key=lambda i: D[i])]
        return None if out == want else f'sorted instance order {out}, expected {want}'
    if k == 'series':
        n = len(c['pos'])
        if n == 1:
            return None if out == [1.0, [0]] else f'single image: {out!r}'
        if c.get('orient_break') is not None:
            return None if out is None else f'inconsistent orientation accepted: {out!r}'
        exp = _expected(c, hint=c['ds_hint'])
        return _match(out, exp, 'get_series_volume_positions') or _numpy_check(c, out)
    if k == 'vol_series':
        n = len(c['pos'])
        if c.get('orient_break') is not None:
            return None if out == Err('ValueError') else f'inconsistent orientation accepted: {out!r}'
        sign, D, L = _by_rank(c)
        if n == 1:
            exp = ('some', F(c['ds_hint']) if c['ds_hint'] is not None else F(1), [0])
        else:
            exp = _spec(D, L, dict(c['opts'], sort=True, missing=False, dups=False, enforce=False), c['ds_hint'])
        if exp == ANY:
            return None
        if exp[0] == 'err':
            return None if out == Err(exp[1]) else f'expected {exp[1]}, got {out!r}'
        if exp[0] == 'none':
            return None if out == Err('ValueError') else f'irregular series assembled: {out!r}'
        if isinstance(out, Err):
            return f'regular series refused: {out}'
        ids, sp, org, sv = out
        want_ids = [i + 1 for i in sorted(range(n), key=lambda i: D[i])]
        if ids != want_ids:
            return f'slices in order {ids}, expected {want_ids} (along +normal whatever the input order)'
        return _geom_check(c, sign, sp, org, sv, exp[1], c['pos'][want_ids[0] - 1])
    if k == 'vol_multiframe':
        n = len(c['pos'])
        sign, D, L = _by_rank(c)
        if len(set(map(tuple, c['pos']))) < n:
            return None if out == Err('RuntimeError') else f'frames at identical positions assembled: {out!r}'
        exp = _spec(D, L, dict(c['opts'], sort=True, dups=True, enforce=False), c['opts']['hint'])
        if exp == ANY:
            return None
        if exp[0] == 'err':
            return None if out == Err(exp[1]) else f'expected {exp[1]}, got {out!r}'
        if exp[0] == 'none':
            return None if out == Err('RuntimeError') else f'irregular frames assembled: {out!r}'
        if isinstance(out, Err):
            return f'regular frames refused: {out}'
        ids, sp, org, sv = out
        slots = [None] * (max(exp[2]) + 1)
        for i, r in enumerate(exp[2]):
            slots[r] = i + 1
        if ids != slots:
            return f'frames placed {ids}, expected {slots}'
        first = exp[2].index(0)
        return _geom_check(c, sign, sp, org, sv, exp[1], c['pos'][first])
    if k == 'mf_geometry':
        sign, (em, ed), exp = _geometry_expected(c)
        what = (f"{'Segmentation' if c['target'] == 'seg' else 'Image'}.get_volume_geometry("
                f"{', '.join(f'{a}={b}' for a, b in _geometry_kwargs(c).items() if b is not None)}) "
                f"[gaps {'allowed' if em else 'not allowed'}, duplicates {'allowed' if ed else 'not allowed'}]")
        if exp == ANY:
            return None
        if exp[0] == 'err' and exp[1] != 'RuntimeError':
            return None if out == Err(exp[1]) else f'{what}: expected {exp[1]}, got {out!r}'
        if exp[0] in ('err', 'none'):
            return None if out is None else f'{what}: stack must be rejected (None), got {out!r}'
        if out is None or isinstance(out, Err):
            return (f'{what}: regular stack refused ({out!r}), expected {max(exp[2]) + 1} slices with spacing '
                    f'{float(exp[1])}')
        nsl, sp, org, sv = out
        if nsl != max(exp[2]) + 1:
            return f'{what}: {nsl} slices, expected {max(exp[2]) + 1}'
        r = _geom_check(c, sign, sp, org, sv, exp[1], c['pos'][exp[2].index(0)])
        return f'{what}: {r}' if r else None
    if k in ('mf_history', 'mf_perframe'):
        if len(out) != len(c['queries']):
            return f'{len(out)} answers to {len(c["queries"])} queries'
        cls = 'Segmentation' if c['target'] == 'seg' else 'Image'
        foreign = None
        if k == 'mf_perframe':
            cls += ' with per-frame ' + ' and '.join(
                n for n, key in (('plane orientation', 'ori_of'), ('pixel measures', 'px_of')) if c[key] is not None)
            if not _pf_consistent(c):
                foreign = _pf_foreign(c)
        for i, (q, a) in enumerate(zip(c['queries'], out)):
            sign, (em, ed), exp = _query_expected(c, q)
            inplane = None
            if k == 'mf_perframe' and isinstance(a, list):
                # [slices, spacing, origin, slice axis, row-step axis, column-step axis (, slots)]
                inplane, a = a[4:6], a[:4] + a[6:]
            if foreign is not None:
                # frames that are not parallel planes on one pixel grid (or contradict each other about the
                # slice spacing) are not a stack, whatever the tolerances / declarations and the frame order
                args = 'get_volume_geometry' if q['op'] == 'geometry' else 'get_volume'
                if q['rtol'] is not None and q['atol'] is not None and a == Err('TypeError'):
                    continue        # refusing the two tolerances first is equally good
                if q['op'] == 'geometry' and a is not None:
                    return (f'query {i + 1} of {len(out)} on one {cls}: {foreign}: {args}() must be None, got '
                            f'{a!r}' + (f' in-plane axes {inplane!r}' if inplane else ''))
                if q['op'] == 'volume' and a != Err('RuntimeError'):
                    return (f'query {i + 1} of {len(out)} on one {cls}: {foreign}: {args}() must raise RuntimeError, '
                            f'got {a!r}')
                continue
            args = ', '.join(f'{n}={q[key]}' for n, key in (('rtol', 'rtol'), ('atol', 'atol'),
                                                           ('allow_missing_positions', 'km'),
                                                           ('allow_duplicate_positions', 'kd')) if q[key] is not None)
            what = (f"query {i + 1} of {len(out)} on one {cls}: "
                    f"{'get_volume_geometry' if q['op'] == 'geometry' else 'get_volume'}({args}) "
                    f"[gaps {'allowed' if em else 'not allowed'}, duplicates {'allowed' if ed else 'not allowed'}]"
                    + (f" after {i} earlier quer{'y' if i == 1 else 'ies'}" if i else ''))
            # the same question asked twice of the same object gets the same answer (whatever the spec says)
            for j in range(i):
                if c['queries'][j] == q and out[j] != out[i]:
                    return f'{what}: {out[i]!r}, but the same query got {out[j]!r} as query {j + 1}'
            if exp == ANY:
                continue
            if q['op'] == 'geometry':
                if exp[0] == 'err' and exp[1] != 'RuntimeError':
                    if a != Err(exp[1]):
                        return f'{what}: expected {exp[1]}, got {a!r}'
                    continue
                if exp[0] in ('err', 'none'):
                    if a is not None:
                        return f'{what}: stack must be rejected (None), got {a!r}'
                    continue
            else:
                if exp[0] == 'err' or exp[0] == 'none':
                    want = exp[1] if exp[0] == 'err' else 'RuntimeError'
                    if a != Err(want):
                        return f'{what}: expected {want}, got {a!r}'
                    continue
            if a is None or isinstance(a, Err):
                return (f'{what}: regular stack refused ({a!r}), expected {max(exp[2]) + 1} slices with spacing '
                        f'{float(exp[1])}')
            if a[0] != max(exp[2]) + 1:
                return f'{what}: {a[0]} slices, expected {max(exp[2]) + 1}'
            r = _geom_check(c, sign, a[1], a[2], a[3], exp[1], c['pos'][exp[2].index(0)])
            if r:
                return f'{what}: {r}'
            if k == 'mf_perframe':
                want_axes = [[float(F(x)) * c['px'][0] for x in c['cc']], [float(F(x)) * c['px'][1] for x in c['rc']]]
                if inplane is None or not np.allclose(inplane, want_axes, rtol=0, atol=1e-9):
                    return (f'{what}: in-plane axes {inplane!r}, expected column cosines x PixelSpacing[0], row '
                            f'cosines x PixelSpacing[1] = {want_axes!r}')
            if q['op'] == 'volume':
                chans = _out_channels(c)
                want = [[None] * len(chans) for _ in range(max(exp[2]) + 1)]
                for f, (vi, ch) in enumerate(zip(exp[2], c['segs'])):
                    want[vi][chans.index(ch)] = f + 1
                if a[4] != want:
                    return f'{what}: frames placed {a[4]} (slice x channel), expected {want}'
        return None
    if k == 'order_pair':
        out1, out2 = out
        d = _permuted(c, c['perm'])
        r = (_match(out1, _expected(c), 'get_volume_positions') or _numpy_check(c, out1) or
             _match(out2, _expected(d), 'get_volume_positions (second order)') or _numpy_check(d, out2))
        if r:
            return r
        if _expected(c) == ANY:
            return None        # order of planes at equal distance / threshold: unspecified
        # independent of the spec: same verdict, same spacing, every plane keeps its index
        if isinstance(out1, Err) or isinstance(out2, Err) or out1 is None or out2 is None:
            return None if out1 == out2 else f'verdict depends on the input order: {out1!r} / order {c["perm"]}: {out2!r}'
        if out1[0] != out2[0]:
            return f'spacing depends on the input order: {out1[0]} / {out2[0]}'
        if [out1[1][i] for i in c['perm']] != list(out2[1]):
            return f'indices depend on the input order: {out1[1]} / order {c["perm"]}: {out2[1]}'
        return None
    # get_volume_positions kinds
    exp = _expected(c)
    return _match(out, exp, 'get_volume_positions') or _numpy_check(c, out)


# documented defaults of the two public entry points (image.py / seg/sop.py signatures)
_GEOMETRY_DEFAULTS = {'image': {'missing': False, 'dups': True}, 'seg': {'missing': True, 'dups': True}}


def _geometry_expected(c):
    """(sign, (gaps allowed, duplicates allowed), verdict of the spec) for an mf_geometry case"""
    dflt = _GEOMETRY_DEFAULTS[c['target']]
    em = dflt['missing'] if c['kw_missing'] is None else c['kw_missing']
    ed = dflt['dups'] if c['kw_dups'] is None else c['kw_dups']
    sign, D, L = _by_rank(c)
    exp = _spec(D, L, dict(c['opts'], sort=True, missing=em, dups=ed, enforce=False), c['opts']['hint'])
    return sign, (em, ed), exp


def _out_channels(c):
    """channels of the array assembled by get_volume: the described segments / the single channel of an image"""
    return list(range(1, max(c['segs']) + 1)) if c['target'] == 'seg' else [0]


def _query_expected(c, q):
    """(sign, (gaps allowed, duplicates allowed), verdict of the spec) for ONE query of an mf_history case:
    from the stack and the arguments of that query only.  get_volume: duplicates of positions are always
    allowed (frames of different segments share planes) but frames must be identified by (position, channel)."""
    dflt = _GEOMETRY_DEFAULTS[c['target']]
    em = dflt['missing'] if q['km'] is None else q['km']
    ed = True if q['op'] == 'volume' or q['kd'] is None else q['kd']
    sign, D, L = _by_rank(c)
    if q['op'] == 'volume' and len({(ch, tuple(p)) for ch, p in zip(c['segs'], c['pos'])}) < len(c['pos']):
        return sign, (em, ed), ('err', 'RuntimeError')
    o = dict(c['opts'], rtol=q['rtol'], atol=q['atol'], sort=True, missing=em, dups=ed, enforce=False)
    return sign, (em, ed), _spec(D, L, o, c['opts']['hint'])


def _pf_consistent(c):
    """every frame of an mf_perframe case carries the same orientation, pixel spacing and spacing hint
    (decided on the values written into the dataset, float equality)"""
    def same(xs):
        return xs is None or all(x == xs[0] for x in xs)
    return same(c['ori_of']) and same(c['px_of']) and same(c['sbs_of'])


def _pf_foreign(c):
    """description of the disagreement between the frames of an mf_perframe case"""
    for key, name in (('ori_of', 'ImageOrientationPatient'), ('px_of', 'PixelSpacing'),
                      ('sbs_of', 'SpacingBetweenSlices')):
        xs = c[key]
        if xs is not None and any(x != xs[0] for x in xs):
            j = next(i for i, x in enumerate(xs) if x != xs[0])
            return f'frame 1 has {name} {xs[0]} but frame {j + 1} has {xs[j]} (frames {len(xs)})'
    return None


def _geom_check(c, sign, sp, org, sv, want_sp, want_org):
    import numpy as np
    if abs(sp - float(want_sp)) > 1e-9 * (1 + float(want_sp)):
        return f'slice spacing {sp}, expected {float(want_sp)}'
    if not np.allclose(org, want_org, rtol=0, atol=1e-9):
        return f'origin {org}, expected the position of the first slice {want_org}'
    nrm = sign * np.cross(np.array(_fl(c['rc'])), np.array(_fl(c['cc'])))
    if not np.allclose(sv, nrm * sp, rtol=0, atol=1e-9 * (1 + sp)):
        return f'slice axis {sv}, expected {(nrm * sp).tolist()}'
    return None


def nontrivial(c, out):
    k = _via(c)
    if k == 'normal':
        return True
    if len({tuple(p) for p in c['pos']}) < 2:
        return False
    if k in ('plane_sort', 'sort_datasets'):
        return True
    return not _undecided(c)


def shrink(c):
    if c.get('queries') and len(c['queries']) > 1:
        for i in range(len(c['queries'])):
            yield dict(c, queries=c['queries'][:i] + c['queries'][i + 1:])
    if 'pos' not in c or len(c['pos']) <= 1:
        return
    for i in range(len(c['pos'])):
        d = dict(c, pos=c['pos'][:i] + c['pos'][i + 1:],
                 meta=dict(c['meta'], k=c['meta']['k'][:i] + c['meta']['k'][i + 1:],
                           jit=c['meta']['jit'][:i] + c['meta']['jit'][i + 1:],
                           lat=c['meta']['lat'][:i] + c['meta']['lat'][i + 1:]))
        if d.get('resc') is not None:
            d['resc'] = c['resc'][:i] + c['resc'][i + 1:]
        for key in ('segs', 'ori_of', 'px_of', 'sbs_of'):
            if d.get(key) is not None:
                d[key] = c[key][:i] + c[key][i + 1:]
        if d.get('odd') is not None:
            d['odd'] = dict(c['odd'], frames=[j - (j > i) for j in c['odd']['frames'] if j != i])
            if d['odd']['frames'] and len(d['odd']['frames']) == len(d['pos']):
                continue        # keep a frame with the orientation / pixel measures the case is described by
        if d.get('perm') is not None:
            d['perm'] = [j - (j > i) for j in c['perm'] if j != i]
        if d.get('orient_break') is not None:
            if d['orient_break'] == i:
                continue
            if d['orient_break'] > i:
                d['orient_break'] -= 1
        yield d


def extra_obligations(work):
    # T-int: the part of the model that is re-translated from the current source
    import translate_int
    return translate_int.obligations(work, translate_int.FOR['C11'])


if __name__ == '__main__':
    sys.exit(common.main(sys.modules[__name__]))
