"""C18 - bulk annotations return the coordinates and measurements stored.

Implementation driven (real code from $VERIF_REPO/src):
  ann.AnnotationGroup (constructor, get_graphic_data, get_coordinates,
  _get_coordinate_index, get_measurements, from_dataset), ann.Measurements
  (constructor, get_values, from_dataset), ann.MicroscopyBulkSimpleAnnotations
  (constructor, get_annotation_group, get_annotation_groups, from_dataset),
  ann.annread after save_as.
Three paths per case: 'mem' (freshly built object), 'copy' (from_dataset(copy=True):
decode of the freshly written attributes, no file I/O), 'file' (save_as + annread).
On the 'copy' path every get_coordinates(k) is made on a group object on which nothing
has been decoded yet (cold cache); on the 'file' path after get_graphic_data().
Kind 'access_order': one group object reached through one of eight entry points, then a
random sequence of get_coordinates / get_graphic_data calls on that ONE object.
Kind 'graphic_layout' (and the 'layout' field of meas cases): the caller's arrays in
another memory layout (Fortran order, transposed per-axis vectors, strided / negative
stride views, slices of one shared buffer, byte-swapped dtype, read-only) - same values.
Kind 'object' / 'object_err': whole instances - 1-4 groups, each with graphic data AND
measurements AND its own identification; a group object is looked up (number / uid /
filter) and THEN read (accessor history + get_measurements value matrices) on all three
paths; constructor guards of AnnotationGroup (number, algorithm type, algorithm
identification) and of MicroscopyBulkSimpleAnnotations (coordinate type, source images,
frame of reference, transfer syntax, numbering), one violated at a time.
Kind 'graphic_nonfinite': malformed input whose non-finite values are PLACED: one cell, a whole column
of the group (one and the same word / different non-finite words / all rows but one / one annotation
only), a whole row, everything - x, y or z, over a shared or varying finite z; if such a group is
accepted, what it stores (point data, CommonZCoordinateValue) and hands back (fresh, written + parsed)
is recorded for the report.
Kind 'graphic_counts': the vector of point counts of the annotations of one group is the input (sizes that obey /
break the rule of the graphic type in one place, in several places, in ways that cancel out in the total); if a
malformed group is accepted, the partition of the points that each path hands back is reported.
Model: coq/theories/C18_Model.v; theorems: C18_Props.v.

Floats are carried as their bit patterns ("words"); the case files store words
for float dtypes and plain integers for integer dtypes.
"""
import io
import os
import sys

sys.path.insert(0, os.path.dirname(os.path.abspath(__file__)))
import common
from common import Err, catch, zlit, zl, zll, optz

PROPERTY = 'C18'
PROPS_FILE = 'C18_Props.v'
COQ_IMPORTS = ['C18_Model']
TOL = None
ORACLE_PREMISES = [
    'W1: pydicom save_as + dcmread return OF/OD/OL byte strings, FD, US/UL, LO, UI and code sequences unchanged '
    '(exercised by the file path on every case, not proved)',
    'numpy: concatenate/astype widen float32->float64 exactly and cast integers exactly to float32 when binary32-representable, '
    'else to float64 (|v| <= 2^53); tobytes/frombuffer '
    'keep bit patterns; np.unique on the z column = IEEE equality classes; np.split = Python slicing',
    'CommonZCoordinateValue (FD, Python float) holds a binary32 z exactly (binary32 -> binary64 -> binary32 is the identity)',
    'int32 index lists do not overflow (total number of stored coordinate values < 2^31)',
    'numpy delivers the logical (row-major, native byte order) element sequence of the caller\'s arrays whatever their memory '
    'layout (concatenate, flatten, astype, boolean indexing, np.array(.., float32), tobytes); memory layout is outside the model: '
    'graphic_layout cases are model-compared on their values and judged against a C-ordered native reference',
    'coded concepts / UIDs / labels are compared as opaque identifiers (CodedConcept equality is property C17)',
]
MODELLED = ('ann/content.py Measurements.__init__/get_values, AnnotationGroup.__init__ (graphic data validation, '
            'common-z compaction, flattening, LongPrimitivePointIndexList, measurement count check), get_graphic_data, '
            'get_coordinates, the _graphic_data decode cache keyed by coordinate type (empty after from_dataset, filled by the '
            'constructor / the first successful decode) over arbitrary call histories, _get_coordinate_index, get_measurements; '
            'ann/sop.py group numbering, get_annotation_group, '
            'get_annotation_groups; the whole instance (build_full / run_object): AnnotationGroup.__init__ header guards '
            '(number < 1, algorithm type enum, algorithm identification required unless MANUAL -> TypeError, dropped when '
            'MANUAL), MicroscopyBulkSimpleAnnotations.__init__ guards (coordinate type, frame of reference, number of source '
            'images, transfer syntax), lookup returning the group object, accessor histories and the get_measurements value '
            'matrix (np.vstack(..).T) on that object; from_dataset guards (Dataset type, SOP class, little endian file meta); '
            'lookups on an item sequence that was rearranged after construction (edit_items / run_object_edited / '
            'run_lookup_edited: items removed, reordered, renumbered, stored twice - the search is by the number CARRIED).  '
            'Not modelled (exercised only): SOPClass header attributes, pydicom I/O.')
STRATA = ['graphic', 'graphic_bigint', 'graphic_err', 'graphic_nonfinite', 'graphic_counts', 'decode_raw', 'meas', 'meas_raw', 'group_meas', 'group_meas_err',
          'lookup', 'lookup_err', 'zero_mixed', 'graphic_layout', 'access_order', 'object', 'object_err', 'parse_guard',
          'lookup_edited', 'object_edited']
RULE = ('graphic: 1-4 groups per object, all five graphic types, point counts at and around the limits, 2-D / 3-D with '
        'constant / varying / almost-constant z, dtypes float32 float64 int8..int64 uint8..uint32 and mixed, values from '
        'boundary pools (signed zeros, denormals, max finite, 2^24, dyadic); graphic_err: every guard violated once (count '
        'per type, closed polygon incl. -0/+0, NaN payloads, +-inf, ragged/dimension 1/4, empty list, mixed dimensions); '
        'graphic_nonfinite: every graphic type x f4/f8 x column (x / y / z, 2-D and 3-D) x placement (one cell, whole column '
        'with one word = the column the shared-z compaction removes, whole column with different non-finite words, all rows '
        'but one, one annotation only, one row, everything) x class (quiet / negative / payload / signalling NaN, +inf, -inf), '
        'over a shared or varying finite z, 1-6 annotations incl. ONE 3-D point with z = NaN, + random with memory layouts and '
        'mixed f4/f8 arrays; all must raise ValueError; '
        'graphic_counts: the VECTOR of point counts of a group (everything else well-formed): every graphic type x profile '
        '(valid, one wrong, compensating = wrong sizes whose total is that of a well-formed group / whose mean stays above '
        'the minimum, all wrong, two outlines merged, one outline split over two arrays, only first / only last right, '
        'multiples of the required size, an empty array, random) x 2-D / 3-D x f4 / f8 / integer, + the smallest '
        'compensating vectors ([3,5], [2,4,6], [4,5,4,3], [2,0], [1,0,2,1], [1,3], [2,4], ..); ValueError iff some array '
        'breaks the rule, judged from the array shapes; group_meas_err also has two vectors of n-j and n+j values; '
        'object_err has rows moved between two annotations of one group; '
        'decode_raw: stored attributes mutated (truncated data, missing/short index list, swapped graphic type, wrong '
        'coordinate type); meas: every NaN mask up to length 4 + random, infinities, payload NaNs, several requested '
        'counts; meas_raw: malformed stored indices; group_meas(_err): named vectors, name filters, wrong lengths dense and '
        'sparse; lookup: <= 4 groups with colliding labels/codes/uids, by number/uid/none/filter subsets; '
        'graphic_layout: every memory layout of LAYOUTS x every graphic type (dims / z modes / dtypes cycled) + random; '
        'access_order: every entry point x {last, first, whole group, beyond} as FIRST call on the object, polyline/polygon '
        'biased, then 1-5 further calls, 15 % with a call under the other coordinate type; '
        'object: 1-4 groups x (graphic type, dtype f4/f8/i2/i4, 1-4 annotations, 0-3 measurement vectors with absent values, '
        'colliding labels / codes / uids, MANUAL groups given an algorithm identification), 1 or 2 source images, every group '
        'looked up by number and uid + beyond + filters, 2-4 accessor calls + name filters on the object found; object_err: '
        'each constructor guard violated once, alone and together with a missing algorithm identification (TypeError wins); '
        'parse_guard: from_dataset of the instance / a group / a measurement item given a non-Dataset, another SOP class, a big '
        'endian or missing file meta, copy and no copy, then the usual lookups and reads; '
        'lookup_edited / object_edited: the item sequence is NOT the constructor\'s - an edit (list of [position taken, new '
        'number or none]) is applied to the written Annotation Group Sequence before from_dataset (copy / no copy) and '
        'before annread (edited dataset written again), and to the sequence of the object in memory; every profile of '
        'EDIT_PROFILES (first / middle / last group removed, some / one kept, reversed, shuffled, rotated, two swapped, sparse '
        'ascending numbers up to 65535, offset, zero based, numbers permuted in place, a number carried twice, an item stored '
        'twice, mixed, identity) on 2-7 identification-only groups and on 2-5 whole groups; lookups by every number carried, '
        'its neighbours, every position 0..n+1, every uid, filters (stored order); on whole objects the coordinates and '
        'measurements of the group found are read; '
        'non-trivial = more than one annotation or a rejected input (edited: position and number disagree somewhere); '
        'distinct by case hash')
NOT_EXECUTED = ['float16 / float128 coordinate arrays (outside the property quantifier)',
                '64-bit integer coordinates with |v| > 2^53 (no float storage holds them; the code rounds silently)']
EXHAUSTIVE = {'quick': False, 'thorough': False}

GT = ['POINT', 'POLYLINE', 'POLYGON', 'ELLIPSE', 'RECTANGLE']
INT_DT = ['i1', 'i2', 'i4', 'i8', 'u1', 'u2', 'u4', 'u8']
UID_ROOT = '1.2.826.0.1.3680043.8.498.18.'

# ------------------------------------------------------------------ float words
F4_SPECIAL = [0x00000000, 0x80000000, 0x00000001, 0x807fffff, 0x00800000, 0x7f7fffff, 0xff7fffff,
              0x4b800000, 0x4b800001 - 2, 0x3f800000, 0xbf800000, 0x3f000000, 0x7f000000, 0x33800000]
F8_SPECIAL = [0x0000000000000000, 0x8000000000000000, 0x0000000000000001, 0x800fffffffffffff,
              0x0010000000000000, 0x7fefffffffffffff, 0xffefffffffffffff, 0x4170000000000000,
              0x4170000000000001, 0x3ff0000000000000, 0xbff0000000000000, 0x3ff0000000000001,
              0x7fe0000000000000, 0x3ca0000000000000]
F4_NONFINITE = [0x7f800000, 0xff800000, 0x7fc00000, 0xffc00000, 0x7fc00001, 0x7f800001, 0xffc12345, 0x7fffffff]
F8_NONFINITE = [0x7ff0000000000000, 0xfff0000000000000, 0x7ff8000000000000, 0xfff8000000000000,
                0x7ff8000000000001, 0x7ff0000000000001, 0xfff8000012345678, 0x7fffffffffffffff]


def _np():
    import numpy as np
    return np


def f2w(x, dt):
    np = _np()
    if dt == 'f4':
        return int(np.array([x], np.float32).view(np.uint32)[0])
    return int(np.array([x], np.float64).view(np.uint64)[0])


def rand_word(rng, dt, zero_ok=True):
    """a finite value of dtype dt as a word, boundary biased"""
    r = rng.random()
    if r < 0.55:
        return f2w(rng.randint(-32000, 32000) / 8.0, dt)
    if r < 0.75:
        w = rng.choice(F4_SPECIAL if dt == 'f4' else F8_SPECIAL)
    elif dt == 'f4':
        w = rng.getrandbits(32)
        if (w >> 23) & 0xff == 0xff:
            w &= ~(1 << 23)
    else:
        w = rng.getrandbits(64)
        if (w >> 52) & 0x7ff == 0x7ff:
            w &= ~(1 << 52)
    if not zero_ok and (w << 1) & ((1 << (32 if dt == 'f4' else 64)) - 1) == 0:
        w = f2w(1.0, dt)
    return w


BIG_INTS = [(1 << 24) + 1, (1 << 24) + 2, (1 << 24) + 3, (1 << 25) + 2, (1 << 25) + 4, (1 << 31) - 1, (1 << 31) - 128,
            (1 << 32) - 1, (1 << 32) - 256, (1 << 40) + 1, (1 << 40), (1 << 53), (1 << 53) - 1, (1 << 52) + 1, 33554433, 123456789]


def fits32(v):
    """integer exactly representable in binary32 (pure integer arithmetic)"""
    a = abs(int(v))
    return a == 0 or a.bit_length() <= 24 or a % (1 << (a.bit_length() - 24)) == 0


def rand_int(rng, dt, big=False):
    np = _np()
    info = np.iinfo(np.dtype(dt))
    if big and info.max > (1 << 24) and rng.random() < 0.4:
        v = rng.choice(BIG_INTS) if rng.random() < 0.7 else rng.randint(1 << 24, 1 << 53)
        v = min(v, info.max)
        if info.min < 0 and rng.random() < 0.4:
            v = -v
        return v
    lo, hi = max(info.min, -(1 << 24)), min(info.max, 1 << 24)
    r = rng.random()
    if r < 0.2:
        return rng.choice([lo, hi, 0, max(lo, -1), 1])
    if r < 0.7:
        return rng.randint(max(lo, -300), min(hi, 300))
    return rng.randint(lo, hi)


def rand_val(rng, dt, zero_ok=True, bigint=False):
    if dt in ('f4', 'f8'):
        return rand_word(rng, dt, zero_ok)
    v = rand_int(rng, dt, bigint)
    if not zero_ok and v == 0:
        v = 1
    return v


def npoints(rng, gt, big=False):
    if gt == 'POINT':
        return 1
    if gt in ('ELLIPSE', 'RECTANGLE'):
        return 4
    lo = 2 if gt == 'POLYLINE' else 3
    return rng.choice([lo, lo, lo + 1, lo + 2, rng.randint(lo, 9), rng.randint(lo, 24 if big else 9)])


def _is_zero_val(v, dt):
    if dt == 'f4':
        return v & 0x7fffffff == 0
    if dt == 'f8':
        return v & 0x7fffffffffffffff == 0
    return v == 0


def _same_val(a, b, dt):
    """IEEE / integer equality of two finite values given as words / ints"""
    return a == b or (_is_zero_val(a, dt) and _is_zero_val(b, dt))


def gen_group(rng, d, gt=None, dt=None, nann=None, zmode=None, big=False, bigint=False, counts=None):
    """counts: the number of points of each annotation is GIVEN (possibly against the rule of the graphic type,
    possibly 0); everything else about the group stays well-formed"""
    if counts is not None:
        nann = len(counts)
    gt = gt or rng.choice(GT)
    dt = dt or rng.choice(['f4', 'f4', 'f8', 'f8', rng.choice(INT_DT)])
    nann = nann or rng.choice([1, 1, 2, 3, rng.randint(1, 6), rng.randint(1, 12 if big else 6)])
    zmode = zmode or rng.choice(['const', 'const', 'vary', 'last', 'first'])
    z0 = rand_val(rng, dt, zero_ok=False, bigint=bigint)
    gd = []
    for i in range(nann):
        n = npoints(rng, gt, big) if counts is None else counts[i]
        a = [[rand_val(rng, dt, bigint=bigint) for _ in range(d)] for _ in range(n)]
        if gt == 'POLYGON' and len(a) >= 2 and all(_same_val(x, y, dt) for x, y in zip(a[0], a[-1])):
            a[-1][0] = f2w(12345.0, dt) if dt in ('f4', 'f8') else (a[0][0] + 1 if a[0][0] < 100 else a[0][0] - 1)
            if _same_val(a[-1][0], a[0][0], dt):
                a[-1][0] = f2w(54321.0, dt) if dt in ('f4', 'f8') else 7
        gd.append(a)
    if d == 3:
        rows = [r for a in gd for r in a]
        if zmode in ('const', 'last', 'first'):
            for r in rows:
                r[2] = z0
            other = rand_val(rng, dt, zero_ok=False)
            if zmode == 'last' and len(rows) > 1:
                rows[-1][2] = other
            if zmode == 'first' and len(rows) > 1:
                rows[0][2] = other
        else:
            # varying z: never mix +0 and -0 (np.unique representative is unspecified; see zero_mixed)
            for r in rows:
                if _is_zero_val(r[2], dt):
                    r[2] = z0
        # polygon rule may have been re-violated by forcing z
        for a in gd:
            if gt == 'POLYGON' and len(a) >= 2 and all(_same_val(x, y, dt) for x, y in zip(a[0], a[-1])):
                a[-1][1] = f2w(777.0, dt) if dt in ('f4', 'f8') else (5 if a[0][1] != 5 else 6)
    return {'gt': gt, 'dt': dt, 'gd': gd}


def gen_graphic(rng, tier):
    d = rng.choice([2, 3])
    ng = rng.choice([1, 1, 1, 2, 3, 4])
    big = tier != 'quick'
    groups = [gen_group(rng, d, big=big) for _ in range(ng)]
    if rng.random() < 0.12:
        # mixed dtypes inside one group
        g = groups[0]
        g['dts'] = [rng.choice(['f4', 'f8', 'i2', 'i4', 'u1']) for _ in g['gd']]
        g2 = []
        for a, dt in zip(g['gd'], g['dts']):
            fresh = gen_group(rng, d, gt=g['gt'], dt=dt, nann=1, zmode='vary')['gd'][0]
            g2.append(fresh)
        g['gd'] = g2
        g['dt'] = 'mixed'
        if d == 3 and rng.random() < 0.5:
            for a, dt in zip(g['gd'], g['dts']):
                for r in a:
                    r[2] = f2w(3.0, dt) if dt in ('f4', 'f8') else 3
    return {'kind': 'graphic', 'd': d, 'groups': groups, 'implicit': rng.random() < 0.3}


# memory layouts of the caller's coordinate arrays (same values, same dtype kind)
LAYOUTS = ['c', 'f', 'columns', 'fslices', 'mixed', 'strided', 'negrow', 'negcol', 'cslices', 'be', 'readonly']
VLAYOUTS = ['c', 'strided', 'neg', 'be', 'readonly']


def gen_graphic_layout(rng, tier, gt=None, d=None, zm=None, dt=None, layout=None, nann=None):
    d = d or rng.choice([2, 3])
    groups = []
    for i in range(rng.choice([1, 1, 2])):
        g = gen_group(rng, d, gt=gt if i == 0 else None, dt=dt if i == 0 else None, zmode=zm if i == 0 else None,
                      nann=(nann if i == 0 else None) or rng.choice([1, 2, 3, rng.randint(1, 5)]))
        g['layout'] = (layout if i == 0 else None) or rng.choice(LAYOUTS[1:])
        groups.append(g)
    return {'kind': 'graphic_layout', 'd': d, 'groups': groups, 'implicit': rng.random() < 0.2}


ENTRIES = ['mem', 'sop_copy', 'sop_nocopy', 'file_number', 'file_uid', 'file_filter', 'group_copy', 'group_nocopy']


def gen_access_order(rng, gt=None, first=None, entry=None):
    """one group object, a sequence of accessor calls on it; ops = ['all', other] | ['one', k, other]
    (other = 1: the call asks for the coordinate type the object does NOT have)"""
    d = rng.choice([2, 3])
    g = gen_group(rng, d, gt=gt or rng.choice(['POLYLINE', 'POLYGON', 'POLYLINE', 'POLYGON', 'POINT', 'ELLIPSE', 'RECTANGLE']),
                  dt=rng.choice(['f4', 'f8', 'f4', 'f8', 'i2', 'i4']), nann=rng.choice([1, 2, 3, 3, rng.randint(2, 6)]))
    n = len(g['gd'])

    def op(which):
        if which == 'all':
            return ['all', 0]
        return ['one', {'last': n, 'first': 1, 'mid': rng.randint(1, n), 'beyond': n + 1, 'zero': 0, 'neg': -1}[which], 0]
    ops = [op(first or rng.choice(['last', 'last', 'last', 'first', 'mid', 'all', 'beyond', 'zero']))]
    for _ in range(rng.randint(1, 5)):
        ops.append(op(rng.choice(['last', 'last', 'first', 'mid', 'mid', 'all', 'all', 'beyond', 'zero', 'neg'])))
    if rng.random() < 0.15:
        ops[rng.randrange(len(ops))][-1] = 1
    if rng.random() < 0.2:
        g['layout'] = rng.choice(LAYOUTS[1:])
    return {'kind': 'access_order', 'd': d, 'group': g, 'entry': entry or rng.choice(ENTRIES), 'ops': ops,
            'implicit': rng.random() < 0.2}


def gen_graphic_bigint(rng):
    """integer coordinates beyond 2^24: stored in double precision unless every value is binary32-representable"""
    d = rng.choice([2, 3])
    groups = [gen_group(rng, d, dt=rng.choice(['i4', 'u4', 'i8', 'i8', 'u8']), bigint=True,
                        nann=rng.choice([1, 2, 3])) for _ in range(rng.choice([1, 1, 2]))]
    if rng.random() < 0.25:
        # all values representable although large: single precision must be kept
        g = groups[0]
        g['gd'] = [[[(v >> 30) << 30 if abs(v) > (1 << 24) else v for v in r] for r in a] for a in g['gd']]
        if g['gt'] == 'POLYGON':
            for a in g['gd']:
                if a[0] == a[-1]:
                    a[-1][0] = a[0][0] + (1 << 30)
    return {'kind': 'graphic_bigint', 'd': d, 'groups': groups, 'implicit': rng.random() < 0.3}


def gen_graphic_err(rng):
    d = rng.choice([2, 3])
    mode = rng.choice(['count', 'count', 'count', 'closed', 'closed_zero', 'nonfinite', 'nonfinite', 'dim', 'ragged',
                       'empty', 'mixed_dim', 'empty_annot', 'int_too_big'])
    dt = rng.choice(['f4', 'f8']) if mode in ('nonfinite', 'closed_zero') else rng.choice(['f4', 'f8', 'i4', 'u2'])
    if mode == 'int_too_big':
        dt = rng.choice(['i8', 'u8'])
    gt = rng.choice(GT)
    if mode in ('closed', 'closed_zero'):
        gt = 'POLYGON'
    g = gen_group(rng, d, gt=gt, dt=dt)
    gd = g['gd']
    i = rng.randrange(len(gd))
    if mode == 'count':
        if gt == 'POINT':
            gd[i] = gd[i] + [list(gd[i][0]) for _ in range(rng.choice([1, 3]))]
        elif gt in ('ELLIPSE', 'RECTANGLE'):
            gd[i] = gd[i][:rng.choice([1, 2, 3])] if rng.random() < 0.4 else gd[i] + [[rand_val(rng, dt) for _ in range(d)] for _ in range(rng.choice([1, 1, 4]))]
        elif gt == 'POLYLINE':
            gd[i] = gd[i][:1]
        else:
            gd[i] = gd[i][:2]
    elif mode == 'closed':
        gd[i][-1] = list(gd[i][0])
    elif mode == 'closed_zero':
        gd[i][0][0] = f2w(0.0, dt)
        gd[i][-1] = list(gd[i][0])
        gd[i][-1][0] = f2w(-0.0, dt)
    elif mode == 'int_too_big':
        a = gd[i]
        v = rng.choice([(1 << 53) + 1, (1 << 53) + 2, (1 << 62), (1 << 63) - 1, (1 << 60) + 12345])
        if dt == 'u8' and rng.random() < 0.5:
            v = rng.choice([(1 << 64) - 1, (1 << 63), (1 << 63) + 1024])
        if dt == 'i8' and rng.random() < 0.4:
            v = -v if v < (1 << 63) - 1 else -(1 << 63)
        a[rng.randrange(len(a))][rng.randrange(d)] = v
    elif mode == 'nonfinite':
        a = gd[i]
        a[rng.randrange(len(a))][rng.randrange(d)] = rng.choice(F4_NONFINITE if dt == 'f4' else F8_NONFINITE)
    elif mode == 'dim':
        nd = rng.choice([1, 4, 5])
        g['gd'] = [[(r + r + r)[:nd] for r in a] for a in gd]
    elif mode == 'mixed_dim':
        if len(gd) == 1:
            gd.append([list(r) for r in gd[0]])
        gd[i] = [(r + r)[:5 - d] for r in gd[i]]
    elif mode == 'empty':
        g['gd'] = []
    elif mode == 'empty_annot':
        gd[i] = []
    elif mode == 'ragged':
        # a ragged annotation is not a numpy array; the nearest API input is an
        # annotation with another column count than its neighbours (=mixed_dim)
        if len(gd) == 1:
            gd.append([list(r) for r in gd[0]])
        gd[i] = [r[:d - 1] for r in gd[i]] if d == 3 else [r + [r[0]] for r in gd[i]]
    return {'kind': 'graphic_err', 'mode': mode, 'd': d, 'groups': [g], 'implicit': False}


# ---- point counts per annotation: the VECTOR of sizes of a group (everything else well-formed)
COUNT_RULE = {'POINT': (1, 1), 'POLYLINE': (2, None), 'POLYGON': (3, None), 'ELLIPSE': (4, 4), 'RECTANGLE': (4, 4)}
COUNT_PROFILES = ['valid', 'one_wrong', 'compensating', 'compensating_long', 'all_wrong', 'merged', 'split', 'first_ok',
                  'last_ok', 'multiple', 'empty_one', 'random']
# smallest vectors whose sizes add up to (fixed types) / stay above (open-ended types) those of a well-formed group
COUNT_FIXTURES = {
    'ELLIPSE': [[3, 5], [5, 3], [2, 4, 6], [4, 5, 4, 3], [4, 1, 7, 4], [0, 8], [1, 4, 7]],
    'RECTANGLE': [[3, 5], [5, 3], [6, 4, 2], [3, 4, 5, 4], [4, 7, 1, 4], [8, 0], [7, 4, 1]],
    'POINT': [[2, 0], [0, 2], [1, 0, 2, 1], [0, 1, 2], [3, 0, 0], [2, 1, 0, 1]],
    'POLYLINE': [[1, 3], [3, 1], [2, 1, 3], [0, 4], [5, 2, 1]],
    'POLYGON': [[2, 4], [4, 2], [3, 2, 4], [1, 5], [0, 6], [7, 3, 2]],
}


def count_vector(rng, gt, profile, n=None):
    """sizes of the annotations of one group under a profile; 'valid' obeys the rule, every other one breaks it"""
    k, hi = COUNT_RULE[gt]
    fixed = hi is not None
    n = n or rng.choice([2, 2, 3, 4, rng.randint(2, 6)])

    def ok():
        return k if fixed else rng.choice([k, k, k + 1, k + 2, rng.randint(k, 8)])

    def wrong():
        return rng.choice([v for v in range(0, k + 5) if v != k]) if fixed else rng.randint(0, k - 1)
    cs = [ok() for _ in range(n)]
    if profile == 'valid':
        return cs
    if profile == 'one_wrong':
        cs[rng.randrange(n)] = wrong()
    elif profile in ('compensating', 'compensating_long'):
        if profile == 'compensating_long':
            n = max(n, 3)
            cs = [ok() for _ in range(n)]
        i, j = rng.sample(range(n), 2)
        if fixed:
            # points move from one annotation to another: the total stays k * n
            for _ in range(1 if profile == 'compensating' else rng.choice([1, 2])):
                delta = rng.randint(1, k)
                cs[i] -= delta
                cs[j] += delta
                if profile == 'compensating_long':
                    j = rng.choice([x for x in range(n) if x != i])
            if profile == 'compensating_long' and rng.random() < 0.5:
                # three wrong sizes, e.g. k-1, k-1, k+2
                a, b, c = rng.sample(range(n), 3)
                cs = [k] * n
                cs[a], cs[b], cs[c] = k - 1, k - 1 if k > 1 else 0, k + 2 if k > 1 else 3
                if k == 1:
                    cs[a] = 0
        else:
            # one annotation below the minimum, another long enough for the mean to stay above it
            short = rng.randint(0, k - 1)
            cs[i] = short
            cs[j] = max(cs[j], k + (k - short) + rng.choice([0, 0, 1, 3]))
    elif profile == 'all_wrong':
        w = rng.choice([k + 1, 2 * k, k + 3] + ([k - 1] if k > 1 else [])) if fixed else k - 1
        cs = [w] * n
    elif profile == 'merged':
        # two outlines in one array (open-ended types: one outline cut into a stub and the rest)
        if fixed:
            cs[rng.randrange(n)] = 2 * k
        else:
            cs[rng.randrange(n)] = 1
    elif profile == 'split':
        # one outline spread over two arrays
        i = rng.randrange(n)
        j = rng.randint(1, k - 1) if k > 1 else 0
        cs[i:i + 1] = [j, (cs[i] if fixed else k) - j]
    elif profile == 'first_ok':
        cs = [ok()] + [wrong() for _ in range(n - 1)]
    elif profile == 'last_ok':
        cs = [wrong() for _ in range(n - 1)] + [ok()]
    elif profile == 'multiple':
        # every size a multiple of the required one / the total divisible by it
        if fixed:
            cs = [k * rng.choice([1, 2, 3]) for _ in range(n)]
            cs[rng.randrange(n)] = k * rng.choice([2, 3])
        else:
            cs = [k * 2] * n
            cs[rng.randrange(n)] = k - 1
    elif profile == 'empty_one':
        cs[rng.randrange(n)] = 0
    elif profile == 'random':
        cs = [rng.randint(0, k + 3) for _ in range(n)]
        cs[rng.randrange(n)] = wrong()
    else:
        raise ValueError(profile)
    return cs


def gen_graphic_counts(rng, gt=None, profile=None, counts=None, d=None, dt=None, zmode=None, plain=False):
    """one group whose annotations have the given sizes; whether that obeys the rule is for the oracle to say"""
    gt = gt or rng.choice(GT)
    d = d or rng.choice([2, 3])
    profile = profile or rng.choice(COUNT_PROFILES)
    if counts is None:
        counts = count_vector(rng, gt, profile)
    g = gen_group(rng, d, gt=gt, dt=dt or rng.choice(['f4', 'f8', 'f4', 'f8', 'i4', 'u2', 'i8']),
                  zmode=zmode or rng.choice(['const', 'vary']), counts=counts)
    if not plain and rng.random() < 0.2:
        g['layout'] = rng.choice(LAYOUTS[1:])
    return {'kind': 'graphic_counts', 'profile': profile, 'd': d, 'groups': [g], 'implicit': False}


# ---- non-finite coordinates: WHERE they sit (cell / column / row / all) and of which class
NF_PLACEMENTS = ['cell', 'column_same', 'column_mixed', 'column_annot', 'column_but_one', 'row', 'all']
NF_CLASSES = ['nan', 'pinf', 'ninf', 'nan_neg', 'nan_payload', 'snan']
NF_WORDS = {
    'f4': {'nan': 0x7fc00000, 'pinf': 0x7f800000, 'ninf': 0xff800000, 'nan_neg': 0xffc00000, 'nan_payload': 0x7fc12345,
           'snan': 0x7f800001},
    'f8': {'nan': 0x7ff8000000000000, 'pinf': 0x7ff0000000000000, 'ninf': 0xfff0000000000000,
           'nan_neg': 0xfff8000000000000, 'nan_payload': 0x7ff8000012345678, 'snan': 0x7ff0000000000001},
}


def place_nonfinite(rng, g, d, placement, col, vclass):
    """overwrite coordinates of the float group g (in place) with non-finite words; returns g.
    The result always contains at least one non-finite value."""
    dt, gd = g['dt'], g['gd']
    w = NF_WORDS[dt][vclass]
    rows = [r for a in gd for r in a]
    if placement == 'cell':
        rng.choice(rows)[col] = w
    elif placement == 'column_same':
        for r in rows:
            r[col] = w
    elif placement == 'column_mixed':
        o = NF_WORDS[dt][rng.choice([k for k in NF_CLASSES if k != vclass])]
        for i, r in enumerate(rows):
            r[col] = o if i % 2 else w
    elif placement == 'column_annot':
        for r in rng.choice(gd):
            r[col] = w
    elif placement == 'column_but_one':
        for r in rows:
            r[col] = w
        if len(rows) > 1:
            rows[rng.randrange(len(rows))][col] = f2w(3.0, dt)
    elif placement == 'row':
        r = rng.choice(rows)
        r[:] = [w] * d
    elif placement == 'all':
        for r in rows:
            r[:] = [w] * d
    else:
        raise ValueError(placement)
    if g['gt'] == 'POLYGON' and placement not in ('row', 'all'):
        # keep every polygon open in a finite column, so that the non-finite value is the ONLY defect
        c2 = 0 if col == 1 else 1
        for a in gd:
            if _same_val(a[0][c2], a[-1][c2], dt):
                a[-1][c2] = f2w(777.0, dt) if not _same_val(a[0][c2], f2w(777.0, dt), dt) else f2w(778.0, dt)
    return g


def gen_graphic_nonfinite(rng, gt=None, dt=None, d=None, col=None, placement=None, vclass=None, nann=None, zmode=None,
                          plain=False):
    d = d or rng.choice([2, 3, 3])
    dt = dt or rng.choice(['f4', 'f8'])
    col = rng.randrange(d) if col is None else col
    placement = placement or rng.choice(NF_PLACEMENTS)
    vclass = vclass or rng.choice(NF_CLASSES)
    g = gen_group(rng, d, gt=gt, dt=dt, nann=nann or rng.choice([1, 1, 2, 3, rng.randint(1, 6)]),
                  zmode=zmode or rng.choice(['const', 'vary']))
    place_nonfinite(rng, g, d, placement, col, vclass)
    assert any(((w >> 23) & 0xff) == 0xff if dt == 'f4' else ((w >> 52) & 0x7ff) == 0x7ff
               for a in g['gd'] for r_ in a for w in r_), 'no non-finite value placed'
    if not plain:
        r = rng.random()
        if r < 0.25:
            g['layout'] = rng.choice(LAYOUTS[1:])
        elif r < 0.4 and len(g['gd']) > 1:
            # arrays of both precisions in one group (numpy widens to float64 before any check)
            g['dts'] = [dt] + [rng.choice(['f4', 'f8']) for _ in g['gd'][1:]]
            g['gd'] = [a if t == dt else [[_reword(w, dt, t) for w in r_] for r_ in a] for a, t in zip(g['gd'], g['dts'])]
            g['dt'] = 'mixed' if len(set(g['dts'])) > 1 else dt
    return {'kind': 'graphic_nonfinite', 'd': d, 'col': col, 'placement': placement, 'vclass': vclass, 'groups': [g],
            'implicit': False}


def _reword(w, src, dst):
    """the same value as a word of the other precision (exact or to nearest; NaN / inf stay NaN / inf)"""
    np = _np()
    with np.errstate(all='ignore'):
        if src == 'f4':
            return int(np.array([w], np.uint32).view(np.float32).astype(np.float64).view(np.uint64)[0])
        x = np.array([w], np.uint64).view(np.float64).astype(np.float32)
        if not np.isfinite(x[0]) and ((w >> 52) & 0x7ff) != 0x7ff:
            x = np.array([1.0], np.float32)          # a finite double beyond the binary32 range: keep it finite
        return int(x.view(np.uint32)[0])


def gen_zero_mixed(rng):
    dt = rng.choice(['f4', 'f8'])
    if rng.random() < 0.5:
        # few rows: numpy's sort is stable there and np.unique keeps the first row's z, like the model
        g = gen_group(rng, 3, gt=rng.choice(['POINT', 'POLYLINE']), dt=dt, zmode='vary', nann=rng.randint(2, 3))
        if g['gt'] == 'POLYLINE':
            g['gd'] = [a[:2] for a in g['gd']]
    else:
        g = gen_group(rng, 3, dt=dt, zmode='vary', nann=rng.randint(2, 4))
    rows = [r for a in g['gd'] for r in a]
    for r in rows:
        r[2] = f2w(0.0 if rng.random() < 0.5 else -0.0, dt)
    rows[0][2] = f2w(0.0, dt)
    rows[-1][2] = f2w(-0.0, dt)
    if g['gt'] == 'POLYGON':
        for a in g['gd']:
            a[-1][0] = f2w(99.0, dt)
            a[0][0] = f2w(98.0, dt)
    return {'kind': 'zero_mixed', 'd': 3, 'groups': [g], 'implicit': False}


def gen_decode_raw(rng):
    d = rng.choice([2, 3])
    g = gen_group(rng, d, dt=rng.choice(['f4', 'f8']), nann=rng.randint(1, 4))
    mut = rng.choice(['none', 'truncate', 'extend', 'drop_idx', 'short_idx', 'gt', 'gt', 'cd', 'idx_shift', 'empty'])
    return {'kind': 'decode_raw', 'd': d, 'group': g, 'mut': mut, 'seed': rng.randrange(1 << 30)}


def rand_meas_word(rng):
    r = rng.random()
    if r < 0.35:
        return 0x7fc00000
    if r < 0.42:
        return rng.choice([0x7fc00001, 0xffc00000, 0x7f800001, 0xffc12345, 0x7fffffff])
    if r < 0.5:
        return rng.choice([0x7f800000, 0xff800000, 0x80000000, 0, 1, 0x7f7fffff])
    return f2w(rng.randint(-4000, 4000) / 4.0, 'f4')


def gen_meas(rng, vs=None):
    if vs is None:
        n = rng.choice([0, 1, 1, 2, 3, 4, rng.randint(1, 9)])
        vs = [rand_meas_word(rng) for _ in range(n)]
    n = len(vs)
    ns = sorted({n, max(0, n - 1), n + 1, rng.choice([0, 1, n + 2, -1])})
    return {'kind': 'meas', 'vs': vs, 'dt': rng.choice(['f4', 'f8']), 'ns': ns,
            'layout': rng.choice(VLAYOUTS) if rng.random() < 0.4 else 'c'}


def gen_meas_raw(rng):
    n = rng.randint(0, 5)
    k = rng.randint(0, 5)
    vals = [f2w(rng.randint(-40, 40) / 4.0, 'f4') for _ in range(k)]
    mode = rng.choice(['noidx', 'ok', 'short', 'zero', 'big', 'dup', 'neg'])
    if mode == 'noidx':
        idx = None
    else:
        idx = sorted(rng.sample(range(1, n + 1), min(k, n))) if n else []
        if mode == 'short' and idx:
            idx = idx[:-1]
        elif mode == 'zero' and idx:
            idx[0] = 0
        elif mode == 'big':
            idx = idx + [n + rng.randint(1, 2)]
        elif mode == 'dup' and idx:
            idx = idx + [idx[0]]
        elif mode == 'neg' and idx:
            idx[-1] = -rng.randint(1, n + 2)
        vals = (vals + [f2w(1.5, 'f4')] * 8)[:len(idx) if rng.random() < 0.8 else max(0, len(idx) - 1)]
    return {'kind': 'meas_raw', 'vals': vals, 'idx': idx, 'n': n}


def gen_group_meas(rng, bad=False):
    n = rng.randint(1, 5)
    k = rng.choice([0, 1, 1, 2, 3])
    if bad:
        k = max(k, 1)
    ms = []
    for _ in range(k):
        ms.append({'name': rng.randrange(3), 'vs': [rand_meas_word(rng) for _ in range(n)],
                   'dt': rng.choice(['f4', 'f8']), 'layout': rng.choice(VLAYOUTS) if rng.random() < 0.3 else 'c'})
    mode = 'ok'
    if bad:
        m = ms[rng.randrange(k)]
        mode = rng.choice(['dense_short', 'dense_long', 'sparse_short', 'sparse_long', 'sparse_long_nan', 'one', 'allnan',
                           'comp_dense', 'comp_sparse'])
        fin = f2w(2.5, 'f4')
        if mode in ('comp_dense', 'comp_sparse'):
            # two vectors of wrong lengths that add up to those of two good ones (n - j and n + j values)
            if len(ms) < 2:
                ms.append({'name': rng.randrange(3), 'vs': [], 'dt': rng.choice(['f4', 'f8']), 'layout': 'c'})
            m1, m2 = rng.sample(ms, 2)
            j = rng.randint(1, n)
            m1['vs'] = [fin] * (n - j)
            m2['vs'] = [fin] * (n + j)
            if mode == 'comp_sparse':
                m2['vs'][rng.randrange(n + j)] = 0x7fc00000
                if n - j > 1:
                    m1['vs'][rng.randrange(n - j)] = 0x7fc00000
        if mode == 'dense_short':
            m['vs'] = [fin] * (n - 1)
        elif mode == 'dense_long':
            m['vs'] = [fin] * (n + rng.randint(1, 2))
        elif mode == 'sparse_short':
            m['vs'] = ([fin, 0x7fc00000] * n)[:n - 1] if n > 1 else []
            if n > 1 and 0x7fc00000 not in m['vs']:
                m['vs'][0] = 0x7fc00000
        elif mode == 'sparse_long':
            m['vs'] = [0x7fc00000] + [fin] * n
        elif mode == 'sparse_long_nan':
            m['vs'] = [fin] * n + [0x7fc00000] * rng.randint(1, 2)
            m['vs'][rng.randrange(n)] = 0x7fc00000
        elif mode == 'one':
            m['vs'] = [fin] if n > 1 else [fin, fin]
        elif mode == 'allnan':
            m['vs'] = [0x7fc00000] * (n + rng.choice([-1, 1]) if n > 1 else 2)
    queries = [None] + sorted({rng.randrange(4) for _ in range(2)})
    return {'kind': 'group_meas_err' if bad else 'group_meas', 'mode': mode, 'n': n, 'ms': ms,
            'queries': queries, 'none_if_empty': rng.random() < 0.5, 'implicit': rng.random() < 0.3}


ALGT = ['MANUAL', 'SEMIAUTOMATIC', 'AUTOMATIC']


def gen_lookup(rng, bad=False):
    ng = rng.randint(1, 4)
    gs = []
    for i in range(ng):
        at = rng.randrange(3)
        gs.append({'number': i + 1, 'uid': i if rng.random() < 0.9 else rng.randrange(ng),
                   'label': rng.randrange(3), 'cat': rng.randrange(2), 'typ': rng.randrange(3),
                   'gt': rng.choice(GT), 'algtype': at,
                   'alg': None if at == 0 else [rng.randrange(2), rng.randrange(2), rng.randrange(2)]})
    if bad:
        mode = rng.choice(['swap', 'dup', 'gap', 'zero_based'])
        if mode == 'swap' and ng > 1:
            gs[0]['number'], gs[1]['number'] = gs[1]['number'], gs[0]['number']
        elif mode == 'dup' and ng > 1:
            gs[-1]['number'] = gs[0]['number']
        elif mode == 'gap' or ng == 1:
            gs[-1]['number'] += 1
        else:
            for g in gs:
                g['number'] -= 1
            gs[0]['number'] = ng  # numbers must stay >= 1 for the group constructor
    ls = [['number', k] for k in range(0, ng + 2)] + [['uid', u] for u in range(0, ng + 1)] + [['nothing']]
    for _ in range(8):
        q = {}
        for key, hi in (('cat', 2), ('typ', 3), ('label', 3), ('algtype', 3), ('name', 2), ('version', 2), ('family', 2)):
            if rng.random() < 0.3:
                q[key] = rng.randrange(hi + (1 if key in ('label', 'typ') else 0))
        if rng.random() < 0.3:
            q['gt'] = rng.choice(GT)
        ls.append(['query', q])
    ls.append(['query', {}])
    return {'kind': 'lookup_err' if bad else 'lookup', 'groups': gs, 'lookups': ls, 'implicit': rng.random() < 0.3}


OBJ_ERR_MODES = ['number_zero', 'number_neg', 'algtype_bad', 'alg_missing', 'numbering_swap', 'numbering_gap', 'meas_len',
                 'graphic_count', 'graphic_nonfinite', 'hdr_nosrc', 'hdr_2src_2d', 'hdr_for', 'hdr_ts', 'hdr_ctype',
                 'alg_missing+hdr_ts', 'alg_missing+numbering_gap', 'alg_missing+graphic_count', 'number_zero+alg_missing',
                 'graphic_nonfinite_col', 'alg_missing+graphic_nonfinite_col', 'graphic_count_comp',
                 'alg_missing+graphic_count_comp']


def gen_object(rng, tier, mode=None, ng=None):
    """a whole instance: groups with graphic data + measurements + identification, lookups, then reads"""
    d = rng.choice([2, 3])
    ng = rng.choice([1, 2, 2, 3, 4]) if ng is None else ng
    groups = []
    for i in range(ng):
        g = gen_group(rng, d, dt=rng.choice(['f4', 'f8', 'f4', 'f8', 'i2', 'i4']), nann=rng.choice([1, 2, 3, rng.randint(1, 4)]))
        n = len(g['gd'])
        at = rng.randrange(3)
        g.update({'number': i + 1, 'uid': i if rng.random() < 0.85 else rng.randrange(ng), 'label': rng.randrange(3),
                  'cat': rng.randrange(2), 'typ': rng.randrange(3), 'algtype': at,
                  # a MANUAL group may be GIVEN an algorithm identification: it is not stored
                  'alg': ([rng.randrange(2), rng.randrange(2), rng.randrange(2)] if at != 0 or rng.random() < 0.4 else None),
                  'ms': [{'name': rng.randrange(3), 'vs': [rand_meas_word(rng) for _ in range(n)], 'dt': rng.choice(['f4', 'f8'])}
                         for _ in range(rng.choice([0, 1, 1, 2, 3]))]})
        groups.append(g)
    hdr = {'ctype': '2D' if d == 2 else '3D', 'nsrc': 2 if d == 3 and rng.random() < 0.25 else 1, 'nfor': 1,
           'ts': rng.choice(['explicit', 'explicit', 'implicit'])}
    if mode is not None:
        for m in mode.split('+'):
            g = groups[rng.randrange(ng)]
            if m == 'number_zero':
                g['number'] = 0
            elif m == 'number_neg':
                g['number'] = -rng.randint(1, 3)
            elif m == 'algtype_bad':
                g['algtype'] = rng.choice([3, 7])
            elif m == 'alg_missing':
                g['algtype'], g['alg'] = rng.choice([1, 2]), None
            elif m == 'numbering_swap':
                if ng > 1:
                    groups[0]['number'], groups[1]['number'] = groups[1]['number'], groups[0]['number']
                else:
                    g['number'] = 2
            elif m == 'numbering_gap':
                groups[-1]['number'] += rng.choice([1, 2])
            elif m == 'meas_len':
                n = len(g['gd'])
                vs = [f2w(2.5, 'f4')] * (n + rng.choice([-1, 1, 2]))
                if vs and rng.random() < 0.5:
                    vs[rng.randrange(len(vs))] = 0x7fc00000
                g['ms'] = g['ms'] + [{'name': 0, 'vs': vs, 'dt': 'f4'}]
            elif m == 'graphic_count':
                g['gd'][0] = g['gd'][0] + [list(g['gd'][0][0])] if g['gt'] in ('POINT', 'ELLIPSE', 'RECTANGLE') else g['gd'][0][:1]
            elif m == 'graphic_count_comp':
                # rows move from one annotation to its neighbour: sizes against the rule, total as in a good group
                if len(g['gd']) < 2:
                    g['gd'].append([list(r) for r in g['gd'][0]])
                    for mm in g['ms']:
                        mm['vs'] = mm['vs'] + [f2w(1.5, 'f4')]
                    if g['gt'] == 'POLYGON':
                        g['gd'][1][-1][0] = g['gd'][1][-1][0] + 1 if g['dt'] in ('i2', 'i4') else f2w(4321.0, g['dt'])
                i, j = rng.sample(range(len(g['gd'])), 2)
                lo = COUNT_RULE[g['gt']][0]
                keep = rng.randint(0, lo - 1)
                g['gd'][j] = g['gd'][j] + g['gd'][i][keep:]
                g['gd'][i] = g['gd'][i][:keep]
            elif m == 'graphic_nonfinite':
                g['dt'] = 'f4'
                g['gd'] = [[[f2w(float(1 + i + j), 'f4') for j in range(d)] for i in range(len(a))] for a in g['gd']]
                for a in g['gd']:
                    a[-1][0] = f2w(1000.0, 'f4')
                g['gd'][-1][0][1] = rng.choice(F4_NONFINITE)
            elif m == 'graphic_nonfinite_col':
                # a whole column of ONE group is one non-finite word (3-D: the z column, which leaves the point data)
                g['dt'] = rng.choice(['f4', 'f8'])
                g['gd'] = [[[f2w(float(1 + i + 2 * j), g['dt']) for j in range(d)] for i in range(len(a))] for a in g['gd']]
                place_nonfinite(rng, g, d, 'column_same', 2 if d == 3 else rng.randrange(2), rng.choice(NF_CLASSES))
            elif m == 'hdr_nosrc':
                hdr['nsrc'] = 0
            elif m == 'hdr_2src_2d':
                hdr['nsrc'] = 2
                if d == 3:
                    # 3-D groups handed to a 2-D instance are outside the quantifier: rebuild as 2-D
                    return gen_object(rng, tier, mode)
            elif m == 'hdr_for':
                hdr['nsrc'], hdr['nfor'] = 2, 2
            elif m == 'hdr_ts':
                hdr['ts'] = rng.choice(['big_endian', 'jpeg'])
            elif m == 'hdr_ctype':
                hdr['ctype'] = rng.choice(['4D', 'SCOORD'])
    # lookups, each followed by reads on the object found
    def reads(n):
        ops = []
        for _ in range(rng.randint(2, 4)):
            w = rng.choice(['last', 'first', 'mid', 'all', 'all', 'beyond', 'zero'])
            ops.append(['all', 0] if w == 'all' else
                       ['one', {'last': n, 'first': 1, 'mid': rng.randint(1, n), 'beyond': n + 1, 'zero': 0}[w], 0])
        return ops, [None] + sorted({rng.randrange(4) for _ in range(2)})
    nmax = max(len(g['gd']) for g in groups)
    ls = []
    for k in range(0, ng + 2):
        n = len(groups[k - 1]['gd']) if 1 <= k <= ng else nmax
        ls.append(['number', k, *reads(n)])
    for u in range(0, ng + 1):
        ls.append(['uid', u, *reads(nmax)])
    for _ in range(4):
        q = {}
        for key, hi in (('cat', 2), ('typ', 3), ('label', 3), ('algtype', 3), ('name', 2), ('version', 2), ('family', 2)):
            if rng.random() < 0.25:
                q[key] = rng.randrange(hi)
        if rng.random() < 0.3:
            q['gt'] = rng.choice(GT)
        ls.append(['query', q, *reads(nmax)])
    ls.append(['query', {}, *reads(nmax)])
    if mode is not None:
        ls = [ls[1], ls[-1]]      # nothing is built: the lookups are never reached
    return {'kind': 'object' if mode is None else 'object_err', 'mode': mode, 'd': d, 'hdr': hdr, 'groups': groups,
            'lookups': ls}


PARSE_VARIANTS = ['ok', 'ok_nocopy', 'no_file_meta', 'not_dataset', 'group_not_dataset', 'meas_not_dataset', 'sop_class',
                  'big_endian', 'sop_class+big_endian']


def gen_parse_guard(rng, tier, variant):
    c = gen_object(rng, tier)
    c['lookups'] = c['lookups'][1:3] + c['lookups'][-1:]
    c.update({'kind': 'parse_guard', 'variant': variant, 'arg': rng.choice(['dict', 'list', 'str', 'none', 'int'])})
    return c


# ---- item sequences that are not the constructor's ------------------------------------------
# The constructor numbers the items 1, 2, .. in order; a parsed dataset (or an object whose sequence was touched) need
# not.  An edit is a list of [position of the item taken (0-based), new number or None], applied to the written
# Annotation Group Sequence BEFORE it is parsed (and to the sequence of the object in memory).
EDIT_PROFILES = ['drop_first', 'drop_middle', 'drop_last', 'keep_some', 'keep_one', 'reversed', 'shuffled', 'rotated',
                 'swap_two', 'sparse', 'offset', 'zero_based', 'renumber_perm', 'dup_number', 'dup_item', 'mixed', 'identity']


def edit_sequence(rng, ng, profile):
    ident = [[i, None] for i in range(ng)]
    if ng < 2 or profile == 'identity':
        return ident
    if profile == 'drop_first':
        return ident[rng.choice([1, 1, 2]) if ng > 2 else 1:]
    if profile == 'drop_middle':
        i = rng.randrange(1, ng - 1) if ng > 2 else 0
        return ident[:i] + ident[i + 1:]
    if profile == 'drop_last':
        return ident[:-1]                      # numbers stay 1..n-1 in order: position and number still agree
    if profile == 'keep_some':
        while True:
            keep = sorted(rng.sample(range(ng), rng.randint(1, ng - 1)))
            if keep != list(range(len(keep))):      # not merely trailing groups removed
                return [[i, None] for i in keep]
    if profile == 'keep_one':
        return [[rng.randrange(1, ng), None]]
    if profile == 'reversed':
        return ident[::-1]
    if profile == 'rotated':
        k = rng.randrange(1, ng)
        return ident[k:] + ident[:k]
    if profile == 'swap_two':
        i = rng.randrange(ng - 1)
        e = list(ident)
        e[i], e[i + 1] = e[i + 1], e[i]
        return e
    if profile == 'shuffled':
        e = list(ident)
        while e == ident:
            rng.shuffle(e)
        return e
    if profile == 'sparse':
        # ascending, with gaps; now and then beyond one byte / at the top of the US range
        k, e = rng.choice([1, 1, 2, 3]), []
        for i in range(ng):
            e.append([i, k])
            k += rng.choice([1, 2, 2, 3, 5, 250, 65000 // ng])
        if e[-1][1] > 65535 or [x[1] for x in e] == list(range(1, ng + 1)):
            e[-1][1] = 65535
        return e
    if profile == 'offset':
        off = rng.choice([1, 1, 2, 10])
        return [[i, i + 1 + off] for i in range(ng)]
    if profile == 'zero_based':
        return [[i, i] for i in range(ng)]
    if profile == 'renumber_perm':
        nums = list(range(1, ng + 1))
        while nums == list(range(1, ng + 1)):
            rng.shuffle(nums)
        return [[i, k] for i, k in enumerate(nums)]
    if profile == 'dup_number':
        i, j = rng.sample(range(ng), 2)
        e = [[x, None] for x in range(ng)]
        e[i][1] = j + 1
        return e
    if profile == 'dup_item':
        i = rng.randrange(ng)
        e = list(ident)
        e.insert(rng.randrange(ng + 1), [i, rng.choice([None, None, ng + 1])])
        return e
    # mixed: some items, in some order, some renumbered
    keep = rng.sample(range(ng), rng.randint(1, ng))
    e = [[i, rng.choice([None, None, rng.randint(0, ng + 3)])] for i in keep]
    return e if e != ident[:len(e)] else e[::-1] if len(e) > 1 else [[ng - 1, 1]]


def _edited_numbers(groups, ed):
    """(index of the group an item was made from, number it carries) in stored order"""
    return [(p, groups[p]['number'] if r is None else r) for p, r in ed]


def _number_probes(ng, items):
    carried = {k for _, k in items}
    ks = set(range(0, max(ng, len(items)) + 2)) | carried | {k + 1 for k in carried} | {k - 1 for k in carried if k > 0}
    return sorted(k for k in ks if 0 <= k <= 65535)


def gen_lookup_edited(rng, profile=None, ng=None):
    c = gen_lookup(rng)
    ng = ng or rng.choice([2, 3, 3, 4, 5, 6, 7])
    gs = []
    for i in range(ng):
        at = rng.randrange(3)
        gs.append({'number': i + 1, 'uid': i if rng.random() < 0.93 else rng.randrange(ng),
                   'label': rng.randrange(3), 'cat': rng.randrange(2), 'typ': rng.randrange(3),
                   'gt': rng.choice(GT), 'algtype': at,
                   'alg': None if at == 0 else [rng.randrange(2), rng.randrange(2), rng.randrange(2)]})
    profile = profile or rng.choice(EDIT_PROFILES)
    ed = edit_sequence(rng, ng, profile)
    items = _edited_numbers(gs, ed)
    ls = ([['number', k] for k in _number_probes(ng, items)] + [['uid', u] for u in range(0, ng + 1)] + [['nothing']] +
          [l for l in c['lookups'] if l[0] == 'query'][-4:])
    return {'kind': 'lookup_edited', 'profile': profile, 'groups': gs, 'edit': ed, 'lookups': ls,
            'copy': rng.random() < 0.5, 'implicit': rng.random() < 0.3}


def gen_object_edited(rng, tier, profile=None, ng=None):
    """a whole instance whose item sequence is rearranged before it is parsed: the group found by number must be the
    one that CARRIES the number, with its own coordinates and measurements"""
    c = gen_object(rng, tier, ng=ng or rng.choice([2, 3, 3, 4, 5]))
    gs = c['groups']
    ng = len(gs)
    profile = profile or rng.choice(EDIT_PROFILES)
    ed = edit_sequence(rng, ng, profile)
    items = _edited_numbers(gs, ed)
    old = c['lookups']
    nmax = max(len(g['gd']) for g in gs)

    def reads(n):
        ops = []
        for _ in range(rng.randint(1, 3)):
            w = rng.choice(['last', 'first', 'mid', 'all', 'all', 'beyond'])
            ops.append(['all', 0] if w == 'all' else
                       ['one', {'last': n, 'first': 1, 'mid': rng.randint(1, n), 'beyond': n + 1}[w], 0])
        return ops, [None] + sorted({rng.randrange(4)})
    ls = []
    for k in _number_probes(ng, items):
        hit = [p for p, kk in items if kk == k]
        ls.append(['number', k, *reads(len(gs[hit[0]]['gd']) if len(hit) == 1 else nmax)])
    for u in range(0, ng + 1):
        ls.append(['uid', u, *reads(nmax)])
    ls += [l for l in old if l[0] == 'query'][-2:]
    return dict(c, kind='object_edited', profile=profile, edit=ed, lookups=ls, copy=rng.random() < 0.5)


def gen_cases(rng, tier):
    import itertools
    n = {'quick': 1, 'thorough': 16, 'search': 8}[tier]
    cases = []
    # deterministic boundary grid: every type x dim x dtype x z mode, minimal counts
    for gt in GT:
        for d in (2, 3):
            for dt in ('f4', 'f8', 'i4'):
                for zm in (('const', 'vary') if d == 3 else ('vary',)):
                    g = gen_group(rng, d, gt=gt, dt=dt, nann=rng.choice([1, 2, 3]), zmode=zm)
                    cases.append({'kind': 'graphic', 'd': d, 'groups': [g], 'implicit': False})
    for _ in range(110 * n):
        cases.append(gen_graphic(rng, tier))
    for _ in range(90 * n):
        cases.append(gen_graphic_err(rng))
    # non-finite coordinates by placement: the whole z column with ONE word for every type / precision / class
    # (the column that leaves the point data), then every column x placement x class cycled
    k = 0
    for gt in GT:
        for dt in ('f4', 'f8'):
            for vclass in ('nan', 'pinf', 'ninf'):
                cases.append(gen_graphic_nonfinite(rng, gt=gt, dt=dt, d=3, col=2, placement='column_same', vclass=vclass,
                                                   plain=True))
            for d, col in ((2, 0), (2, 1), (3, 0), (3, 1), (3, 2)):
                k += 1
                cases.append(gen_graphic_nonfinite(rng, gt=gt, dt=dt, d=d, col=col, placement=NF_PLACEMENTS[k % 7],
                                                   vclass=NF_CLASSES[(k // 7 + k) % 6], plain=True))
    for dt in ('f4', 'f8'):
        # the smallest: ONE 3-D point whose z is NaN
        cases.append(gen_graphic_nonfinite(rng, gt='POINT', dt=dt, d=3, col=2, placement='cell', vclass='nan', nann=1,
                                           plain=True))
    for _ in range(24 * n):
        cases.append(gen_graphic_nonfinite(rng))
    # point counts per annotation: every profile x every graphic type (dimension / dtype / z mode cycled), the
    # smallest vectors whose total is that of a well-formed group in 2-D and 3-D, then random ones
    cyc = [(2, 'f4', 'vary'), (3, 'f8', 'const'), (3, 'i4', 'vary'), (2, 'f8', 'vary'), (3, 'f4', 'const'), (2, 'u2', 'vary'),
           (3, 'f8', 'vary')]
    k = 0
    for gt in GT:
        for profile in COUNT_PROFILES:
            d, dt, zm = cyc[k % len(cyc)]
            k += 1
            cases.append(gen_graphic_counts(rng, gt=gt, profile=profile, d=d, dt=dt, zmode=zm, plain=True))
        for counts in COUNT_FIXTURES[gt]:
            d, dt, zm = cyc[k % len(cyc)]
            k += 1
            cases.append(gen_graphic_counts(rng, gt=gt, profile='compensating', counts=counts, d=d, dt=dt, zmode=zm,
                                            plain=True))
        for d in (2, 3):
            cases.append(gen_graphic_counts(rng, gt=gt, profile='compensating', d=d, dt=('f4', 'f8')[k % 2], plain=True))
            k += 1
    for _ in range(24 * n):
        cases.append(gen_graphic_counts(rng))
    for _ in range(12 * n):
        cases.append(gen_zero_mixed(rng))
    for _ in range(30 * n):
        cases.append(gen_graphic_bigint(rng))
    # every memory layout x every graphic type; dimension / z mode / dtype cycled
    cyc = [(2, 'vary', 'f4'), (3, 'const', 'f8'), (3, 'vary', 'i4'), (2, 'vary', 'f8'), (3, 'const', 'f4'), (3, 'vary', 'f8'),
           (2, 'vary', 'i2'), (3, 'const', 'i4')]
    i = 0
    for lay in LAYOUTS[1:]:
        for gt in GT:
            d, zm, dt = cyc[i % len(cyc)]
            i += 1
            cases.append(gen_graphic_layout(rng, tier, gt=gt, d=d, zm=zm, dt=dt, layout=lay))
        # a group of ONE array in that layout (no neighbour to be concatenated with)
        d, zm, dt = cyc[(i + 3) % len(cyc)]
        cases.append(gen_graphic_layout(rng, tier, gt=GT[1 + i % 4], d=d, zm=zm, dt=dt, layout=lay, nann=1))
    for _ in range(16 * n):
        cases.append(gen_graphic_layout(rng, tier))
    # every entry point x first call on the object
    for entry in ENTRIES:
        for j, first in enumerate(['last', 'first', 'all', 'beyond']):
            cases.append(gen_access_order(rng, gt=['POLYGON', 'POLYLINE'][(j + len(entry)) % 2], first=first, entry=entry))
    for gt in ('POINT', 'ELLIPSE', 'RECTANGLE'):
        cases.append(gen_access_order(rng, gt=gt, first='last'))
    for _ in range(30 * n):
        cases.append(gen_access_order(rng))
    for _ in range(50 * n):
        cases.append(gen_decode_raw(rng))
    # every NaN mask up to length 4
    nanw, k = 0x7fc00000, 0
    for ln in range(0, 5):
        for mask in itertools.product([0, 1], repeat=ln):
            k += 1
            cases.append(gen_meas(rng, [nanw if m else f2w(k + i / 4.0, 'f4') for i, m in enumerate(mask)]))
    for _ in range(50 * n):
        cases.append(gen_meas(rng))
    for _ in range(40 * n):
        cases.append(gen_meas_raw(rng))
    for _ in range(50 * n):
        cases.append(gen_group_meas(rng))
    for _ in range(40 * n):
        cases.append(gen_group_meas(rng, bad=True))
    for _ in range(50 * n):
        cases.append(gen_lookup(rng))
    for _ in range(12 * n):
        cases.append(gen_lookup(rng, bad=True))
    for _ in range(36 * n):
        cases.append(gen_object(rng, tier))
    for mode in OBJ_ERR_MODES:
        for _ in range(2 * n):
            cases.append(gen_object(rng, tier, mode))
    for variant in PARSE_VARIANTS:
        for _ in range(2 * n):
            cases.append(gen_parse_guard(rng, tier, variant))
    # rearranged item sequences: every profile on identification-only instances (cheap, up to 7 groups) and on whole
    # objects (the coordinates / measurements of the group found are read), then random ones
    for profile in EDIT_PROFILES:
        cases.append(gen_lookup_edited(rng, profile, ng=5 if profile in ('drop_first', 'drop_middle', 'shuffled') else None))
        cases.append(gen_lookup_edited(rng, profile))
        cases.append(gen_object_edited(rng, tier, profile))
    for _ in range(18 * n):
        cases.append(gen_lookup_edited(rng))
    for _ in range(4 * n):
        cases.append(gen_object_edited(rng, tier))
    rng.shuffle(cases)          # spread the large cases over the coqc shards
    return cases


# ------------------------------------------------------------------ implementation side
def _arr(a, dt, d):
    np = _np()
    if dt == 'f4':
        x = np.array(a, dtype=np.uint32).view(np.float32)
    elif dt == 'f8':
        x = np.array(a, dtype=np.uint64).view(np.float64)
    else:
        x = np.array(a, dtype=np.dtype(dt))
    if len(a) == 0:
        x = x.reshape(0, d)
    return x


def _relayout(xs, how):
    """the same values in another memory layout (list of 2-D arrays)"""
    np = _np()
    if how in (None, 'c') or not xs:
        return xs

    def one(i, x):
        if how == 'f' or (how == 'mixed' and i % 2 == 0):
            return np.asfortranarray(x)
        if how == 'mixed':
            return x
        if how == 'columns':
            # assembled from per-axis vectors: np.array([x, y]).T / np.stack([x, y, z]).T
            return np.array([x[:, j] for j in range(x.shape[1])]).T if x.shape[1] else x
        if how == 'strided':
            big = np.zeros((x.shape[0] * 2 + 1, x.shape[1] + 2), x.dtype)
            big[1::2, 1:-1] = x
            return big[1::2, 1:-1]
        if how == 'negrow':
            return np.ascontiguousarray(x[::-1])[::-1]
        if how == 'negcol':
            return np.ascontiguousarray(x[:, ::-1])[:, ::-1]
        if how == 'be':
            return x.astype(x.dtype.newbyteorder('>'))
        if how == 'readonly':
            y = x.copy()
            y.setflags(write=False)
            return y
        raise ValueError(how)
    if how in ('fslices', 'cslices'):
        # row slices of ONE shared buffer (column-major: strided, neither C- nor F-contiguous)
        if len({(x.dtype, x.shape[1:]) for x in xs}) != 1:
            return [np.asfortranarray(x) for x in xs]
        big = np.concatenate(xs, axis=0)
        big = np.asfortranarray(big) if how == 'fslices' else np.ascontiguousarray(big)
        out, at = [], 0
        for x in xs:
            out.append(big[at:at + x.shape[0]])
            at += x.shape[0]
        return out
    return [one(i, x) for i, x in enumerate(xs)]


def _arrays(g, d, layout=True):
    """the caller's arrays; layout=False: plain C-ordered native reference copies"""
    dts = g.get('dts') or [g['dt']] * len(g['gd'])
    xs = [_arr(a, dt, d) for a, dt in zip(g['gd'], dts)]
    if layout and all(x.ndim == 2 for x in xs):
        xs = _relayout(xs, g.get('layout'))
    return xs


def _words(x):
    """bit patterns of a float array (ints are first cast to float32 exactly)"""
    np = _np()
    x = np.asarray(x)
    if x.dtype.kind in 'iu':
        x = x.astype(np.float32)
    if not x.dtype.isnative:
        x = x.astype(x.dtype.newbyteorder('='))
    x = np.ascontiguousarray(x)
    if x.dtype == np.float32:
        return x.view(np.uint32).tolist()
    if x.dtype == np.float64:
        return x.view(np.uint64).tolist()
    raise TypeError(f'unexpected dtype {x.dtype}')


_CODES = None


def _codes():
    global _CODES
    if _CODES is None:
        from pydicom.sr.coding import Code
        _CODES = {
            'cat': [Code('85756007', 'SCT', 'Tissue'), Code('49755003', 'SCT', 'Morphologically Abnormal Structure')],
            'typ': [Code('85756007', 'SCT', 'Tissue'), Code('108369006', 'SCT', 'Neoplasm'),
                    Code('84640000', 'SCT', 'Nucleus'), Code('4421005', 'SCT', 'Cell')],
            'name': [Code('42798000', 'SCT', 'Area'), Code('81827009', 'SCT', 'Diameter'),
                     Code('118565006', 'SCT', 'Volume'), Code('410668003', 'SCT', 'Length')],
            'unit': Code('um2', 'UCUM', 'Square Micrometer'),
            'family': [Code('123109', 'DCM', 'Artificial Intelligence'), Code('123102', 'DCM', 'Shape-based')],
        }
    return _CODES


def _name_id(c):
    for i, k in enumerate(_codes()['name']):
        if c.value == k.value and c.scheme_designator == k.scheme_designator:
            return i
    return -1


_SM = None


def _source():
    global _SM
    if _SM is None:
        import pydicom
        _SM = pydicom.dcmread(os.path.join(common.REPO, 'data', 'test_files', 'sm_image.dcm'))
    return _SM


def _group(number, gt, gd, uid=None, label='L', cat=0, typ=0, algtype='MANUAL', alg=None, measurements=None):
    import highdicom as hd
    from highdicom.ann import AnnotationGroup
    c = _codes()
    kw = {}
    if alg is not None:
        kw['algorithm_identification'] = hd.AlgorithmIdentificationSequence(
            name=f'alg{alg[0]}', family=c['family'][alg[2]], version=f'v{alg[1]}')
    return AnnotationGroup(number, uid or (UID_ROOT + str(number)), label, c['cat'][cat], c['typ'][typ], gt, gd,
                           algtype, measurements=measurements, **kw)


def _sop(groups, d, implicit=False):
    import highdicom as hd
    from pydicom.uid import ImplicitVRLittleEndian, ExplicitVRLittleEndian
    from highdicom.ann import MicroscopyBulkSimpleAnnotations
    return MicroscopyBulkSimpleAnnotations(
        [_source()], '2D' if d == 2 else '3D', groups, UID_ROOT + '100', 1, UID_ROOT + '101', 1, 'm', 'mm', '1', 'sn',
        transfer_syntax_uid=ImplicitVRLittleEndian if implicit else ExplicitVRLittleEndian)


def _paths(ann):
    """the three observation paths of one built object"""
    from highdicom.ann import MicroscopyBulkSimpleAnnotations, annread
    b = io.BytesIO()
    ann.save_as(b)
    return [('mem', ann),
            ('copy', MicroscopyBulkSimpleAnnotations.from_dataset(ann, copy=True)),
            ('file', annread(io.BytesIO(b.getvalue())))]


def _enc(g):
    """stored attributes of a group dataset, canonicalised like the model's [venc]"""
    np = _np()
    dbl = 'DoublePointCoordinatesData' in g
    raw = g.DoublePointCoordinatesData if dbl else g.PointCoordinatesData
    data = np.frombuffer(raw or b'', '<u8' if dbl else '<u4').tolist()
    cz = None
    if 'CommonZCoordinateValue' in g:
        cz = _words(np.array([g.CommonZCoordinateValue], np.float64 if dbl else np.float32))[0]
    idx = None
    if 'LongPrimitivePointIndexList' in g:
        idx = np.frombuffer(g.LongPrimitivePointIndexList or b'', '<i4').tolist()
    return [bool(dbl), int(g.NumberOfAnnotations), data, cz, idx]


def _ks(n):
    return [0, 1, n, n + 1, -1]


def _cis(n):
    return [1, n, n + 1]


def _cold_copy(g):
    """a new object for the same stored group on which nothing has been decoded yet"""
    from highdicom.ann import AnnotationGroup
    return AnnotationGroup.from_dataset(g, copy=True)


def _observe_group(g, ct, n, widen=False, cold=False):
    np = _np()
    enc = _enc(g)
    if cold:
        # per-annotation access FIRST, each number on an object with an empty decode cache
        coords = [catch(lambda k=k: _words(_cold_copy(g).get_coordinates(k, ct))) for k in _ks(n)]
        gd = catch(lambda: [_words(x) for x in g.get_graphic_data(ct)])
        return [enc, gd, coords, None]
    # widen=True (fresh object only): the caller's own arrays come back, possibly
    # integer or of mixed precision; render them in the precision the object stores
    # (an exact widening) so that all three paths are comparable word for word
    conv = (lambda x: np.asarray(x).astype(np.float64 if enc[0] else np.float32)) if widen else (lambda x: x)
    gd = catch(lambda: [_words(conv(x)) for x in g.get_graphic_data(ct)])
    coords = [catch(lambda k=k: _words(conv(g.get_coordinates(k, ct)))) for k in _ks(n)]
    cd = 2 if ct == '2D' else 3
    cis = [catch(lambda k=k: [int(v) for v in g._get_coordinate_index(k, cd, len(enc[2]))]) for k in _cis(n)]
    return [enc, gd, coords, cis]


def _run_graphic(c):
    d = c['d']
    ct = '2D' if d == 2 else '3D'

    def build():
        groups = [_group(i + 1, g['gt'], _arrays(g, d)) for i, g in enumerate(c['groups'])]
        return _sop(groups, d, c.get('implicit', False))
    ann = catch(build)
    if isinstance(ann, Err):
        return ann
    out = []
    dtypes_kept = True
    for name, obj in _paths(ann):
        per_group = []
        for i, g in enumerate(c['groups']):
            grp = obj.get_annotation_group(number=i + 1)
            o = _observe_group(grp, ct, len(g['gd']), widen=(name == 'mem'), cold=(name == 'copy'))
            # fresh object: decoded data + per-annotation access; copy: decoded data + per-annotation
            # access on a cold object (before anything else was decoded); file: stored attributes,
            # decoded data, per-annotation access after get_graphic_data, coordinate index
            per_group.append({'mem': [o[1], o[2]], 'copy': [o[1], o[2]], 'file': o}[name])
            if name == 'mem':
                # the fresh object hands back the caller's own arrays (dtype included)
                got = [str(x.dtype) for x in grp.get_graphic_data(ct)]
                dtypes_kept = dtypes_kept and got == [str(a.dtype) for a in _arrays(g, d)]
        out.append(per_group)
    out.append(bool(dtypes_kept))
    return out


def _run_graphic_nonfinite(c):
    """build the group; if it is accepted, record what it stores and hands back (fresh and written + parsed)"""
    np = _np()
    from highdicom.ann import annread
    d, g = c['d'], c['groups'][0]
    ct = '2D' if d == 2 else '3D'
    grp = catch(lambda: _group(1, g['gt'], _arrays(g, d)))
    if isinstance(grp, Err):
        return grp

    def written():
        b = io.BytesIO()
        _sop([grp], d).save_as(b)
        g2 = annread(io.BytesIO(b.getvalue())).get_annotation_group(number=1)
        return [_enc(g2), [_words(x) for x in g2.get_graphic_data(ct)]]
    return ['accepted', catch(lambda: _enc(grp)),
            catch(lambda: [_words(np.asarray(x, dtype=(np.float64 if np.asarray(x).dtype == np.float64 else np.float32)))
                           for x in grp.get_graphic_data(ct)]),
            catch(written)]


def _run_graphic_counts(c):
    """build the group; refused: the exception class.  Accepted: everything a 'graphic' case observes (fresh object,
    cold copy, written + parsed), so that well-formed vectors are compared like any other group and a malformed one
    that got through shows what it stores and which partition of the points each path hands back"""
    d, g = c['d'], c['groups'][0]
    grp = catch(lambda: _group(1, g['gt'], _arrays(g, d)))
    if isinstance(grp, Err):
        return grp
    try:
        return _run_graphic(c)
    except Exception as e:  # noqa: BLE001  (only reachable for input that should not have been accepted)
        return ['accepted', int(grp.NumberOfAnnotations), Err(type(e).__name__)]


def _enter(ann, entry, gt):
    """the group object of a one-group instance, reached through the given API entry point"""
    import pydicom
    from highdicom.ann import MicroscopyBulkSimpleAnnotations, AnnotationGroup, annread
    if entry == 'mem':
        return ann.get_annotation_group(number=1)
    if entry == 'sop_copy':
        return MicroscopyBulkSimpleAnnotations.from_dataset(ann, copy=True).get_annotation_group(number=1)
    b = io.BytesIO()
    ann.save_as(b)
    if entry == 'sop_nocopy':
        ds = pydicom.dcmread(io.BytesIO(b.getvalue()))
        return MicroscopyBulkSimpleAnnotations.from_dataset(ds, copy=False).get_annotation_group(number=1)
    if entry in ('group_copy', 'group_nocopy'):
        ds = pydicom.dcmread(io.BytesIO(b.getvalue()))
        return AnnotationGroup.from_dataset(ds.AnnotationGroupSequence[0], copy=(entry == 'group_copy'))
    obj = annread(io.BytesIO(b.getvalue()))
    if entry == 'file_number':
        return obj.get_annotation_group(number=1)
    if entry == 'file_uid':
        return obj.get_annotation_group(uid=UID_ROOT + '1')
    if entry == 'file_filter':
        (g,) = obj.get_annotation_groups(graphic_type=gt)
        return g
    raise ValueError(entry)


def _run_access_order(c):
    np = _np()
    d, g = c['d'], c['group']

    def build():
        return _sop([_group(1, g['gt'], _arrays(g, d))], d, c.get('implicit', False))
    ann = catch(build)
    if isinstance(ann, Err):
        return ann
    grp = _enter(ann, c['entry'], g['gt'])
    dbl = 'DoublePointCoordinatesData' in grp
    # fresh object: the caller's own arrays come back; render them in the stored precision
    conv = (lambda x: np.asarray(x).astype(np.float64 if dbl else np.float32)) if c['entry'] == 'mem' else (lambda x: x)
    out = []
    for op in c['ops']:
        cd = 5 - d if op[-1] else d
        ct = '2D' if cd == 2 else '3D'
        if op[0] == 'all':
            out.append(catch(lambda: [_words(conv(x)) for x in grp.get_graphic_data(ct)]))
        else:
            out.append(catch(lambda: _words(conv(grp.get_coordinates(op[1], ct)))))
    return out


def _raw_group_dataset(c):
    """a stored group with mutated attributes; returns (dataset, cd, fields)"""
    import random
    np = _np()
    from pydicom.dataset import Dataset
    import copy as _copy
    rng = random.Random(c['seed'])
    g = c['group']
    d = c['d']
    grp = _group(1, g['gt'], _arrays(g, d))
    ds = Dataset()
    for el in grp:
        ds.add(_copy.deepcopy(el))
    dbl, n, data, cz, idx = _enc(ds)
    gt, cd, mut = g['gt'], d, c['mut']
    if mut == 'truncate' and data:
        data = data[:-rng.randint(1, min(3, len(data)))]
    elif mut == 'extend':
        data = data + data[:rng.randint(1, 3)]
    elif mut == 'drop_idx':
        idx = None
    elif mut == 'short_idx' and idx:
        idx = idx[:-1]
    elif mut == 'idx_shift' and idx and len(idx) > 1:
        k = rng.randrange(1, len(idx))
        idx[k] = max(1, idx[k] + rng.choice([-3, -2, -1, 1, 2, 3, 50]))
    elif mut == 'gt':
        gt = rng.choice([x for x in GT if x != gt])
    elif mut == 'cd':
        cd = 5 - d
    elif mut == 'empty':
        data = []
    for kw in ('DoublePointCoordinatesData', 'PointCoordinatesData', 'LongPrimitivePointIndexList'):
        if kw in ds:
            delattr(ds, kw)
    ds.GraphicType = gt
    arr = np.array(data, '<u8' if dbl else '<u4')
    if dbl:
        ds.DoublePointCoordinatesData = arr.tobytes()
    else:
        ds.PointCoordinatesData = arr.tobytes()
    if idx is not None:
        ds.LongPrimitivePointIndexList = np.array(idx, '<i4').tobytes()
    return ds, cd, [dbl, gt, n, data, cz, idx]


def _run_decode_raw(c):
    from highdicom.ann import AnnotationGroup
    ds, cd, _ = _raw_group_dataset(c)
    g = AnnotationGroup.from_dataset(ds, copy=True)
    return catch(lambda: [_words(x) for x in g.get_graphic_data('2D' if cd == 2 else '3D')])


def _meas_arr(vs, dt, layout='c'):
    np = _np()
    x = np.array(vs, dtype=np.uint32).view(np.float32)
    x = x.astype(np.float64) if dt == 'f8' else x
    if layout == 'strided':
        big = np.full((2 * len(vs) + 1,), 99.0, x.dtype)
        big[1::2] = x
        x = big[1::2]
    elif layout == 'neg':
        x = np.ascontiguousarray(x[::-1])[::-1]
    elif layout == 'be':
        # astype would quieten signalling NaNs on some platforms; swap the bytes instead
        x = x.byteswap().view(x.dtype.newbyteorder('>'))
    elif layout == 'readonly':
        x = x.copy()
        x.setflags(write=False)
    return x


def _menc(m):
    np = _np()
    it = m.MeasurementValuesSequence[0]
    vals = np.frombuffer(it.FloatingPointValues or b'', '<u4').tolist()
    idx = None
    if 'AnnotationIndexList' in it:
        idx = np.frombuffer(it.AnnotationIndexList or b'', '<i4').tolist()
    return [vals, idx]


def _run_meas(c):
    from highdicom.ann import Measurements
    cc = _codes()
    m = Measurements(cc['name'][0], _meas_arr(c['vs'], c['dt'], c.get('layout', 'c')), cc['unit'])
    out = []
    for obj in (m, Measurements.from_dataset(m, copy=True)):
        out.append([_menc(obj), [catch(lambda n=n: _words(obj.get_values(n))) for n in c['ns']]])
    return out


def _run_meas_raw(c):
    np = _np()
    from highdicom.ann import Measurements
    cc = _codes()
    m = Measurements(cc['name'][0], np.array([1.0], np.float32), cc['unit'])
    it = m.MeasurementValuesSequence[0]
    it.FloatingPointValues = np.array(c['vals'], '<u4').tobytes()
    if c['idx'] is None:
        if 'AnnotationIndexList' in it:
            del it.AnnotationIndexList
    else:
        it.AnnotationIndexList = np.array(c['idx'], '<i4').tobytes()
    m2 = Measurements.from_dataset(m, copy=True)
    return catch(lambda: _words(m2.get_values(c['n'])))


def _run_group_meas(c):
    np = _np()
    from highdicom.ann import Measurements
    cc = _codes()
    n = c['n']

    def build():
        ms = [Measurements(cc['name'][m['name']], _meas_arr(m['vs'], m['dt'], m.get('layout', 'c')), cc['unit'])
              for m in c['ms']]
        gd = [np.array([[float(i), 1.0]], np.float32) for i in range(n)]
        g = _group(1, 'POINT', gd, measurements=(ms or None) if c['none_if_empty'] else ms)
        return _sop([g], 2, c.get('implicit', False))
    ann = catch(build)
    if isinstance(ann, Err):
        return ann
    out = []
    for _, obj in _paths(ann):
        g = obj.get_annotation_group(number=1)
        per_q = []
        for q in c['queries']:
            def f(q=q):
                names, vals, units = g.get_measurements(name=None if q is None else cc['name'][q])
                if vals.shape[0] != n or len(units) != len(names) or vals.shape[1] != len(names):
                    raise AssertionError(f'value matrix shape {vals.shape} for {n} annotations, {len(names)} names')
                return [[_name_id(x) for x in names], [_words(col) for col in vals.T]]
            per_q.append(catch(f))
        out.append(per_q)
    return out


_LOOKUP_GD = None


def _lookup_gd(gt):
    np = _np()
    n = {'POINT': 1, 'POLYLINE': 2, 'POLYGON': 3, 'ELLIPSE': 4, 'RECTANGLE': 4}[gt]
    return [np.array([[float(i), float(i * i)] for i in range(n)], np.float32)]


def _run_lookup(c):
    cc = _codes()

    def build():
        groups = [_group(g['number'], g['gt'], _lookup_gd(g['gt']), uid=UID_ROOT + '7.' + str(g['uid']),
                         label='LBL%d' % g['label'], cat=g['cat'], typ=g['typ'], algtype=ALGT[g['algtype']],
                         alg=g['alg']) for g in c['groups']]
        return _sop(groups, 2, c.get('implicit', False))
    ann = catch(build)
    if isinstance(ann, Err):
        return ann
    out = []
    for _, obj in _paths(ann):
        res = []
        for l in c['lookups']:
            if l[0] == 'number':
                res.append(catch(lambda: obj.get_annotation_group(number=l[1]).number))
            elif l[0] == 'uid':
                res.append(catch(lambda: obj.get_annotation_group(uid=UID_ROOT + '7.' + str(l[1])).number))
            elif l[0] == 'nothing':
                res.append(catch(lambda: obj.get_annotation_group().number))
            else:
                q = l[1]
                kw = {}
                if 'cat' in q:
                    kw['annotated_property_category'] = cc['cat'][q['cat']]
                if 'typ' in q:
                    kw['annotated_property_type'] = cc['typ'][q['typ']]
                if 'label' in q:
                    kw['label'] = 'LBL%d' % q['label']
                if 'gt' in q:
                    kw['graphic_type'] = q['gt']
                if 'algtype' in q:
                    kw['algorithm_type'] = ALGT[q['algtype']]
                if 'name' in q:
                    kw['algorithm_name'] = 'alg%d' % q['name']
                if 'version' in q:
                    kw['algorithm_version'] = 'v%d' % q['version']
                if 'family' in q:
                    kw['algorithm_family'] = cc['family'][q['family']]
                res.append(catch(lambda: [g.number for g in obj.get_annotation_groups(**kw)]))
        out.append(res)
    return out


_SM2 = {}


def _sources(hdr):
    """the source image list of an instance: 0, 1 or 2 images, sharing the frame of reference or not"""
    import copy as _copy
    src = _source()
    if hdr['nsrc'] == 0:
        return []
    if hdr['nsrc'] == 1:
        return [src]
    key = hdr['nfor']
    if key not in _SM2:
        other = _copy.deepcopy(src)
        other.SOPInstanceUID = UID_ROOT + '55.2'
        if hdr['nfor'] == 2:
            other.FrameOfReferenceUID = UID_ROOT + '55.3'
        _SM2[key] = other
    return [src, _SM2[key]]


_TS = {'explicit': '1.2.840.10008.1.2.1', 'implicit': '1.2.840.10008.1.2', 'big_endian': '1.2.840.10008.1.2.2',
       'jpeg': '1.2.840.10008.1.2.4.50'}


def _build_object(c):
    from highdicom.ann import Measurements, MicroscopyBulkSimpleAnnotations
    cc = _codes()
    d = c['d']
    groups = []
    for g in c['groups']:
        ms = [Measurements(cc['name'][m['name']], _meas_arr(m['vs'], m['dt']), cc['unit']) for m in g['ms']]
        groups.append(_group(g['number'], g['gt'], _arrays(g, d), uid=UID_ROOT + '7.' + str(g['uid']),
                             label='LBL%d' % g['label'], cat=g['cat'], typ=g['typ'],
                             algtype=ALGT[g['algtype']] if 0 <= g['algtype'] < 3 else 'BOGUS', alg=g['alg'],
                             measurements=ms or None))
    h = c['hdr']
    return MicroscopyBulkSimpleAnnotations(
        _sources(h), h['ctype'], groups, UID_ROOT + '100', 1, UID_ROOT + '101', 1, 'm', 'mm', '1', 'sn',
        transfer_syntax_uid=_TS[h['ts']])


def _query_kw(q):
    cc = _codes()
    kw = {}
    if 'cat' in q:
        kw['annotated_property_category'] = cc['cat'][q['cat']]
    if 'typ' in q:
        kw['annotated_property_type'] = cc['typ'][q['typ']]
    if 'label' in q:
        kw['label'] = 'LBL%d' % q['label']
    if 'gt' in q:
        kw['graphic_type'] = q['gt']
    if 'algtype' in q:
        kw['algorithm_type'] = ALGT[q['algtype']]
    if 'name' in q:
        kw['algorithm_name'] = 'alg%d' % q['name']
    if 'version' in q:
        kw['algorithm_version'] = 'v%d' % q['version']
    if 'family' in q:
        kw['algorithm_family'] = cc['family'][q['family']]
    return kw


def _observe_object(grp, ct, ops, names, fresh):
    np = _np()
    cc = _codes()
    dbl = 'DoublePointCoordinatesData' in grp
    conv = (lambda x: np.asarray(x).astype(np.float64 if dbl else np.float32)) if fresh else (lambda x: x)
    res = []
    for op in ops:
        if op[0] == 'all':
            res.append(catch(lambda: [_words(conv(x)) for x in grp.get_graphic_data(ct)]))
        else:
            res.append(catch(lambda: _words(conv(grp.get_coordinates(op[1], ct)))))
    n = grp.number_of_annotations
    mats = []
    for q in names:
        def f(q=q):
            nm, vals, units = grp.get_measurements(name=None if q is None else cc['name'][q])
            if vals.ndim != 2 or vals.shape[0] != n or len(units) != len(nm) or vals.shape[1] != len(nm):
                raise AssertionError(f'value matrix shape {vals.shape} for {n} annotations, {len(nm)} names')
            return [[_name_id(x) for x in nm], [_words(row) for row in vals]]
        mats.append(catch(f))
    return [int(grp.number), res, mats]


def _run_object(c):
    ann = catch(lambda: _build_object(c))
    if isinstance(ann, Err):
        return ann
    ct = '2D' if c['d'] == 2 else '3D'
    out = []
    for pname, obj in _paths(ann):
        res = []
        for l in c['lookups']:
            kind, arg, ops, names = l
            if kind == 'query':
                res.append(catch(lambda: [_observe_object(g, ct, ops, names, pname == 'mem')
                                          for g in obj.get_annotation_groups(**_query_kw(arg))]))
                continue
            if kind == 'number':
                g = catch(lambda: obj.get_annotation_group(number=arg))
            else:
                g = catch(lambda: obj.get_annotation_group(uid=UID_ROOT + '7.' + str(arg)))
            res.append(g if isinstance(g, Err) else _observe_object(g, ct, ops, names, pname == 'mem'))
        out.append(res)
    return out


def _run_parse_guard(c):
    import copy as _copy
    from pydicom.dataset import Dataset
    from highdicom.ann import MicroscopyBulkSimpleAnnotations, AnnotationGroup, Measurements
    v = c['variant']
    junk = {'dict': {}, 'list': [], 'str': 'ANN', 'none': None, 'int': 3}[c['arg']]
    if v == 'group_not_dataset':
        return catch(lambda: AnnotationGroup.from_dataset(junk))
    if v == 'meas_not_dataset':
        return catch(lambda: Measurements.from_dataset(junk))
    if v == 'not_dataset':
        return catch(lambda: MicroscopyBulkSimpleAnnotations.from_dataset(junk))
    ann = _build_object(c)
    if v == 'no_file_meta':
        ds = Dataset()
        for el in ann:
            ds.add(_copy.deepcopy(el))
        assert not hasattr(ds, 'file_meta')
    else:
        ds = _copy.deepcopy(ann)
    if 'sop_class' in v:
        ds.SOPClassUID = '1.2.840.10008.5.1.4.1.1.66.4'
    if 'big_endian' in v:
        ds.file_meta.TransferSyntaxUID = '1.2.840.10008.1.2.2'
    obj = catch(lambda: MicroscopyBulkSimpleAnnotations.from_dataset(ds, copy=(v != 'ok_nocopy')))
    if isinstance(obj, Err):
        return obj
    ct = '2D' if c['d'] == 2 else '3D'
    res = []
    for kind, arg, ops, names in c['lookups']:
        if kind == 'query':
            res.append(catch(lambda: [_observe_object(g, ct, ops, names, False) for g in obj.get_annotation_groups(**_query_kw(arg))]))
            continue
        g = catch(lambda: obj.get_annotation_group(number=arg) if kind == 'number' else
                  obj.get_annotation_group(uid=UID_ROOT + '7.' + str(arg)))
        res.append(g if isinstance(g, Err) else _observe_object(g, ct, ops, names, False))
    return res


def _edit_sequence_of(ds, ed):
    """rearrange the items of the Annotation Group Sequence of a dataset (pydicom Dataset or highdicom object) in place"""
    import copy as _copy
    items = list(ds.AnnotationGroupSequence)
    uses = {}
    for p, _ in ed:
        uses[p] = uses.get(p, 0) + 1
    # an item stored twice: the second one is a copy taken before anything is renumbered
    spare = {p: [_copy.deepcopy(items[p]) for _ in range(k - 1)] for p, k in uses.items() if k > 1}
    seen, new = set(), []
    for p, r in ed:
        it = spare[p].pop() if p in seen else items[p]
        seen.add(p)
        if r is not None:
            it.AnnotationGroupNumber = r
        new.append(it)
    ds.AnnotationGroupSequence = new
    return ds


def _edited_paths(build, ed, copy):
    """three objects whose item sequence was rearranged: the object in memory, from_dataset of the edited written
    dataset (copy / no copy), annread of the edited dataset written again"""
    import pydicom
    from highdicom.ann import MicroscopyBulkSimpleAnnotations, annread
    ann = build()
    b = io.BytesIO()
    ann.save_as(b)
    written = b.getvalue()
    mem = _edit_sequence_of(ann, ed)
    parsed = MicroscopyBulkSimpleAnnotations.from_dataset(
        _edit_sequence_of(pydicom.dcmread(io.BytesIO(written)), ed), copy=copy)
    b2 = io.BytesIO()
    _edit_sequence_of(pydicom.dcmread(io.BytesIO(written)), ed).save_as(b2)
    return [('mem', mem), ('copy', parsed), ('file', annread(io.BytesIO(b2.getvalue())))]


def _uid_id(g):
    return int(str(g.uid).rsplit('.', 1)[1])


def _run_lookup_edited(c):
    def build():
        groups = [_group(g['number'], g['gt'], _lookup_gd(g['gt']), uid=UID_ROOT + '7.' + str(g['uid']),
                         label='LBL%d' % g['label'], cat=g['cat'], typ=g['typ'], algtype=ALGT[g['algtype']],
                         alg=g['alg']) for g in c['groups']]
        return _sop(groups, 2, c.get('implicit', False))
    paths = catch(lambda: _edited_paths(build, c['edit'], c['copy']))
    if isinstance(paths, Err):
        return paths
    show = lambda g: [int(g.number), _uid_id(g)]
    out = []
    for _, obj in paths:
        res = []
        for l in c['lookups']:
            if l[0] == 'number':
                res.append(catch(lambda: show(obj.get_annotation_group(number=l[1]))))
            elif l[0] == 'uid':
                res.append(catch(lambda: show(obj.get_annotation_group(uid=UID_ROOT + '7.' + str(l[1])))))
            elif l[0] == 'nothing':
                res.append(catch(lambda: show(obj.get_annotation_group())))
            else:
                res.append(catch(lambda: [show(g) for g in obj.get_annotation_groups(**_query_kw(l[1]))]))
        out.append(res)
    return out


def _run_object_edited(c):
    paths = catch(lambda: _edited_paths(lambda: _build_object(c), c['edit'], c['copy']))
    if isinstance(paths, Err):
        return paths
    ct = '2D' if c['d'] == 2 else '3D'
    out = []
    for pname, obj in paths:
        res = []
        for kind, arg, ops, names in c['lookups']:
            if kind == 'query':
                res.append(catch(lambda: [_observe_object(g, ct, ops, names, pname == 'mem')
                                          for g in obj.get_annotation_groups(**_query_kw(arg))]))
                continue
            g = catch(lambda: obj.get_annotation_group(number=arg) if kind == 'number' else
                      obj.get_annotation_group(uid=UID_ROOT + '7.' + str(arg)))
            res.append(g if isinstance(g, Err) else _observe_object(g, ct, ops, names, pname == 'mem'))
        out.append(res)
    return out


def run_impl(c):
    import warnings
    import logging
    warnings.filterwarnings('ignore')
    logging.disable(logging.CRITICAL)
    k = c['kind']
    if k in ('graphic', 'graphic_bigint', 'graphic_err', 'zero_mixed', 'graphic_layout'):
        return _run_graphic(c)
    if k == 'graphic_nonfinite':
        return _run_graphic_nonfinite(c)
    if k == 'graphic_counts':
        return _run_graphic_counts(c)
    if k == 'access_order':
        return _run_access_order(c)
    if k == 'decode_raw':
        return _run_decode_raw(c)
    if k == 'meas':
        return _run_meas(c)
    if k == 'meas_raw':
        return _run_meas_raw(c)
    if k in ('group_meas', 'group_meas_err'):
        return _run_group_meas(c)
    if k in ('lookup', 'lookup_err'):
        return _run_lookup(c)
    if k in ('object', 'object_err'):
        return _run_object(c)
    if k == 'parse_guard':
        return _run_parse_guard(c)
    if k == 'lookup_edited':
        return _run_lookup_edited(c)
    if k == 'object_edited':
        return _run_object_edited(c)
    raise ValueError(k)


# ------------------------------------------------------------------ model side
def _model_words(g, d):
    """(dbl, gd as words in the dtype numpy concatenates to)"""
    np = _np()
    arrs = _arrays(g, d, layout=False)
    if not arrs:
        return False, []
    rt = np.result_type(*[a.dtype for a in arrs])
    if rt.kind in 'iu':
        # D64: single precision only if every integer is exactly representable in it
        rt = np.dtype(np.float32 if all(fits32(v) for a in g['gd'] for r in a for v in r) else np.float64)
    out = []
    for a in arrs:
        x = a.astype(rt)
        out.append(_words(x) if x.size else [])
    return rt == np.float64, out


def zlll(x):
    return '[' + '; '.join(zll(a) for a in x) + ']'


def optzl(x):
    return 'None' if x is None else f'(Some {zl(x)})'


def _b(x):
    return 'true' if x else 'false'


def _all_int(g):
    return all(dt not in ('f4', 'f8') for dt in (g.get('dts') or [g['dt']]))


def _graphic_term(g, d, mem=False):
    if _all_int(g) and any(abs(v) > (1 << 53) for a in g['gd'] for r in a for v in r):
        # refused before any float is made; there are no words to hand to the model
        return f"(guard_ints {zl([v for a in g['gd'] for r in a for v in r])} VNone)"
    dbl, gd = _model_words(g, d)
    n = len(g['gd'])
    dbl_term = _b(dbl)
    if _all_int(g) and g['gd']:
        # the precision decision itself is taken by the model from the raw integers
        dbl_term = '(ints_double ' + zl([v for a in g['gd'] for r in a for v in r]) + ')'
    t = (f"(run_graphic_mem {dbl_term} {g['gt']} {zlll(gd)} {zl(_ks(n))})" if mem else
         f"(run_graphic {dbl_term} {g['gt']} {zlll(gd)} {d} {zl(_ks(n))} {zl(_cis(n))})")
    if _all_int(g) and g['gd']:
        t = f"(guard_ints {zl([v for a in g['gd'] for r in a for v in r])} {t})"
    return t


def _history_term(c):
    g, d = c['group'], c['d']
    dbl, gd = _model_words(g, d)
    dbl_term = _b(dbl)
    ints = [v for a in g['gd'] for r in a for v in r]
    if _all_int(g):
        dbl_term = '(ints_double ' + zl(ints) + ')'
    ops = []
    for op in c['ops']:
        cd = 5 - d if op[-1] else d
        ops.append(f'HAll {cd}' if op[0] == 'all' else f'HOne {zlit(op[1])} {cd}')
    t = f"(run_history {dbl_term} {g['gt']} {zlll(gd)} {_b(c['entry'] == 'mem')} [{'; '.join(ops)}])"
    if _all_int(g):
        t = f'(guard_ints {zl(ints)} {t})'
    return t


def _query_term(q):
    def o(k):
        return optz(q.get(k))
    gt = f"(Some {q['gt']})" if 'gt' in q else 'None'
    return (f"(mkQ {o('cat')} {o('typ')} {o('label')} {gt} {o('algtype')} {o('name')} {o('family')} {o('version')})")


def _edit_term(ed):
    return '[' + '; '.join(f"({zlit(p)}, {'None' if r is None else '(Some ' + zlit(r) + ')'})" for p, r in ed) + ']'


def _object_term(c):
    d, h = c['d'], c['hdr']
    specs = []
    for g in c['groups']:
        dbl, gd = _model_words(g, d)
        dbl_term = _b(dbl)
        if _all_int(g) and g['gd']:
            dbl_term = '(ints_double ' + zl([v for a in g['gd'] for r in a for v in r]) + ')'
        alg = 'None' if g['alg'] is None else f"(Some ({g['alg'][0]}, {g['alg'][1]}, {g['alg'][2]}))"
        ms = '[' + '; '.join(f"({m['name']}, {zl(m['vs'])})" for m in g['ms']) + ']'
        specs.append(f"(mkGS (mkG {zlit(g['number'])} {g['uid']} {g['label']} {g['cat']} {g['typ']} {g['gt']} "
                     f"{g['algtype']} {alg}) {dbl_term} {zlll(gd)} {ms})")
    ls = []
    for kind, arg, ops, names in c['lookups']:
        look = {'number': lambda: f'(LNumber {zlit(arg)})', 'uid': lambda: f'(LUid {zlit(arg)})',
                'query': lambda: f'(LQuery {_query_term(arg)})'}[kind]()
        o = '; '.join(f'HAll {d}' if op[0] == 'all' else f'HOne {zlit(op[1])} {d}' for op in ops)
        ls.append(f"({look}, [{o}], [{'; '.join(optz(q) for q in names)}])")
    hdr = (f"(mkH {_b(h['ctype'] in ('2D', '3D'))} {_b(h['ctype'] == '3D')} {h['nsrc']} {h['nfor'] if h['nsrc'] else 0} "
           f"{_b(h['ts'] in ('explicit', 'implicit'))})")
    lets = f"let h := {hdr} in let ss := [{'; '.join(specs)}] in let ls := [{'; '.join(ls)}] in "
    if c['kind'] == 'object_edited':
        ed = _edit_term(c['edit'])
        return (f"({lets}match run_object_edited h ss false {ed} ls with VErr e => VErr e "
                f"| r0 => let r1 := run_object_edited h ss true {ed} ls in VL [r0; r1; r1] end)")
    if c['kind'] == 'parse_guard':
        v = c['variant']
        pin = ('PNotDataset' if 'not_dataset' in v else
               f"(PDataset {_b('sop_class' not in v)} {'None' if v == 'no_file_meta' else '(Some ' + _b('big_endian' not in v) + ')'})")
        return f"({lets}run_parse_guard {pin} h ss ls)"
    return (f"({lets}match run_object h ss false ls with VErr e => VErr e "
            f"| r0 => let r1 := run_object h ss true ls in VL [r0; r1; r1] end)")


def coq_term(c):
    k = c['kind']
    if k == 'access_order':
        return _history_term(c)
    if k in ('object', 'object_err', 'parse_guard', 'object_edited'):
        return _object_term(c)
    if k in ('graphic', 'graphic_bigint', 'graphic_layout'):
        n = len(c['groups'])
        lets = ' '.join(f"let g{i} := {_graphic_term(g, c['d'])} in let m{i} := {_graphic_term(g, c['d'], mem=True)} in"
                        for i, g in enumerate(c['groups']))

        def path(fmt):
            return 'VL [' + '; '.join(fmt.format(i=i) for i in range(n)) + ']'
        return f"({lets} VL [{path('m{i}')}; {path('sel [1; 2]%nat g{i}')}; {path('g{i}')}; VB true])"
    if k == 'graphic_nonfinite':
        return _graphic_term(c['groups'][0], c['d'])
    if k == 'graphic_counts':
        g, d = c['groups'][0], c['d']
        return (f"(let g0 := {_graphic_term(g, d)} in let m0 := {_graphic_term(g, d, mem=True)} in "
                f"match g0 with VErr e => VErr e "
                f"| _ => VL [VL [m0]; VL [sel [1; 2]%nat g0]; VL [g0]; VB true] end)")
    if k == 'graphic_err':
        if any(len(set(len(r) for r in a)) > 1 for g in c['groups'] for a in g['gd']):
            return None
        return _graphic_term(c['groups'][0], c['d'])
    if k == 'zero_mixed':
        # which of the IEEE-equal z words np.unique keeps is implementation defined
        # beyond 8 rows (unstable SIMD sort); below, it is the first row's, as modelled
        if sum(len(a) for g in c['groups'] for a in g['gd']) > 8:
            return None
        return coq_term(dict(c, kind='graphic'))
    if k == 'decode_raw':
        _, cd, (dbl, gt, n, data, cz, idx) = _raw_group_dataset(c)
        return f'(run_decode {_b(dbl)} {gt} {n} {zl(data)} {optz(cz)} {optzl(idx)} {cd})'
    if k == 'meas':
        return f"(let r := run_meas {zl(c['vs'])} {zl(c['ns'])} in VL [r; r])"
    if k == 'meas_raw':
        return f"(run_meas_raw {zl(c['vals'])} {optzl(c['idx'])} {zlit(c['n'])})"
    if k in ('group_meas', 'group_meas_err'):
        ms = '[' + '; '.join(f"({m['name']}, {zl(m['vs'])})" for m in c['ms']) + ']'
        qs = '[' + '; '.join(optz(q) for q in c['queries']) + ']'
        return (f"(match run_group_meas {c['n']} {ms} {qs} with VErr e => VErr e | r => VL [r; r; r] end)")
    if k in ('lookup', 'lookup_err', 'lookup_edited'):
        gs = []
        for g in c['groups']:
            alg = 'None' if g['alg'] is None else f"(Some ({g['alg'][0]}, {g['alg'][1]}, {g['alg'][2]}))"
            gs.append(f"(mkG {g['number']} {g['uid']} {g['label']} {g['cat']} {g['typ']} {g['gt']} {g['algtype']} {alg})")
        ls = []
        for l in c['lookups']:
            if l[0] == 'number':
                ls.append(f'(ByNumber {zlit(l[1])})')
            elif l[0] == 'uid':
                ls.append(f'(ByUid {zlit(l[1])})')
            elif l[0] == 'nothing':
                ls.append('ByNothing')
            else:
                ls.append(f'(ByQuery {_query_term(l[1])})')
        if k == 'lookup_edited':
            return (f"(match run_lookup_edited [{'; '.join(gs)}] {_edit_term(c['edit'])} [{'; '.join(ls)}] with "
                    f"VErr e => VErr e | r => VL [r; r; r] end)")
        return (f"(match run_lookup [{'; '.join(gs)}] [{'; '.join(ls)}] with VErr e => VErr e "
                f"| r => VL [r; r; r] end)")
    raise ValueError(k)


# ------------------------------------------------------------------ independent oracle
def _expected_arrays(g, d):
    """what must come back from a parsed object: the caller's arrays, value for
    value, in float64 if any input was float64 (or mixed int/float32 widths
    force it), else float32"""
    np = _np()
    arrs = _arrays(g, d, layout=False)
    kinds = {a.dtype for a in arrs}
    if all(k.kind in 'iu' for k in kinds):
        tgt = np.float32 if all(fits32(v) for a in g['gd'] for r in a for v in r) else np.float64
    elif any(k == np.float64 for k in kinds) or any(k.kind in 'iu' and k.itemsize >= 4 for k in kinds):
        tgt = np.float64
    elif any(k.kind in 'iu' and k.itemsize >= 2 for k in kinds) and any(k == np.float32 for k in kinds):
        tgt = np.float32 if all(k.itemsize <= 2 for k in kinds if k.kind in 'iu') else np.float64
    else:
        tgt = np.float32
    return arrs, tgt


def _oracle_graphic(c, out, bitwise=True):
    np = _np()
    if isinstance(out, Err):
        return f'valid graphic data refused: {out}'
    d = c['d']
    if out[3] is not True:
        return 'fresh object does not return the dtypes it was given'
    for (pname, per_group) in zip(('mem', 'copy', 'file'), out):
        for gi, (g, o) in enumerate(zip(c['groups'], per_group)):
            enc, gd, coords, cis = {'mem': lambda: [None, o[0], o[1], None], 'copy': lambda: [None, o[0], o[1], None],
                                    'file': lambda: o}[pname]()
            dbl = per_group is not None and out[2][gi][0][0]
            arrs, tgt = _expected_arrays(g, d)
            n = len(arrs)
            where = f'{pname} path, group {gi + 1} ({g["gt"]}, {g["dt"]}, d={d}, layout={g.get("layout", "c")})'
            if isinstance(gd, Err):
                return f'{where}: get_graphic_data raised {gd}'
            if len(gd) != n:
                return f'{where}: {len(gd)} annotations returned, {n} stored'
            for k, (a, got) in enumerate(zip(arrs, gd)):
                # values: exact numeric equality with what was stored
                want_vals = a.astype(np.float64)
                if dbl:
                    got_vals = np.array(got, np.uint64).view(np.float64).reshape(-1, d) if len(got) else None
                else:
                    got_vals = np.array(got, np.uint32).view(np.float32).reshape(-1, d).astype(np.float64) if len(got) else None
                if got_vals is None or got_vals.shape != want_vals.shape or not np.array_equal(got_vals, want_vals):
                    return f'{where}: annotation {k + 1} returned {got}, stored {a.tolist()}'
                if bitwise:
                    # bit patterns: unchanged in the precision the object stores
                    want = _words(a.astype(np.float64 if dbl else np.float32))
                    if got != want:
                        return f'{where}: annotation {k + 1} bit patterns {got} differ from stored {want}'
            if pname != 'mem' and dbl != (tgt == np.float64):
                return f'{where}: stored as {"double" if dbl else "single"} precision'
            # per annotation number
            ks = _ks(n)
            for k, r in zip(ks, coords or []):
                if k < 1:
                    if r != Err('ValueError'):
                        return f'{where}: get_coordinates({k}) gave {r}'
                elif k > n:
                    if r != Err('IndexError'):
                        return f'{where}: get_coordinates({k}) gave {r} with {n} annotations'
                elif r != gd[k - 1]:
                    return (f'{where}: get_coordinates({k}){" on a cold object" if pname == "copy" else ""} = {r} '
                            f'differs from get_graphic_data()[{k - 1}] = {gd[k - 1]}')
            if enc is None:
                continue
            # coordinate index into the stored flat data
            data, cz = enc[2], enc[3]
            for k, r in zip(_cis(n), cis):
                if k > n:
                    continue
                if isinstance(r, Err):
                    return f'{where}: _get_coordinate_index({k}) raised {r}'
                try:
                    picked = [data[i] for i in r]
                except IndexError:
                    return f'{where}: _get_coordinate_index({k}) = {r} leaves the stored data (len {len(data)})'
                rows = gd[k - 1]
                want = [w for row in rows for w in (row[:2] if cz is not None else row)]
                if picked != want:
                    return f'{where}: _get_coordinate_index({k}) selects {picked}, annotation is {want}'
            if enc[1] != n:
                return f'{where}: NumberOfAnnotations {enc[1]} != {n}'
    return None


def _oracle_access_order(c, out):
    np = _np()
    if isinstance(out, Err):
        return f'valid graphic data refused: {out}'
    if any(op[-1] for op in c['ops']):
        # a call under the coordinate type the object does not have: no property clause
        # says what happens then; those histories are compared with the model only
        return None
    g, d = c['group'], c['d']
    arrs, tgt = _expected_arrays(g, d)
    want = [_words(a.astype(tgt)) for a in arrs]
    n = len(want)
    where = f'{g["gt"]} group ({g["dt"]}, d={d}, {n} annotations) reached by {c["entry"]}'
    for i, (op, r) in enumerate(zip(c['ops'], out)):
        call = 'get_graphic_data()' if op[0] == 'all' else f'get_coordinates({op[1]})'
        hist = 'as first call' if i == 0 else 'after ' + ', '.join(
            'get_graphic_data()' if o[0] == 'all' else f'get_coordinates({o[1]})' for o in c['ops'][:i])
        if op[0] == 'all':
            exp = want
        elif op[1] < 1:
            exp = Err('ValueError')
        elif op[1] > n:
            exp = Err('IndexError')
        else:
            exp = want[op[1] - 1]
        if r != exp:
            return f'{where}: {call} {hist} returned {r}, stored {exp}'
    return None


def _oracle_object(c, out):
    """independent expectation: which groups a lookup must return, and what must be read on them.  The items looked
    at are the groups in the order given, each carrying its own number - or, when the item sequence was rearranged
    (c['edit']), the items taken, in the order stored, carrying the number stored: a lookup by number must hand back
    the item that CARRIES the number (ValueError when none or several do), wherever it is stored."""
    np = _np()
    if isinstance(out, Err):
        return f'valid instance refused: {out}'
    d, gs = c['d'], c['groups']
    items = [(i, g['number']) for i, g in enumerate(gs)] if 'edit' not in c else \
        [(p, gs[p]['number'] if r is None else r) for p, r in c['edit']]
    stored = f" (items stored: {[f'#{k} = group {p + 1} as built' for p, k in items]})" if 'edit' in c else ''
    want_gd, want_ms = [], []
    for g in gs:
        arrs, tgt = _expected_arrays(g, d)
        want_gd.append([_words(a.astype(tgt)) for a in arrs])
        want_ms.append([(m['name'], _canon_meas(m['vs'])) for m in g['ms']])

    def expect_obs(gi, ops, names, number):
        gd, n = want_gd[gi], len(want_gd[gi])
        res = []
        for op in ops:
            if op[0] == 'all':
                res.append(gd)
            elif op[1] < 1:
                res.append(Err('ValueError'))
            elif op[1] > n:
                res.append(Err('IndexError'))
            else:
                res.append(gd[op[1] - 1])
        mats = []
        for q in names:
            sel = [m for m in want_ms[gi] if q is None or m[0] == q]
            mats.append([[m[0] for m in sel], [[m[1][i] for m in sel] for i in range(n)]])
        return [number, res, mats]

    def visible_alg(g):
        return g['alg'] if g['algtype'] != 0 else None
    for pname, res in zip(('mem', 'copy', 'file'), out):
        for (kind, arg, ops, names), r in zip(c['lookups'], res):
            if kind in ('number', 'uid'):
                hit = [(i, k) for i, k in items if (k if kind == 'number' else gs[i]['uid']) == arg]
                want = expect_obs(hit[0][0], ops, names, hit[0][1]) if len(hit) == 1 else Err('ValueError')
            else:
                want = []
                for i, k in items:
                    g = gs[i]
                    ok = all(g[key] == arg[key] for key in ('cat', 'typ', 'label', 'gt', 'algtype') if key in arg)
                    for j, key in enumerate(('name', 'version', 'family')):
                        if key in arg:
                            ok = ok and visible_alg(g) is not None and visible_alg(g)[j] == arg[key]
                    if ok:
                        want.append(expect_obs(i, ops, names, k))
            if r != want:
                if 'edit' in c and kind == 'number' and not isinstance(r, Err) and r[0] != arg:
                    return (f'{pname}: get_annotation_group(number={arg}) handed back the group that carries number '
                            f'{r[0]}{stored}')
                if 'edit' in c and kind == 'number' and not isinstance(r, Err) and isinstance(want, Err):
                    return (f'{pname}: get_annotation_group(number={arg}) found a group although '
                            f'{len(hit)} items carry that number{stored}')
                if 'edit' in c and kind == 'number' and isinstance(r, Err) and not isinstance(want, Err):
                    return f'{pname}: get_annotation_group(number={arg}) raised {r} although one item carries that number{stored}'
                return (f'{pname}: lookup {kind} {arg} then {ops} / measurements {names}: got {str(r)[:300]}, '
                        f'stored {str(want)[:300]}{stored}')
    return None


def _oracle_lookup_edited(c, out):
    """identification only: the items stored are c['edit'] applied to the groups as built; a lookup hands back
    (number carried, uid) of the one item that carries the number / uid asked for"""
    if isinstance(out, Err):
        return f'valid groups refused: {out}'
    gs = c['groups']
    items = [(gs[p], gs[p]['number'] if r is None else r) for p, r in c['edit']]
    stored = f"items stored (number, uid): {[(k, g['uid']) for g, k in items]}"
    for pname, res in zip(('mem', 'copy' if c['copy'] else 'nocopy', 'file'), out):
        for l, r in zip(c['lookups'], res):
            if l[0] in ('number', 'uid'):
                hit = [[k, g['uid']] for g, k in items if (k if l[0] == 'number' else g['uid']) == l[1]]
                want = hit[0] if len(hit) == 1 else Err('ValueError')
            elif l[0] == 'nothing':
                want = Err('TypeError')
            else:
                q = l[1]
                want = []
                for g, k in items:
                    ok = all(g[key] == q[key] for key in ('cat', 'typ', 'label', 'gt', 'algtype') if key in q)
                    for j, key in enumerate(('name', 'version', 'family')):
                        if key in q:
                            ok = ok and g['alg'] is not None and g['alg'][j] == q[key]
                    if ok:
                        want.append([k, g['uid']])
            if r != want:
                if l[0] == 'number' and not isinstance(r, Err):
                    return (f'{pname}: get_annotation_group(number={l[1]}) handed back the group carrying number {r[0]} '
                            f'(uid {r[1]}), expected {want}; {stored}')
                return f'{pname}: lookup {l} returned {r}, expected {want}; {stored}'
    return None


def _expected_object_error(c):
    """exception class a malformed instance must be refused with.  Groups are built one after the other, so the
    FIRST offending group decides; within a group: number, algorithm type, missing algorithm identification
    (the one TypeError), graphic data, measurement counts.  Instance level guards (header, numbering) come last
    and are all ValueError.  Computed from the case data, not from the generator's mode label."""
    np = _np()
    lo = {'POINT': (1, 1), 'ELLIPSE': (4, 4), 'RECTANGLE': (4, 4), 'POLYLINE': (2, None), 'POLYGON': (3, None)}
    for g in c['groups']:
        if g['number'] < 1 or not 0 <= g['algtype'] < 3:
            return 'ValueError'
        if g['algtype'] != 0 and g['alg'] is None:
            return 'TypeError'
        a, b = lo[g['gt']]
        if any(len(x) < a or (b is not None and len(x) > b) for x in g['gd']):
            return 'ValueError'
        if g['dt'] in ('f4', 'f8') and any(not np.all(np.isfinite(x)) for x in _arrays(g, c['d'], layout=False)):
            return 'ValueError'
        if any(len(m['vs']) != len(g['gd']) for m in g['ms']):
            return 'ValueError'
    return 'ValueError'


def _oracle_nonfinite(c, out):
    """independent of the generator's labels: numpy says where the caller's arrays are not finite"""
    np = _np()
    d, g = c['d'], c['groups'][0]
    arrs = _arrays(g, d, layout=False)
    bad = [(i + 1, int(r), 'xyz'[int(k)], float(a[r, k])) for i, a in enumerate(arrs)
           for r, k in zip(*np.nonzero(~np.isfinite(a)))]
    if not bad:
        # only reachable from the shrinker (a candidate that lost its non-finite value): nothing to judge
        return None
    if out == Err('ValueError'):
        return None
    nrows = sum(len(a) for a in arrs)
    what = (f'{len(bad)} non-finite value(s) in {nrows} row(s) of a {d}-D {g["gt"]} group ({g["dt"]}), first: annotation '
            f'{bad[0][0]} row {bad[0][1]} {bad[0][2]} = {bad[0][3]} [{c["placement"]}, column {"xyz"[c["col"]]}, {c["vclass"]}]')
    if isinstance(out, Err):
        return f'{what}: rejected with {out} instead of ValueError'
    enc = out[1]
    stored = ''
    if isinstance(enc, list):
        fin = lambda w: (w >> (52 if enc[0] else 23)) & (0x7ff if enc[0] else 0xff) != (0x7ff if enc[0] else 0xff)
        stored = (f'; stored CommonZCoordinateValue word = {enc[3]}'
                  f'{"" if enc[3] is None or fin(enc[3]) else " (NOT finite)"}, '
                  f'{sum(1 for w in enc[2] if not fin(w))} non-finite of {len(enc[2])} point data words')
    back = out[3][1] if isinstance(out[3], list) else out[3]
    return f'{what}: ACCEPTED{stored}; fresh object returns {str(out[2])[:160]}; written + parsed returns {str(back)[:160]}'


def _oracle_counts(c, out):
    """independent of the generator's labels: the shapes of the caller's arrays say which annotations break the rule
    of the graphic type; every other aspect of the case is well-formed, so: any broken -> ValueError, none -> the
    group must be accepted and come back unchanged (judged like a 'graphic' case)"""
    d, g = c['d'], c['groups'][0]
    arrs = _arrays(g, d, layout=False)
    counts = [int(a.shape[0]) for a in arrs]
    lo, hi = {'POINT': (1, 1), 'ELLIPSE': (4, 4), 'RECTANGLE': (4, 4), 'POLYLINE': (2, None), 'POLYGON': (3, None)}[g['gt']]
    bad = [(i + 1, n) for i, n in enumerate(counts) if n < lo or (hi is not None and n > hi)]
    if not bad:
        if isinstance(out, list) and out and out[0] == 'accepted':
            return f'well-formed {g["gt"]} group with point counts {counts} accepted but unreadable: {out[2]}'
        return _oracle_graphic(c, out)
    if out == Err('ValueError'):
        return None
    need = f'exactly {lo}' if hi is not None else f'at least {lo}'
    what = (f'{d}-D {g["gt"]} group ({g["dt"]}) with point counts {counts} (total {sum(counts)} in {len(counts)} annotations; '
            f'each needs {need}): annotation {bad[0][0]} has {bad[0][1]} [{c.get("profile")}]')
    if isinstance(out, Err):
        return f'{what}: rejected with {out} instead of ValueError'

    def sizes(gd):
        return gd if isinstance(gd, Err) else [len(a) if not a or isinstance(a[0], list) else len(a) // d for a in gd]
    try:
        if out[0] == 'accepted':
            return f'{what}: ACCEPTED (NumberOfAnnotations {out[1]}), then reading it raised {out[2]}'
        fresh, cold, parsed = out[0][0][0], out[1][0][0], out[2][0][1]
        enc = out[2][0][0]
        moved = '' if isinstance(parsed, Err) or sizes(parsed) == counts else ' - points moved between annotations'
        return (f'{what}: ACCEPTED; stored NumberOfAnnotations {enc[1]}, {len(enc[2])} point data words, index list '
                f'{enc[4]}; fresh object returns point counts {sizes(fresh)}, from_dataset copy {sizes(cold)}, '
                f'written + parsed {sizes(parsed)}{moved}')
    except Exception:  # noqa: BLE001
        return f'{what}: ACCEPTED: {str(out)[:200]}'


def _canon_meas(vs):
    return [0x7fc00000 if (v & 0x7f800000) == 0x7f800000 and (v & 0x7fffff) else v for v in vs]


def oracle(c, out):
    k = c['kind']
    if k in ('graphic', 'graphic_bigint', 'graphic_layout'):
        return _oracle_graphic(c, out)
    if k == 'access_order':
        return _oracle_access_order(c, out)
    if k in ('object', 'object_edited'):
        return _oracle_object(c, out)
    if k == 'lookup_edited':
        return _oracle_lookup_edited(c, out)
    if k == 'parse_guard':
        v = c['variant']
        if 'not_dataset' in v:
            return None if out == Err('TypeError') else f'from_dataset({c["arg"]}) ({v}): expected TypeError, got {str(out)[:200]}'
        if v in ('ok', 'ok_nocopy', 'no_file_meta'):
            if isinstance(out, Err):
                return f'written instance refused by from_dataset ({v}): {out}'
            return _oracle_object(c, [out])
        return None if out == Err('ValueError') else f'from_dataset ({v}): expected ValueError, got {str(out)[:200]}'
    if k == 'object_err':
        want = Err(_expected_object_error(c))
        return None if out == want else f'malformed instance ({c["mode"]}): expected {want}, got {str(out)[:200]}'
    if k == 'zero_mixed':
        return _oracle_graphic(c, out, bitwise=False)
    if k == 'graphic_err':
        return None if out == Err('ValueError') else f'malformed graphic data ({c["mode"]}) not rejected with ValueError: {str(out)[:200]}'
    if k == 'graphic_nonfinite':
        return _oracle_nonfinite(c, out)
    if k == 'graphic_counts':
        return _oracle_counts(c, out)
    if k == 'decode_raw':
        if c['mut'] == 'none':
            _, gd = _model_words(c['group'], c['d'])
            return None if out == gd else f'decode of an unmodified stored group returned {out}'
        return None
    if k == 'meas':
        want = _canon_meas(c['vs'])
        n = len(want)
        for pname, (enc, res) in zip(('mem', 'copy'), out):
            for nn, r in zip(c['ns'], res):
                if nn == n:
                    if r != want:
                        return f'{pname}: get_values({nn}) = {r}, stored {want}'
                elif not any(v != 0x7fc00000 for v in want) and nn >= 0 and n > 0:
                    pass   # all-NaN vectors keep no length information
                elif nn < n and any(v != 0x7fc00000 for v in want[nn:]) or (nn != n and 0x7fc00000 not in want):
                    if not isinstance(r, Err):
                        return f'{pname}: get_values({nn}) on {n} stored values returned {r}'
        return None
    if k == 'meas_raw':
        return None
    if k == 'group_meas':
        if isinstance(out, Err):
            return f'valid measurements refused: {out}'
        for pname, per_q in zip(('mem', 'copy', 'file'), out):
            for q, r in zip(c['queries'], per_q):
                sel = [m for m in c['ms'] if q is None or m['name'] == q]
                want = [[m['name'] for m in sel], [_canon_meas(m['vs']) for m in sel]]
                if r != want:
                    return f'{pname}: get_measurements(name={q}) = {r}, stored {want}'
        return None
    if k == 'group_meas_err':
        return None if out == Err('ValueError') else f'measurement count mismatch ({c["mode"]}) accepted: {str(out)[:200]}'
    if k == 'lookup':
        if isinstance(out, Err):
            return f'valid groups refused: {out}'
        gs = c['groups']
        for pname, res in zip(('mem', 'copy', 'file'), out):
            for l, r in zip(c['lookups'], res):
                if l[0] == 'number':
                    hit = [g['number'] for g in gs if g['number'] == l[1]]
                    want = hit[0] if len(hit) == 1 else Err('ValueError')
                elif l[0] == 'uid':
                    hit = [g['number'] for g in gs if g['uid'] == l[1]]
                    want = hit[0] if len(hit) == 1 else Err('ValueError')
                elif l[0] == 'nothing':
                    want = Err('TypeError')
                else:
                    q = l[1]
                    want = []
                    for g in gs:
                        ok = all(g[key] == q[key] for key in ('cat', 'typ', 'label', 'gt', 'algtype') if key in q)
                        for j, key in enumerate(('name', 'version', 'family')):
                            if key in q:
                                ok = ok and g['alg'] is not None and g['alg'][j] == q[key]
                        if ok:
                            want.append(g['number'])
                if r != want:
                    return f'{pname}: lookup {l} returned {r}, expected {want}'
        return None
    if k == 'lookup_err':
        return None if out == Err('ValueError') else f'wrongly numbered groups accepted: {str(out)[:200]}'
    return f'unknown kind {k}'


def nontrivial(c, out):
    k = c['kind']
    if k in ('graphic', 'graphic_bigint', 'zero_mixed', 'graphic_layout'):
        return sum(len(g['gd']) for g in c['groups']) > 1
    if k == 'access_order':
        return len(c['group']['gd']) > 1 and len(c['ops']) > 1
    if k == 'graphic_counts':
        return len(c['groups'][0]['gd']) > 1
    if k == 'meas':
        return len(c['vs']) > 1
    if k == 'group_meas':
        return c['n'] > 1 and len(c['ms']) > 0
    if k == 'lookup':
        return len(c['groups']) > 1
    if k == 'decode_raw':
        return len(c['group']['gd']) > 1
    if k == 'object':
        return len(c['groups']) > 1 or len(c['groups'][0]['gd']) > 1
    if k in ('lookup_edited', 'object_edited'):
        # position and number disagree somewhere
        return any(i + 1 != (c['groups'][p]['number'] if r is None else r) for i, (p, r) in enumerate(c['edit']))
    return True


def shrink(c):
    k = c['kind']
    if k == 'access_order':
        ops = c['ops']
        for i in reversed(range(len(ops))):
            if len(ops) > 1:
                yield dict(c, ops=ops[:i] + ops[i + 1:])
        g = c['group']
        if g.get('layout'):
            yield dict(c, group={kk: v for kk, v in g.items() if kk != 'layout'})
        n = len(g['gd'])
        for i in range(n - 1):
            # drop an annotation that no call asks for by number >= its own
            if n > 1 and all(o[0] == 'all' or o[1] > i + 1 or o[1] < 1 for o in ops):
                ops2 = [o if o[0] == 'all' or o[1] < 1 else ['one', o[1] - 1, o[2]] for o in ops]
                yield dict(c, group=dict(g, gd=g['gd'][:i] + g['gd'][i + 1:]), ops=ops2)
        for i, a in enumerate(g['gd']):
            if g['gt'] in ('POLYLINE', 'POLYGON') and len(a) > 3:
                yield dict(c, group=dict(g, gd=g['gd'][:i] + [a[:1] + a[2:]] + g['gd'][i + 1:]))
    if k == 'graphic_counts':
        # fewer annotations first (generic part below), then fewer points: one row less here, or one row moved to the
        # neighbour (keeps the total)
        g = c['groups'][0]
        gd = g['gd']
        for i, a in enumerate(gd):
            if len(a) > 0:
                yield dict(c, groups=[dict(g, gd=gd[:i] + [a[:-1]] + gd[i + 1:])])
    if k in ('graphic', 'graphic_bigint', 'graphic_err', 'zero_mixed', 'graphic_layout', 'graphic_nonfinite', 'graphic_counts'):
        gs = c['groups']
        if len(gs) > 1:
            for i in range(len(gs)):
                yield dict(c, groups=gs[:i] + gs[i + 1:])
        for gi, g in enumerate(gs):
            if g.get('layout'):
                yield dict(c, groups=gs[:gi] + [{kk: v for kk, v in g.items() if kk != 'layout'}] + gs[gi + 1:])
        for gi, g in enumerate(gs):
            if 'dts' in g:
                continue
            for i in range(len(g['gd'])):
                if len(g['gd']) > 1:
                    g2 = dict(g, gd=g['gd'][:i] + g['gd'][i + 1:])
                    yield dict(c, groups=gs[:gi] + [g2] + gs[gi + 1:])
            for i, a in enumerate(g['gd']):
                if g['gt'] in ('POLYLINE', 'POLYGON') and len(a) > 3:
                    g2 = dict(g, gd=g['gd'][:i] + [a[:1] + a[2:]] + g['gd'][i + 1:])
                    yield dict(c, groups=gs[:gi] + [g2] + gs[gi + 1:])
            if g['dt'] in ('f4', 'f8'):
                one = f2w(1.0, g['dt'])
                for i, a in enumerate(g['gd']):
                    for j, r in enumerate(a):
                        for kk, w in enumerate(r):
                            if w not in (one, f2w(2.0, g['dt'])) and kk < 2:
                                a2 = [list(x) for x in a]
                                a2[j][kk] = f2w(float(1 + (j + kk) % 2), g['dt'])
                                g2 = dict(g, gd=g['gd'][:i] + [a2] + g['gd'][i + 1:])
                                yield dict(c, groups=gs[:gi] + [g2] + gs[gi + 1:])
    elif k == 'meas':
        vs = c['vs']
        for i in range(len(vs)):
            v2 = vs[:i] + vs[i + 1:]
            yield dict(c, vs=v2, ns=sorted({len(v2), len(v2) + 1, max(0, len(v2) - 1)}))
    elif k in ('group_meas', 'group_meas_err'):
        for i in range(len(c['ms'])):
            if len(c['ms']) > 1:
                yield dict(c, ms=c['ms'][:i] + c['ms'][i + 1:])
    elif k in ('object', 'object_err', 'parse_guard', 'object_edited'):
        if k == 'object_edited':
            ed = c['edit']
            for i in range(len(ed)):
                if len(ed) > 1:
                    yield dict(c, edit=ed[:i] + ed[i + 1:])
            if all(p < len(c['groups']) - 1 for p, _ in ed) and len(c['groups']) > 1:
                yield dict(c, groups=c['groups'][:-1])
        ls = c['lookups']
        if len(ls) > 1:
            for i in range(len(ls)):
                yield dict(c, lookups=ls[:i] + ls[i + 1:])
        for i, l in enumerate(ls):
            if len(l[2]) > 1:
                yield dict(c, lookups=ls[:i] + [[l[0], l[1], l[2][:-1], l[3]]] + ls[i + 1:])
            if len(l[3]) > 1:
                yield dict(c, lookups=ls[:i] + [[l[0], l[1], l[2], l[3][:-1]]] + ls[i + 1:])
        gs = c['groups']
        if len(gs) > 1 and k == 'object':
            yield dict(c, groups=gs[:-1])
        for gi, g in enumerate(gs):
            if g['ms']:
                yield dict(c, groups=gs[:gi] + [dict(g, ms=g['ms'][:-1])] + gs[gi + 1:])
    elif k in ('lookup', 'lookup_edited'):
        if k == 'lookup_edited':
            ed = c['edit']
            for i in range(len(ed)):
                if len(ed) > 1:
                    yield dict(c, edit=ed[:i] + ed[i + 1:])
            if all(p < len(c['groups']) - 1 for p, _ in ed) and len(c['groups']) > 1:
                yield dict(c, groups=c['groups'][:-1])
            for i in range(len(c['lookups'])):
                if len(c['lookups']) > 1:
                    yield dict(c, lookups=c['lookups'][:i] + c['lookups'][i + 1:])
            return
        ls = c['lookups']
        if len(ls) > 1:
            for i in range(len(ls)):
                yield dict(c, lookups=ls[:i] + ls[i + 1:])
        gs = c['groups']
        if len(gs) > 1:
            yield dict(c, groups=gs[:-1])


if __name__ == '__main__':
    sys.exit(common.main(sys.modules[__name__]))
