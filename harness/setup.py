"""./check --setup : build the .vo files of the development (full build, no -vos).
Required: every C<nn>_Props.vo of a property claimed in MANIFEST.json (and all it
depends on).  Everything else under coq/theories is built best-effort (make -k):
a file that is not part of a claimed check cannot fail the setup."""
import json, os, sys
sys.path.insert(0, os.path.dirname(os.path.abspath(__file__)))
import common
m = json.load(open(os.path.join(common.VERIF, 'MANIFEST.json')))
targets = []
for c in m['checks']:
    t = f"theories/{c['property_id']}_Props.vo"
    if os.path.exists(os.path.join(common.COQ, t[:-1])):
        targets.append(t)
rc, out = common.coq_make(targets, keep_going=True, timeout=3000)
print(out[-3000:])
rc2, out2 = common.coq_make([], keep_going=True, timeout=3000)
if rc2 != 0:
    print('note: some files outside the claimed checks did not build:\n' + out2[-1500:])
hits = common.forbidden_scan()
if hits:
    print('forbidden vernacular:', hits)
print('setup: claimed targets', len(targets), 'make exit', rc)
sys.exit(0 if rc == 0 else 1)
