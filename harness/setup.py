"""./check --setup : build every .vo of the development (full build, no -vos).
A file that fails to build does not stop the others (make -k); the property
whose files are broken reports it in its own check."""
import os, sys
sys.path.insert(0, os.path.dirname(os.path.abspath(__file__)))
import common
common.coq_configure()
rc, out = common.coq_make([], keep_going=True, timeout=3000)
print(out[-3000:])
hits = common.forbidden_scan()
if hits:
    print('forbidden vernacular:', hits)
print('setup: make exit', rc)
sys.exit(0 if rc == 0 and not hits else 1)
