"""C10 - coordinate transforms are mutually consistent and invertible.

Implementation functions driven (real code from $VERIF_REPO/src):
  spatial.get_normal_vector, create_rotation_matrix, create_affine_matrix_from_attributes,
  _create_inv_affine_matrix_from_attributes, rotation_for_patient_orientation,
  get_closest_patient_orientation, create_affine_matrix_from_components,
  _transform_affine_matrix, _transform_affine_to_convention, _are_images_coplanar,
  PixelToReference/ReferenceToPixel/PixelToPixel/ImageToReference/ReferenceToImage/
  ImageToImage transformers (constructor, .affine, __call__, for_image(s)),
  map_pixel_into_coordinate_system, map_coordinate_into_pixel_matrix,
  get_image_coordinate_system, _get_spatial_information, iter_tiled_full_frame_data (-> compute_tile_positions_per_frame),
  <Transformer>.for_image, PixelToPixel/ImageToImage.for_images on synthetic datasets (model-compared),
  volume.VolumeGeometry.from_attributes / from_components and accessors (incl. pixel_spacing,
  spacing_between_slices, voxel_volume, physical_extent/volume, direction, spacing/unit vectors, inverse_affine),
  volume.Volume.from_components / from_attributes and VolumeGeometry.with_array on arrays WITH channel dimensions
  (spatial_shape, channel_shape, center_position / center_indices, get_geometry, map_reference_to_indices with
  check_bounds), PixelToReference / PixelToPixel (constructor and for_images, rounded and not) on index arrays of
  every integer dtype and several memory layouts; the rounded outputs on EXACT ties (ReferenceToPixel, the helper,
  PixelToPixel between pyramid levels through the constructor and for_images, VolumeGeometry.map_reference_to_indices
  (round_output=True)), all at their default options; HISTORIES of one object of every transformer class and of
  VolumeGeometry (fresh, and again after the caller edited in place what it was handed: the array returned by .affine,
  results of calls, its own argument arrays).
Model: coq/theories/C10_Model.v; theorems: C10_Props.v.
"""
import itertools
import os
import sys
from fractions import Fraction as F

sys.path.insert(0, os.path.dirname(os.path.abspath(__file__)))
import common
from common import Err, catch, zlit, qlit, zl

PROPERTY = 'C10'
PROPS_FILE = 'C10_Props.v'
COQ_IMPORTS = ['C10_Model']
TOL = F(1, 10**9)
ORACLE_PREMISES = [
    'float64 arithmetic of numpy (incl. np.linalg.inv, np.dot, np.cross) stays within 1e-9 relative of the exact rational model',
    'np.allclose / 1e-5 tolerance decisions are modelled exactly over Q and exercised only away from the tolerance boundary',
    'np.argsort on 3 items breaks ties by lowest index first (insertion sort)',
    'np.sqrt is modelled only on rationals that are exact squares (spacing / direction_cosines accessors)',
    'np.around rounds half to even; exact-half inputs exercised only on power-of-two geometries where float64 is exact',
    'a dataset is the record of the attributes _get_spatial_information reads; pydicom attribute access, DS->float and '
    'is_multiframe_image (IOD table, substitute table here) enter as booleans chosen from the SOP class',
]
MODELLED = ('spatial.py: get_normal_vector, create_rotation_matrix, create_affine_matrix_from_attributes, '
            '_create_inv_affine_matrix_from_attributes (np.linalg.inv = adjugate/det), rotation_for_patient_orientation, '
            'get_closest_patient_orientation, _is_matrix_orthogonal, create_affine_matrix_from_components, '
            '_transform_affine_matrix, _transform_affine_to_convention, _are_images_coplanar, the six transformer '
            'classes (constructor, affine, __call__), map_pixel_into_coordinate_system, map_coordinate_into_pixel_matrix; '
            'volume.py: VolumeGeometry.from_attributes/from_components, affine, position, spacing, direction_cosines, '
            'center_position, handedness, get_affine, map_indices_to_reference, map_reference_to_indices. '
            'get_image_coordinate_system, _get_spatial_information, iter_tiled_full_frame_data / '
            'compute_tile_positions_per_frame (the frame they yield), <Transformer>.for_image and '
            'PixelToPixel/ImageToImage.for_images on the record of the attributes they read (kinds ds_info, ds_pair, '
            'ds_tile); the older for_image kind additionally checks them against the explicit-attribute '
            'transformers by the oracle only. Index dtype of the array handed to PixelToReference/PixelToPixel '
            '__call__ (kinds p2r_dtype, p2p_dtype, ds_pair_dtype: run_*_dt; the memory layout of the array is outside '
            'the model), Volume.from_components / from_attributes / VolumeGeometry.with_array on arrays with channel '
            'dimensions (kinds vol_*: vol_make, vol_from_components, vol_from_attributes, geom_with_array, '
            'map_reference_to_indices(check_bounds=True)); identities_dtype is oracle-only. Exact ties of the '
            'rounded outputs (kinds r2p_tie, map_coord_tie, p2p_tie, ds_pair_tie: the existing run_r2p / run_map_coord / '
            'run_p2p / run_for_images_dt on coordinates exactly half way between two pixel centres; kind routes: '
            'run_round_routes = default PixelToPixel vs default ReferenceToPixel o PixelToReference vs the helper vs '
            'VolumeGeometry.map_reference_to_indices(round_output=True)); histories of ONE transformer object (kind '
            'history: run_history - the model is a value, so it states that no caller action changes the object; the '
            'aliasing itself is outside the model); kind alias is oracle-only.')
STRATA = ['rotation', 'affine_attr', 'inv_affine', 'p2r', 'i2r', 'r2p', 'r2i', 'p2p', 'i2i', 'coplanar',
          'map_pixel', 'map_coord', 'rot_po', 'closest', 'po_roundtrip', 'affine_comp', 'tam',
          'to_convention', 'geom_attr', 'geom_comp', 'geom_maps', 'geom_more', 'identities', 'for_image',
          'ds_info', 'ds_pair', 'ds_tile', 'malformed',
          'p2r_dtype', 'p2p_dtype', 'ds_pair_dtype', 'identities_dtype', 'vol_comp', 'vol_attr', 'vol_with_array',
          'r2p_tie', 'map_coord_tie', 'p2p_tie', 'ds_pair_tie', 'routes', 'history', 'alias']
RULE = ('orientations: 24 signed axis pairs, Pythagorean rotations about an axis, dense rational rotations from '
        'integer quaternions, left- and right-handed column choice; positions dyadic; spacings dyadic and '
        'non-dyadic rationals, scalar and per-axis; all 8 pixel index conventions x slices_first x handedness; all 48 '
        'patient orientations (and all 48x48 convention pairs in thorough); integer, half-integer and sub-pixel '
        'points; coplanar / shifted / tilted image pairs; malformed stream violating each guard once; index arrays '
        'of int8..int64 / uint8..uint64 (values at both ends of the dtype range, results negative or beyond the '
        'dtype), float16/32/64 and bool arrays (refused), C / Fortran / strided / transposed / reversed / read-only '
        'layouts; volumes with 0-2 channel dimensions (RGB, DICOM attribute, custom descriptors), spatial sizes '
        '1..12 differing from the channel sizes, anchored by position or by centre, array dtype and layout varied; '
        'exact ties: reference coordinates m + 1/2 pixels for every parity and sign of m (columns, rows and slices), '
        'pyramid levels with dyadic spacings (target 2x / 4x coarser, same orientation, rotated by 90 degrees or '
        'flipped, origins an integer or half-integer number of source pixels apart; constructor and for_images of two '
        'total pixel matrices), all three default roundings compared; histories: every transformer class (constructor '
        'with list or numpy arguments, for_image / for_images, VolumeGeometry constructor / from_attributes) observed '
        'fresh and again after the caller edited in place the array returned by .affine (*=, +=, ufunc out=, slice '
        'assignment, fill), the result of the previous call, the arrays it handed to the constructor / the call. '
        'non-trivial = oblique or non-unit-spacing geometry, or a refused input; distinct by case hash')
NOT_EXECUTED = []
EXHAUSTIVE = {'quick': False, 'thorough': False}

AXES = [(1, 0, 0), (0, 1, 0), (0, 0, 1)]
CONVS8 = ['RD', 'DR', 'LD', 'DL', 'RU', 'UR', 'LU', 'UL']
ALL48 = [''.join({'L': 'R', 'P': 'A', 'H': 'F'}[c] if f else c for c, f in zip(o, fl))
         for o in itertools.permutations('LPH') for fl in itertools.product([0, 1], repeat=3)]
INTEGER_RELS = ('same', 'shift', 'scaled', 'flip', 'inplane_sw')
PYTH = [(3, 4, 5), (5, 12, 13), (8, 15, 17), (7, 24, 25), (20, 21, 29)]


# ---------------------------------------------------------------------------
# generators
# ---------------------------------------------------------------------------
def _quat_rot(a, b, c, d):
    n = a * a + b * b + c * c + d * d
    M = [[a * a + b * b - c * c - d * d, 2 * (b * c - a * d), 2 * (b * d + a * c)],
         [2 * (b * c + a * d), a * a - b * b + c * c - d * d, 2 * (c * d - a * b)],
         [2 * (b * d - a * c), 2 * (c * d + a * b), a * a - b * b - c * c + d * d]]
    return [[F(x, n) for x in row] for row in M]


def _orient(rng, klass=None):
    """(row cosines, column cosines, class) - exact orthonormal rationals."""
    klass = klass or rng.choice(['axis', 'axis', 'pyth', 'quat'])
    if klass == 'axis':
        i, j = rng.sample(range(3), 2)
        s0, s1 = rng.choice([1, -1]), rng.choice([1, -1])
        r = [F(x) * s0 for x in AXES[i]]
        c = [F(x) * s1 for x in AXES[j]]
        return r, c, klass
    if klass == 'pyth':
        p, q, h = rng.choice(PYTH)
        co, si = F(p, h), F(q, h)
        if rng.random() < 0.5:
            co, si = si, co
        ax = rng.randrange(3)
        i, j = [k for k in range(3) if k != ax]
        R = [[F(int(a == b)) for b in range(3)] for a in range(3)]
        R[i][i], R[j][j], R[i][j], R[j][i] = co, co, -si, si
        perm = list(range(3))
        rng.shuffle(perm)
        cols = [[R[a][perm[k]] for a in range(3)] for k in range(3)]
        s0, s = rng.choice([1, -1]), rng.choice([1, -1])
        r = [x * s0 for x in cols[0]]
        c = [x * s for x in cols[1]]
        return r, c, klass
    while True:
        q = [rng.randint(-3, 3) for _ in range(4)]
        if any(q):
            break
    R = _quat_rot(*q)
    cols = [[R[a][k] for a in range(3)] for k in range(3)]
    k0, k1 = rng.sample(range(3), 2)
    s = rng.choice([1, -1])
    return cols[k0], [x * s for x in cols[k1]], 'quat'


def _dy(rng, lo, hi, dens=(1, 2, 4, 8)):
    return F(rng.randint(lo, hi), rng.choice(dens))


def _spacing(rng, pow2=False):
    if pow2:
        return F(rng.choice([1, 2, 4, 8]), rng.choice([1, 2, 4, 8, 16]))
    return rng.choice([F(1), F(1, 2), F(1, 4), F(3, 4), F(5, 2), F(3), F(7, 8), F(3, 10), F(1, 3),
                       F(13, 100), F(rng.randint(1, 60), rng.choice([1, 2, 4, 8, 16, 5, 10, 3]))])


def _S(xs):
    return [str(F(x)) for x in xs]


def _geom(rng, klass=None, pow2=False):
    r, c, k = _orient(rng, klass)
    return {'pos': _S([_dy(rng, -800, 800) for _ in range(3)]), 'ori': _S(r + c), 'oclass': k,
            'sp': _S([_spacing(rng, pow2), _spacing(rng, pow2)]),
            'ss': str(_spacing(rng, pow2))}


def _pts_int(rng, n, lo=-6, hi=40):
    return [[rng.randint(lo, hi), rng.randint(lo, hi)] for _ in range(n)]


def _cross(a, b):
    return [a[1] * b[2] - a[2] * b[1], a[2] * b[0] - a[0] * b[2], a[0] * b[1] - a[1] * b[0]]


def _ref_of(g, c, r, k=F(0)):
    """exact frame-of-reference position of (continuous) pixel index (c, r, k)"""
    pos = [F(x) for x in g['pos']]
    o = [F(x) for x in g['ori']]
    rv, cv = o[:3], o[3:]
    n = _cross(rv, cv)
    sr, sc = F(g['sp'][0]), F(g['sp'][1])
    ss = F(g['ss'])
    return [pos[i] + c * sc * rv[i] + r * sr * cv[i] + k * ss * n[i] for i in range(3)]


def _ref_pts(rng, g, n, mode):
    """reference points whose pixel indices are: 'int' integers, 'sub' integers + |d|<=1/4,
    'half' exact halves (pow2 geometries only), 'off' off the plane."""
    out = []
    for _ in range(n):
        c, r, k = F(rng.randint(-5, 30)), F(rng.randint(-5, 30)), F(0)
        if mode == 'sub':
            c += F(rng.randint(-8, 8), 32)
            r += F(rng.randint(-8, 8), 32)
            k = F(rng.randint(-8, 8), 32)
        elif mode == 'half':
            c += F(1, 2)
            r += rng.choice([F(1, 2), F(0), F(-1, 2)])
        elif mode == 'off':
            k = F(rng.choice([-3, -1, 1, 2, 5])) + F(rng.randint(-4, 4), 32)
        elif mode == 'slices':
            k = F(rng.randint(-4, 4))
        out.append(_S(_ref_of(g, c, r, k)))
    return out


def _malform_args(rng, g):
    """violate one argument guard; returns (new g with 'args' overrides, description)"""
    which = rng.choice(['pos_len', 'pos_scalar', 'ori_len', 'ori_scalar', 'sp_len', 'sp_scalar', 'sp_nonpos'])
    a = {}
    if which == 'pos_len':
        a['pos'] = {'seq': rng.choice([g['pos'][:2], g['pos'] + ['1']])}
    elif which == 'pos_scalar':
        a['pos'] = {'scalar': g['pos'][0]}
    elif which == 'ori_len':
        a['ori'] = {'seq': rng.choice([g['ori'][:5], g['ori'] + ['0'], g['ori'][:3]])}
    elif which == 'ori_scalar':
        a['ori'] = {'scalar': '1'}
    elif which == 'sp_len':
        a['sp'] = {'seq': rng.choice([g['sp'][:1], g['sp'] + ['1']])}
    elif which == 'sp_scalar':
        a['sp'] = {'scalar': g['sp'][0]}
    else:
        bad = rng.choice(['0', '-1', '-1/2'])
        a['sp'] = {'seq': [bad, g['sp'][1]] if rng.random() < 0.5 else [g['sp'][0], bad]}
    return a, which


def _args(c, suffix=''):
    """(pos, ori, sp) argument descriptors of a case (with malformed overrides)"""
    g = c['g' + suffix]
    ov = c.get('args' + suffix, {})
    return [ov.get(k, {'seq': g[k]}) for k in ('pos', 'ori', 'sp')]


def gen_cases(rng, tier):
    N = {'quick': 1, 'thorough': 25, 'search': 10}[tier]
    cases = []
    add = cases.append

    # ---- rotation / normal ------------------------------------------------
    for conv in CONVS8:
        for sf in (False, True):
            for hand in ('RIGHT_HANDED', 'LEFT_HANDED'):
                for _ in range(N):
                    g = _geom(rng)
                    sp = {'seq': g['sp']} if rng.random() < 0.8 else {'scalar': g['sp'][0]}
                    ss = g['ss'] if rng.random() < 0.85 else str(-F(g['ss']))
                    add({'kind': 'rotation', 'g': g, 'conv': conv, 'sf': sf, 'hand': hand, 'sp': sp, 'ss': ss,
                         'ortho': True})
    for _ in range(10 * N):      # non-orthonormal cosines are not checked by the code: formula only
        g = _geom(rng)
        g['ori'] = _S([_dy(rng, -8, 8) for _ in range(6)])
        add({'kind': 'rotation', 'g': g, 'conv': rng.choice(CONVS8), 'sf': rng.random() < 0.5,
             'hand': rng.choice(['RIGHT_HANDED', 'LEFT_HANDED']), 'sp': {'seq': g['sp']}, 'ss': g['ss'],
             'ortho': False})
    # ---- affine from attributes ---------------------------------------------
    for conv in ('RD', 'DR'):
        for sf in (False, True):
            for hand in ('RIGHT_HANDED', 'LEFT_HANDED'):
                for _ in range(4 * N):
                    g = _geom(rng)
                    add({'kind': 'affine_attr', 'g': g, 'conv': conv, 'sf': sf, 'hand': hand})
    for _ in range(20 * N):
        add({'kind': 'inv_affine', 'g': _geom(rng)})
    # ---- transformers -------------------------------------------------------
    for _ in range(30 * N):
        g = _geom(rng)
        add({'kind': 'p2r', 'g': g, 'w': 2, 'isint': True, 'pts': _pts_int(rng, rng.randint(0, 5))})
    for _ in range(25 * N):
        g = _geom(rng)
        pts = [_S([F(rng.randint(-40, 200), 8), F(rng.randint(-40, 200), 8)]) for _ in range(rng.randint(0, 4))]
        add({'kind': 'i2r', 'g': g, 'w': 2, 'pts': pts})
    for _ in range(45 * N):
        pow2 = rng.random() < 0.3
        g = _geom(rng, 'axis' if pow2 else None, pow2)
        rnd, drop = rng.random() < 0.6, rng.random() < 0.4
        mode = rng.choice(['int', 'sub', 'sub', 'slices'] + (['half'] if pow2 else []))
        if drop and mode == 'slices':
            mode = 'int'
        add({'kind': 'r2p', 'g': g, 'round': rnd, 'drop': drop, 'w': 3, 'mode': mode,
             'pts': _ref_pts(rng, g, rng.randint(1, 4), mode)})
    for _ in range(25 * N):
        g = _geom(rng)
        drop = rng.random() < 0.4
        mode = rng.choice(['int', 'sub', 'slices'])
        if drop and mode == 'slices':
            mode = 'sub'
        add({'kind': 'r2i', 'g': g, 'drop': drop, 'w': 3, 'mode': mode,
             'pts': _ref_pts(rng, g, rng.randint(1, 4), mode)})
    for kind in ('p2p', 'i2i'):
        for _ in range(30 * N):
            g, g2, rel = _pair(rng)
            c = {'kind': kind, 'g': g, 'g_to': g2, 'rel': rel, 'w': 2}
            if kind == 'p2p':
                c.update(round=rng.random() < 0.5, isint=True, pts=_pts_int(rng, rng.randint(1, 4)))
                if c['round'] and rel not in INTEGER_RELS:
                    c['round'] = False      # rounded only where the exact result is an integer
            else:
                c['pts'] = [_S([F(rng.randint(-40, 200), 8), F(rng.randint(-40, 200), 8)])
                            for _ in range(rng.randint(1, 4))]
            add(c)
    for _ in range(30 * N):
        g, g2, rel = _pair(rng)
        add({'kind': 'coplanar', 'g': g, 'g_to': g2, 'rel': rel})
    for _ in range(20 * N):
        g = _geom(rng)
        idx = _pts_int(rng, 1)[0]
        if rng.random() < 0.2:      # non-integers are truncated by np.array(..., dtype=int)
            idx = _S([F(rng.randint(-40, 200), 8), F(rng.randint(-40, 200), 8)])
        add({'kind': 'map_pixel', 'g': g, 'idx': _S(idx)})
    for _ in range(20 * N):
        pow2 = rng.random() < 0.3
        g = _geom(rng, 'axis' if pow2 else None, pow2)
        mode = rng.choice(['int', 'sub', 'slices'] + (['half'] if pow2 else []))
        add({'kind': 'map_coord', 'g': g, 'mode': mode, 'x': _ref_pts(rng, g, 1, mode)[0]})
    # ---- letters -----------------------------------------------------------------
    for po in ALL48:
        for _ in range(N):
            sp = rng.choice([{'float': str(_spacing(rng))}, {'seq': _S([_spacing(rng) for _ in range(3)])},
                             {'seq': _S([_spacing(rng) for _ in range(3)])}])
            add({'kind': 'po_roundtrip', 'po': po, 'sp': sp})
    for _ in range(12 * N):
        add({'kind': 'rot_po', 'po': rng.choice(ALL48),
             'sp': rng.choice([{'float': str(_spacing(rng))}, {'seq': _S([_spacing(rng) for _ in range(3)])}])})
    for _ in range(30 * N):
        add({'kind': 'closest', 'M': _closest_matrix(rng)})
    # ---- components ------------------------------------------------------------------
    for _ in range(40 * N):
        add(_comp_case(rng, 'affine_comp'))
    # ---- conventions -------------------------------------------------------------------
    for _ in range(25 * N):
        add(_tam_case(rng))
    pairs = list(itertools.product(ALL48, ALL48))
    if tier == 'quick':
        pairs = [(a, a) for a in ALL48[::4]] + rng.sample(pairs, 60)
    for a, b in pairs:
        add({'kind': 'to_convention', 'A': _rand_affine(rng), 'shape': [rng.randint(1, 9) for _ in range(3)],
             'from': a, 'to': b})
    # ---- volume geometry ---------------------------------------------------------------
    for _ in range(30 * N):
        g = _geom(rng)
        add({'kind': 'geom_attr', 'g': g, 'shape': [rng.randint(1, 9) for _ in range(3)],
             'to': rng.choice(ALL48)})
    for _ in range(30 * N):
        c = _comp_case(rng, 'geom_comp')
        c['to'] = rng.choice(ALL48)
        add(c)
    for _ in range(15 * N):
        g = _geom(rng)
        add({'kind': 'geom_maps', 'g': g, 'shape': [rng.randint(1, 9) for _ in range(3)],
             'pts': [_S([_dy(rng, -40, 40), _dy(rng, -40, 40), _dy(rng, -40, 40)]) for _ in range(rng.randint(1, 3))]})
    # ---- identities between the real transformers (oracle only) -----------------------------
    for _ in range(40 * N):
        g, g2, rel = _pair(rng, coplanar_only=True)
        add({'kind': 'identities', 'g': g, 'g_to': g2, 'rel': rel, 'pts': _pts_int(rng, 4)})
    # ---- transformers built from datasets (oracle only) ---------------------------------------
    for _ in range(24 * N):
        add(_for_image_case(rng))
    # ---- image datasets: model-compared (C10_Model.v get_spatial_information & co) ---------------
    cases += _ds_cases(rng, N)
    # ---- further volume accessors (model-compared) ---------------------------------------------
    for _ in range(12 * N):
        g = _geom(rng)
        add({'kind': 'geom_more', 'g': g, 'shape': [rng.randint(1, 9) for _ in range(3)]})
    # ---- malformed stream --------------------------------------------------------------------
    cases += _malformed(rng, 70 * N)
    # ---- index arrays of every dtype / layout; volumes with channel dimensions (appended: earlier draws unchanged)
    cases += _dtype_cases(rng, N)
    cases += _vol_cases(rng, N)
    # ---- exact ties of the rounded outputs; histories of one transformer object (appended as well)
    cases += _tie_cases(rng, N)
    cases += _history_cases(rng, N)
    return cases



# ---------------------------------------------------------------------------
# image datasets (model-compared): descriptor -> pydicom Dataset / Coq [dset]
# ---------------------------------------------------------------------------
SOP = {'ct': '1.2.840.10008.5.1.4.1.1.2', 'ect': '1.2.840.10008.5.1.4.1.1.2.1',
       'wsi': '1.2.840.10008.5.1.4.1.1.77.1.6'}


def _fg(pm=None, ipp=None, iop=None, slide=None):
    return {'pm': pm, 'ipp': ipp, 'iop': iop, 'slide': slide}


def _ds_blank(sop):
    return {'sop': sop, 'for': '1.2.3', 'ori_slide': None, 'root': None, 'shared': None, 'perframe': None,
            'tiled_full': False, 'origin': None, 'rows': 16, 'cols': 16, 'R': 0, 'C': 0, 'focal': 1, 'paths': 1}


def _ds_single(rng, g):
    d = _ds_blank('ct')
    d['root'] = {'ipp': g['pos'], 'iop': g['ori'], 'ps': g['sp'], 'ss': g['ss'] if rng.random() < 0.5 else None}
    return d


def _ds_multiframe(rng, g, n):
    """enhanced (patient) multi-frame: frames stacked along the normal"""
    d = _ds_blank('ect')
    nrm = _cross([F(x) for x in g['ori'][:3]], [F(x) for x in g['ori'][3:]])
    pm = {'sp': g['sp'], 'ss': g['ss'] if rng.random() < 0.7 else None}
    pm_shared, ori_shared = rng.random() < 0.7, rng.random() < 0.5
    pos_shared = n == 1 and rng.random() < 0.3
    positions = [_S([F(g['pos'][j]) + i * F(g['ss']) * nrm[j] for j in range(3)]) for i in range(n)]
    d['shared'] = _fg(pm=pm if pm_shared else None, iop=g['ori'] if ori_shared else None,
                      ipp=positions[0] if pos_shared else None)
    d['perframe'] = [_fg(pm=None if pm_shared else pm, iop=None if ori_shared else g['ori'],
                         ipp=None if pos_shared else positions[i]) for i in range(n)]
    d['_positions'] = positions
    return d


def _ds_wsi(rng, g, tiled_full, z_origin=None):
    d = _ds_blank('wsi')
    d['ori_slide'] = g['ori']
    d['rows'], d['cols'] = rng.randint(1, 5), rng.randint(1, 5)
    d['R'], d['C'] = rng.randint(1, 9), rng.randint(1, 9)
    d['origin'] = [g['pos'][0], g['pos'][1], z_origin]
    d['shared'] = _fg(pm={'sp': g['sp'], 'ss': g['ss'] if rng.random() < 0.5 else None})
    d['tiled_full'] = tiled_full
    nr, nc = -(-d['R'] // d['rows']), -(-d['C'] // d['cols'])
    if tiled_full:
        d['focal'], d['paths'] = rng.choice([1, 1, 2]), rng.choice([1, 1, 2])
    else:
        g0 = dict(g, pos=[g['pos'][0], g['pos'][1], z_origin or '0'])
        pf = []
        for a in range(nr):
            for b in range(nc):
                x = _ref_of(g0, F(b * d['cols']), F(a * d['rows']))
                pf.append(_fg(slide=_S(x)))
        d['perframe'] = pf
    return d


def _ds_nframes(d):
    if d['perframe'] is not None:
        return len(d['perframe'])
    if d['tiled_full']:
        return -(-d['R'] // d['rows']) * -(-d['C'] // d['cols']) * d['focal'] * d['paths']
    return 1


def _ds_cases(rng, N):
    out = []
    pts = lambda: _pts_int(rng, 2, 0, 12)          # noqa: E731

    def info(d, frame, tpm, **kw):
        out.append(dict({'kind': 'ds_info', 'ds': d, 'frame': frame, 'tpm': tpm, 'pts': pts()}, **kw))
    for _ in range(6 * N):                         # single-frame images
        g = _geom(rng)
        info(_ds_single(rng, g), rng.choice([None, None, 1]), False, g=g)
    for _ in range(10 * N):                        # multi-frame, patient
        g = _geom(rng)
        n = rng.randint(1, 4)
        d = _ds_multiframe(rng, g, n)
        info(d, rng.randint(1, n), False, g=g)
    for _ in range(14 * N):                        # TILED_FULL: every tile shape, focal planes, optical paths
        g = _geom(rng)
        g['pos'][2] = '0'
        d = _ds_wsi(rng, g, True, rng.choice([None, None, '0']))
        info(d, rng.randint(1, _ds_nframes(d)), False, g=g)
        if rng.random() < 0.5:
            info(d, None, True, g=g)
    for _ in range(6 * N):                         # TILED_FULL whose origin item carries a Z offset (seg/sop.py writes it; D95)
        g = _geom(rng)
        g['pos'][2] = '0'
        z = str(_dy(rng, -40, 40) or F(3))
        d = _ds_wsi(rng, g, True, z)
        d['focal'] = 1
        info(d, rng.randint(1, _ds_nframes(d)), False, g=g, origin_z=True)
        info(d, None, True, g=g, origin_z=True)
    for _ in range(8 * N):                         # tiled, explicit per-frame positions
        g = _geom(rng)
        g['pos'][2] = '0'
        d = _ds_wsi(rng, g, False, rng.choice([None, '0', str(_dy(rng, -40, 40))]))
        info(d, rng.randint(1, _ds_nframes(d)), False, g=g)
        if rng.random() < 0.5:
            info(d, None, True, g=g)
    for _ in range(16 * N):                        # every guard of _get_spatial_information once
        g = _geom(rng)
        g['pos'][2] = '0'
        bad = rng.choice(['no_for', 'single_frame2', 'single_frame0', 'single_tpm', 'mf_noframe', 'mf_frame_hi',
                          'mf_frame0', 'mf_frame_neg', 'mf_no_pm', 'mf_no_pos', 'mf_no_ori', 'mf_no_shared',
                          'tf_frame0', 'tf_frame_hi', 'wsi_noframe', 'wsi_no_pm', 'tpm_no_origin', 'tf_ori_len',
                          'no_position_anywhere', 'single_missing_ps'])
        if bad.startswith('single') or bad == 'no_for' or bad == 'no_position_anywhere':
            d = _ds_single(rng, g)
            frame, tpm = None, False
            if bad == 'no_for':
                d['for'] = None
            elif bad == 'single_frame2':
                frame = rng.choice([2, 3])
            elif bad == 'single_frame0':
                frame = 0
            elif bad == 'single_tpm':
                tpm = True
            elif bad == 'single_missing_ps':
                d['root']['ps'] = None
            else:
                d['root']['ipp'] = None
        elif bad.startswith('mf'):
            n = rng.randint(2, 4)
            d = _ds_multiframe(rng, g, n)
            frame, tpm = rng.randint(1, n), False
            if bad == 'mf_noframe':
                frame = None
            elif bad == 'mf_frame_hi':
                frame = n + rng.randint(1, 2)
            elif bad == 'mf_frame0':
                frame = 0
            elif bad == 'mf_frame_neg':
                frame = -rng.randint(1, n + 1)
            elif bad == 'mf_no_pm':
                d['shared']['pm'] = None
                for fg in d['perframe']:
                    fg['pm'] = None
            elif bad == 'mf_no_pos':
                d['shared']['ipp'] = None
                for fg in d['perframe'][1:]:
                    fg['ipp'] = None
                frame = rng.randint(2, n)
            elif bad == 'mf_no_ori':
                d['shared']['iop'] = None
                for fg in d['perframe']:
                    fg['iop'] = None
            elif bad == 'mf_no_shared':
                d['shared'] = None
        else:
            tf = bad.startswith('tf') or rng.random() < 0.5
            d = _ds_wsi(rng, g, tf, None)
            nfr = _ds_nframes(d)
            frame, tpm = rng.randint(1, nfr), False
            if bad == 'tf_frame0':
                frame = 0
            elif bad == 'tf_frame_hi':
                frame = nfr + rng.randint(1, 3)
            elif bad == 'wsi_noframe':
                frame = None
            elif bad == 'wsi_no_pm':
                d['shared']['pm'] = None
                tpm = rng.random() < 0.5
            elif bad == 'tpm_no_origin':
                d['origin'], tpm, frame = None, True, None
                d['tiled_full'], d['perframe'] = False, [_fg(slide=['0', '0', '0'])]
            elif bad == 'tf_ori_len':
                d['ori_slide'] = rng.choice([g['ori'][:5], g['ori'] + ['0']])
        info(d, frame, tpm, g=g, bad=bad)
    for _ in range(10 * N):                        # for_images: frame -> total pixel matrix, frame -> frame, other FoR
        g = _geom(rng)
        g['pos'][2] = '0'
        tf = rng.random() < 0.6
        d = _ds_wsi(rng, g, tf, rng.choice([None, None, str(_dy(rng, -40, 40))]))
        d['focal'] = 1
        nfr = _ds_nframes(d)
        rel = rng.choice(['frame_tpm', 'frame_tpm', 'tpm_frame', 'frame_frame', 'other_for', 'no_for'])
        a = b = d
        fa, fb, ta, tb = rng.randint(1, nfr), None, False, True
        if rel == 'tpm_frame':
            fa, fb, ta, tb = None, rng.randint(1, nfr), True, False
        elif rel == 'frame_frame':
            fb, tb = rng.randint(1, nfr), False
        elif rel == 'other_for':
            b = dict(d, **{'for': '1.2.4'})
        elif rel == 'no_for':
            b = dict(d, **{'for': None})
        out.append({'kind': 'ds_pair', 'a': a, 'b': b, 'fa': fa, 'fb': fb, 'ta': ta, 'tb': tb, 'rel': rel, 'g': g,
                    'pts': pts()})
    for _ in range(4 * N):                         # for_images between a slice of a multi-frame image and a single frame
        g = _geom(rng)
        n = rng.randint(1, 3)
        a = _ds_multiframe(rng, g, n)
        fa = rng.randint(1, n)
        g2 = dict(g, pos=a['_positions'][fa - 1]) if rng.random() < 0.6 else dict(g, pos=a['_positions'][0])
        out.append({'kind': 'ds_pair', 'a': a, 'b': _ds_single(rng, g2), 'fa': fa, 'fb': None, 'ta': False, 'tb': False,
                    'rel': 'mf_single', 'g': g, 'g2': g2, 'pts': pts()})
    for _ in range(10 * N):                        # the frames iter_tiled_full_frame_data yields
        g = _geom(rng)
        g['pos'][2] = '0'
        d = _ds_wsi(rng, g, True, rng.choice([None, str(_dy(rng, -40, 40))]))
        nfr = _ds_nframes(d)
        out.append({'kind': 'ds_tile', 'ds': d, 'g': g, 'frame': rng.choice([1, nfr, rng.randint(1, nfr), nfr + 1, 0])})
    return out


def _pair(rng, coplanar_only=False, g=None):
    """two image geometries: same plane (shifted/scaled/rotated in plane/flipped) or not"""
    g = g or _geom(rng)
    o = [F(x) for x in g['ori']]
    rv, cv = o[:3], o[3:]
    n = _cross(rv, cv)
    rel = rng.choice(['same', 'shift', 'scaled', 'inplane', 'flip'] if coplanar_only else
                     ['same', 'shift', 'scaled', 'inplane', 'flip', 'eps', 'offplane', 'offplane', 'tilt', 'tilt',
                      'mirror', 'mirror'])
    g2 = dict(g)
    a, b = rng.randint(-9, 9), rng.randint(-9, 9)
    g2['pos'] = _S(_ref_of(g, F(a), F(b)))
    if rel == 'same':
        g2['pos'] = g['pos']
    elif rel == 'scaled':
        k = rng.choice([2, 4, F(1, 2)])
        g2['sp'] = _S([F(g['sp'][0]) / k, F(g['sp'][1]) / k])     # finer/coarser grid: integer maps stay integer if k>=1
        if k < 1:
            g2['pos'] = g['pos']
            rel = 'coarser'
    elif rel == 'inplane':
        g2['ori'] = _S(cv + [-x for x in rv])                      # 90 degrees in plane
        if rng.random() < 0.5:
            g2['sp'] = [g['sp'][1], g['sp'][0]]
            rel = 'inplane_sw'
    elif rel == 'flip':
        g2['ori'] = _S(cv + rv)                                    # opposite normal
        g2['sp'] = [g['sp'][1], g['sp'][0]]
    elif rel == 'eps':
        g2['pos'] = _S([F(x) + F(1, 10**7) * n[i] for i, x in enumerate(g2['pos'])])   # within tolerance
    if rel == 'mirror':
        # parallel (or anti-parallel) plane at the same distance on the OPPOSITE side of the
        # frame-of-reference origin: pos2 . n = -(pos . n) != 0
        d = sum(F(x) * n[i] for i, x in enumerate(g2['pos']))
        if abs(d) < F(1, 100):
            rel = 'offplane'
        else:
            g2['pos'] = _S([F(x) - 2 * d * n[i] for i, x in enumerate(g2['pos'])])
            if rng.random() < 0.5:
                g2['ori'] = _S(cv + rv)                                # opposite normal as well
                g2['sp'] = [g['sp'][1], g['sp'][0]]
    if rel == 'offplane':
        d = rng.choice([F(1, 1000), F(1, 2), F(-3), F(7, 4)])
        g2['pos'] = _S([F(x) + d * n[i] for i, x in enumerate(g2['pos'])])
    elif rel == 'tilt':
        while True:
            r2, c2, _ = _orient(rng)
            n2 = _cross(r2, c2)
            if abs(sum(x * y for x, y in zip(n, n2))) < F(999, 1000):
                break
        g2['ori'] = _S(r2 + c2)
    return g, g2, rel


def _closest_matrix(rng):
    """3x3 (row-major) matrices: scaled rotations, 45-degree ties, non-orthogonal"""
    m = rng.choice(['rot', 'rot', 'tie', 'bad', 'axis'])
    if m == 'tie':
        h = rng.choice([1, -1])
        cols = [[F(1), F(h), F(0)], [F(-h), F(1), F(0)], [F(0), F(0), F(rng.choice([1, -1]))]]
        rng.shuffle(cols)
        p = list(range(3))
        rng.shuffle(p)
        cols = [[c[p[0]], c[p[1]], c[p[2]]] for c in cols]
    else:
        r, c, _ = _orient(rng, 'axis' if m == 'axis' else rng.choice(['pyth', 'quat']))
        sg = rng.choice([1, -1])
        cols = [r, c, [x * sg for x in _cross(r, c)]]
        rng.shuffle(cols)
        if rng.random() < 0.7:
            sps = [_spacing(rng) for _ in range(3)]
            cols = [[x * sps[j] for x in col] for j, col in enumerate(cols)]
        if m == 'bad':
            k = rng.randrange(3)
            cols[k] = [x + rng.choice([F(1, 1000), F(1, 4)]) for x in cols[k]]
    return _S([cols[j][i] for i in range(3) for j in range(3)])


def _rand_affine(rng):
    r, c, _ = _orient(rng)
    n = _cross(r, c)
    sps = [_spacing(rng) for _ in range(3)]
    cols = [[x * sps[j] for x in v] for j, v in enumerate((r, c, n))]
    rng.shuffle(cols)
    t = [_dy(rng, -100, 100) for _ in range(3)]
    return _S([x for i in range(3) for x in (cols[0][i], cols[1][i], cols[2][i], t[i])])


def _comp_case(rng, kind):
    c = {'kind': kind, 'shape': [rng.randint(1, 9) for _ in range(3)]}
    m = rng.random()
    c['sp'] = ({'float': str(_spacing(rng))} if m < 0.25 else {'int': rng.randint(1, 4)} if m < 0.4 else
               {'seq': _S([_spacing(rng) for _ in range(3)])})
    if rng.random() < 0.5:
        c['po'], c['direction'] = rng.choice(ALL48), None
    else:
        r, cc, _ = _orient(rng)
        sg = rng.choice([1, -1])
        n = [x * sg for x in _cross(r, cc)]
        cols = [r, cc, n]
        rng.shuffle(cols)
        c['po'], c['direction'] = None, _S([cols[j][i] for i in range(3) for j in range(3)])
        c['nested'] = rng.random() < 0.5
    p = _S([_dy(rng, -200, 200) for _ in range(3)])
    if rng.random() < 0.5:
        c['position'], c['center'] = p, None
    else:
        c['position'], c['center'] = None, p
    c['patient'] = True
    return c


def _tam_case(rng):
    def flips():
        return None if rng.random() < 0.4 else [rng.random() < 0.5 for _ in range(3)]

    def perm():
        if rng.random() < 0.4:
            return None
        p = list(range(3))
        rng.shuffle(p)
        return p
    return {'kind': 'tam', 'A': _rand_affine(rng), 'shape': [rng.randint(1, 9) for _ in range(3)],
            'fi': flips(), 'fr': flips(), 'pi': perm(), 'pr': perm()}


def _for_image_case(rng):
    src = rng.choice(['single', 'mf_shared', 'mf_perframe', 'tiled_full', 'tiled_perframe', 'tpm'])
    g = _geom(rng)
    c = {'kind': 'for_image', 'src': src, 'g': g, 'pts': _pts_int(rng, 3, 0, 12)}
    if src in ('tiled_full', 'tiled_perframe', 'tpm'):
        g['pos'][2] = '0'
        c.update(R=rng.randint(1, 9), C=rng.randint(1, 9), th=rng.randint(1, 5), tw=rng.randint(1, 5))
        nt = -(-c['R'] // c['th']) * -(-c['C'] // c['tw'])
        c['frame'] = rng.randint(1, nt)
    elif src.startswith('mf'):
        c['nframes'] = rng.randint(1, 4)
        c['frame'] = rng.randint(1, c['nframes'])
    return c


def _malformed(rng, n):
    out = []
    # every spacing guard, deterministically: zero and negative, either component, every entry point
    for bad in ('0', '-1/2'):
        for which in (0, 1):
            g = _geom(rng)
            sp = list(g['sp'])
            sp[which] = bad
            for sub in ('affine_attr', 'p2r', 'i2r', 'r2p', 'map_pixel'):
                out.append({'kind': 'malformed', 'm': 'args', 'g': g, 'args': {'sp': {'seq': sp}},
                            'what': 'sp_nonpos', 'sub': sub})
            out.append({'kind': 'malformed', 'm': 'rot_sp', 'g': g,
                        'rot': {'kind': 'rotation', 'g': g, 'conv': rng.choice(CONVS8), 'sf': rng.random() < 0.5,
                                'hand': 'RIGHT_HANDED', 'sp': {'seq': sp} if which else {'scalar': bad},
                                'ss': g['ss'], 'ortho': True}})
            cc = _comp_case(rng, 'affine_comp')
            out.append({'kind': 'malformed', 'm': 'comp', 'g': g, 'comp': cc, 'bad': 'sp_nonpos'})
            out.append({'kind': 'malformed', 'm': 'comp', 'g': g, 'comp': cc, 'bad': 'sp_scalar_nonpos'})
    for _ in range(n):
        g = _geom(rng)
        m = rng.choice(['args', 'args', 'args', 'conv', 'hand', 'affine_LU', 'singular', 'width', 'dtype',
                        'empty_drop', 'offplane_drop', 'po', 'comp', 'tam_perm', 'pair_args', 'geom'])
        c = {'kind': 'malformed', 'm': m, 'g': g}
        if m == 'args':
            c['args'], c['what'] = _malform_args(rng, g)
            c['sub'] = rng.choice(['affine_attr', 'inv_affine', 'p2r', 'i2r', 'r2p', 'r2i', 'map_pixel', 'map_coord'])
        elif m == 'conv':
            c['conv'] = rng.choice(['RL', 'UD', 'RR', 'XD', 'R', 'RDL', '', 'rd', 'DU'])
            c['sub'] = rng.choice(['rotation', 'affine_attr', 'normal'])
        elif m == 'hand':
            c['hand'] = rng.choice(['RIGHT', 'left_handed', ''])
            c['sub'] = rng.choice(['rotation', 'affine_attr', 'normal'])
        elif m == 'affine_LU':
            c['conv'] = rng.choice(['LD', 'DL', 'RU', 'UR', 'LU', 'UL'])
        elif m == 'singular':
            c['sub'] = rng.choice(['inv_affine', 'r2p', 'r2i', 'map_coord'])
        elif m == 'width':
            c['sub'] = rng.choice(['p2r', 'i2r', 'r2p', 'r2i', 'p2p', 'i2i'])
        elif m == 'dtype':
            c['sub'] = rng.choice(['p2r', 'p2p'])
        elif m == 'empty_drop':
            c['sub'] = rng.choice(['r2p', 'r2i'])
            c['drop'] = rng.random() < 0.7
        elif m == 'offplane_drop':
            c['sub'] = rng.choice(['r2p', 'r2i'])
            c['pts'] = _ref_pts(rng, g, 2, 'int') + _ref_pts(rng, g, 1, 'off')
            rng.shuffle(c['pts'])
        elif m == 'po':
            c['po'] = rng.choice(['LR', 'LPHF', 'LRH', 'LLP', 'XYZ', 'lph', 'PAH', 'HFL', ''])
            c['sub'] = rng.choice(['rot_po', 'to_convention_from', 'to_convention_to', 'affine_comp', 'int_spacing'])
        elif m == 'comp':
            c['comp'] = _comp_case(rng, 'affine_comp')
            c['bad'] = rng.choice(['both_dir', 'no_dir', 'both_pos', 'no_pos', 'sp_len', 'sp_nonpos', 'dir_shape',
                                   'dir_nonorth', 'dir_nonunit', 'pos_len', 'no_shape', 'shape_len', 'center_len'])
        elif m == 'tam_perm':
            c['tam'] = _tam_case(rng)
            key = rng.choice(['pi', 'pr'])
            c['tam'][key] = rng.choice([[0, 1], [0, 1, 1], [1, 2, 3], [0, 1, 2, 0], [-1, 0, 1]])
            if rng.random() < 0.2:
                c['tam']['shape'] = c['tam']['shape'][:2]
        elif m == 'pair_args':
            c['g_to'] = _geom(rng)
            c['g_to']['pos'], c['g_to']['ori'] = g['pos'], g['ori']
            c['sub'] = rng.choice(['p2p', 'i2i'])
            side = rng.choice(['', '_to'])
            c['args' + side], c['what'] = _malform_args(rng, g)
        elif m == 'geom':
            c['bad'] = rng.choice(['po_slide', 'nonorth_affine', 'shape_len'])
        out.append(c)
    return out


# ---------------------------------------------------------------------------
# index arrays: dtype and memory layout of what is handed to __call__
# ---------------------------------------------------------------------------
INDEX_DTYPES = {'int8': ('KSigned', 8), 'int16': ('KSigned', 16), 'int32': ('KSigned', 32), 'int64': ('KSigned', 64),
                'uint8': ('KUnsigned', 8), 'uint16': ('KUnsigned', 16), 'uint32': ('KUnsigned', 32),
                'uint64': ('KUnsigned', 64)}
OTHER_DTYPES = {'float16': ('KFloat', 16), 'float32': ('KFloat', 32), 'float64': ('KFloat', 64), 'bool': ('KBool', 8)}
ALL_DTYPES = dict(INDEX_DTYPES, **OTHER_DTYPES)
LAYOUTS = ['C', 'F', 'strided', 'T', 'reversed', 'readonly']
BIG = 2 ** 33          # float64 keeps 1e-9 relative / exact rounding far beyond this; beyond int32 / uint32 on purpose


def _dt_range(dt):
    kind, bits = ALL_DTYPES[dt]
    if kind == 'KSigned':
        return -2 ** (bits - 1), 2 ** (bits - 1) - 1
    if kind == 'KUnsigned':
        return 0, 2 ** bits - 1
    return 0, 1


def _dt_value(rng, dt, cap=BIG):
    kind, _ = ALL_DTYPES[dt]
    if kind == 'KFloat':
        return str(F(rng.randint(-20, 80), rng.choice([1, 1, 2, 4])))
    if kind == 'KBool':
        return rng.randint(0, 1)
    lo, hi = _dt_range(dt)
    lo, hi = max(lo, -cap), min(hi, cap)
    m = rng.random()
    if m < 0.4:
        return rng.randint(max(lo, -3), min(hi, 40))
    if m < 0.75:
        return rng.choice([lo, lo + 1, hi - 1, hi, hi - rng.randint(0, 9), lo + rng.randint(0, 9)])
    return rng.randint(lo, hi)


def _dt_pts(rng, dt, n, cap=BIG):
    return [[_dt_value(rng, dt, cap), _dt_value(rng, dt, cap)] for _ in range(n)]


def _pick_dtype(rng):
    # unsigned and narrow dtypes are where a result can fall outside the dtype of the input
    return rng.choice(['uint8', 'uint8', 'uint16', 'uint16', 'uint32', 'uint64', 'int8', 'int8', 'int16', 'int32',
                       'int64'])


def _wide(dt):
    return ALL_DTYPES[dt][1] >= 32 and dt in INDEX_DTYPES


def _geom_for(rng, dt):
    """indices beyond 2^16 only on axis-aligned power-of-two geometries, where float64 arithmetic is exact (an oblique
    affine carries 1e-16 cross terms that a 1e9 index turns into 1e-7)"""
    return _geom(rng, 'axis', True) if _wide(dt) else _geom(rng)


def _pair_sub(rng, g=None):
    """coplanar pair on which rounding is robust: integer relations, or a shift by a non-integer number of pixels
    whose fractional part stays 1/8 away from the half"""
    while True:
        g, g2, rel = _pair(rng, coplanar_only=True, g=g)
        if rel in INTEGER_RELS:
            break
    if rel in ('same', 'shift') and rng.random() < 0.4:
        fr = lambda: rng.randint(-9, 9) + F(rng.choice([-3, -2, -1, 1, 2, 3]), 8)      # noqa: E731
        g2 = dict(g2, pos=_S(_ref_of(g, fr(), fr())))
        rel = 'subshift'
    return g, g2, rel


def _dtype_cases(rng, N):
    out = []
    for _ in range(24 * N):                      # PixelToReference on every index dtype / layout
        dt = _pick_dtype(rng)
        g = _geom_for(rng, dt)
        out.append({'kind': 'p2r_dtype', 'g': g, 'w': 2, 'dt': dt, 'layout': rng.choice(LAYOUTS),
                    'pts': _dt_pts(rng, dt, rng.randint(0, 4))})
    for _ in range(54 * N):                      # PixelToPixel, rounded (default) and not
        dt = _pick_dtype(rng)
        if rng.random() < 0.8:
            g, g2, rel = _pair_sub(rng, _geom_for(rng, dt))
            rnd = rng.random() < 0.8
        else:
            g, g2, rel = _pair(rng, g=_geom_for(rng, dt))
            rnd = rel in INTEGER_RELS and rng.random() < 0.5
        out.append({'kind': 'p2p_dtype', 'g': g, 'g_to': g2, 'rel': rel, 'w': 2, 'round': rnd, 'dt': dt,
                    'layout': rng.choice(LAYOUTS), 'pts': _dt_pts(rng, dt, rng.randint(1, 4))})
    for dt in OTHER_DTYPES:                      # float / bool arrays: TypeError from the call
        for kind in ('p2r_dtype', 'p2p_dtype'):
            g, g2, rel = _pair_sub(rng)
            out.append({'kind': kind, 'g': g, 'g_to': g2, 'rel': rel, 'w': 2, 'round': rng.random() < 0.5, 'dt': dt,
                        'layout': rng.choice(LAYOUTS), 'pts': _dt_pts(rng, dt, rng.randint(1, 3))})
    for _ in range(16 * N):                      # for_images (round_output default and explicit) on every index dtype
        g = _geom(rng)
        g['pos'][2] = '0'
        d = _ds_wsi(rng, g, rng.random() < 0.6, rng.choice([None, None, str(_dy(rng, -40, 40))]))
        d['focal'] = 1
        nfr = _ds_nframes(d)
        rel = rng.choice(['frame_tpm', 'frame_tpm', 'tpm_frame', 'tpm_frame', 'frame_frame', 'other_for'])
        b = d
        fa, fb, ta, tb = rng.randint(1, nfr), None, False, True
        if rel == 'tpm_frame':
            fa, fb, ta, tb = None, rng.randint(1, nfr), True, False
        elif rel == 'frame_frame':
            fb, tb = rng.randint(1, nfr), False
        elif rel == 'other_for':
            b = dict(d, **{'for': '1.2.4'})
        dt = _pick_dtype(rng)
        out.append({'kind': 'ds_pair_dtype', 'a': d, 'b': b, 'fa': fa, 'fb': fb, 'ta': ta, 'tb': tb, 'rel': rel, 'g': g,
                    'round': rng.choice([True, True, True, False]), 'dt': dt, 'layout': rng.choice(LAYOUTS),
                    'pts': _dt_pts(rng, dt, rng.randint(1, 3), cap=300)})
    for _ in range(12 * N):                      # the same index VALUES in every dtype / layout (oracle only)
        g, g2, rel = _pair_sub(rng)
        out.append({'kind': 'identities_dtype', 'g': g, 'g_to': g2, 'rel': rel,
                    'pts': [[rng.choice([0, 1, 127, rng.randint(0, 127)]), rng.randint(0, 127)]
                            for _ in range(rng.randint(1, 4))],
                    'layouts': rng.sample(LAYOUTS, 2)})
    return out


# ---------------------------------------------------------------------------
# volumes carrying an array with channel dimensions
# ---------------------------------------------------------------------------
CHANNEL_POOL = ['OpticalPathIdentifier', 'SegmentNumber', 'DiffusionBValue', 'custom_int', 'custom_str']
ARRAY_DTYPES = ['uint8', 'int16', 'float32', 'float64', 'bool']


def _vol_channels(rng):
    pool = list(CHANNEL_POOL)
    rng.shuffle(pool)
    chan = []
    for _ in range(rng.choice([0, 1, 1, 1, 2, 2])):
        n = rng.choice([1, 2, 3, 3, 4, 5])
        key = 'rgb' if (n == 3 and rng.random() < 0.5 and not any(k == 'rgb' for k, _ in chan)) else pool.pop()
        chan.append([key, n])
    return chan


def _vol_probes(spatial, rng):
    n = spatial
    probes = [_S([F(x - 1, 2) for x in n]), _S([x - 1 for x in n]), ['0', '0', '0']]
    k = rng.randrange(3)
    bad = [rng.randint(0, x - 1) for x in n]
    bad[k] = rng.choice([n[k], n[k] + 2, -1, -3])
    probes.append(_S(bad))
    return probes


def _vol_finish(rng, c):
    spatial = [rng.randint(1, 12) for _ in range(3)]
    c['chan'] = _vol_channels(rng)
    c['shape'] = spatial
    c['ashape'] = spatial + [n for _, n in c['chan']]
    c['adt'] = rng.choice(ARRAY_DTYPES)
    c['alayout'] = rng.choice(['C', 'F', 'moveaxis'])
    c['to'] = rng.choice(ALL48)
    c['probes'] = _vol_probes(spatial, rng)
    return c


def _vol_comp_case(rng, kind):
    c = _comp_case(rng, kind)
    if c['center'] is None and rng.random() < 0.4:       # anchoring by the centre is what involves the shape
        c['position'], c['center'] = None, c['position']
    if c['po'] is None:
        c['patient'] = rng.random() < 0.6
    return _vol_finish(rng, c)


def _vol_cases(rng, N):
    out = []
    for _ in range(40 * N):
        out.append(_vol_comp_case(rng, 'vol_comp'))
    for _ in range(14 * N):
        out.append(_vol_finish(rng, {'kind': 'vol_attr', 'g': _geom(rng)}))
    for _ in range(14 * N):
        out.append(_vol_comp_case(rng, 'vol_with_array'))
    for _ in range(18 * N):                      # every guard once
        kind = rng.choice(['vol_comp', 'vol_comp', 'vol_attr', 'vol_with_array'])
        c = _vol_comp_case(rng, kind) if kind != 'vol_attr' else _vol_finish(rng, {'kind': kind, 'g': _geom(rng)})
        bad = rng.choice(['ndim2', 'ndim1', 'chan_missing', 'chan_extra', 'chan_len', 'chan_first'] +
                         (['po_slide'] if kind != 'vol_attr' else []) +
                         (['wa_shape', 'wa_perm'] if kind == 'vol_with_array' else []))
        c['bad'] = bad
        if bad == 'ndim2':
            c['ashape'], c['chan'] = c['ashape'][:2], []
        elif bad == 'ndim1':
            c['ashape'], c['chan'] = c['ashape'][:1], []
        elif bad == 'chan_missing':
            if not c['chan']:
                c['ashape'] = c['ashape'] + [2]
            else:
                c['chan'] = c['chan'][:-1]
        elif bad == 'chan_extra':
            c['chan'] = c['chan'] + [['AcquisitionNumber', 2]]
        elif bad == 'chan_len':
            if not c['chan']:
                c['chan'], c['ashape'] = [['SegmentNumber', 2]], c['ashape'] + [2]
            i = rng.randrange(len(c['chan']))
            c['chan'][i] = [c['chan'][i][0] if c['chan'][i][0] != 'rgb' else 'SegmentNumber',
                            c['chan'][i][1] + rng.choice([1, 2])]
        elif bad == 'chan_first':                 # channel dimension put first: sizes no longer match the values
            n = rng.choice([x for x in (2, 3, 4, 5, 13) if x != c['ashape'][2]])
            c['chan'] = [['SegmentNumber', n]]
            c['ashape'] = [n] + c['shape']
        elif bad == 'po_slide':
            c['po'], c['direction'], c['patient'] = rng.choice(ALL48), None, False
        elif bad == 'wa_shape':
            k = rng.randrange(3)
            c['ashape'] = list(c['ashape'])
            c['ashape'][k] += rng.choice([1, 2])
        elif bad == 'wa_perm':                    # array with the spatial axes in another order
            sp = list(c['shape'])
            if len(set(sp)) == 1:
                sp[0] += 1
                c['shape'] = list(sp)
            c['ashape'] = [sp[1], sp[2], sp[0]] + c['ashape'][3:]
        out.append(c)
    return out


# ---------------------------------------------------------------------------
# exact ties of the rounded outputs: coordinates exactly half way between two pixel centres
# ---------------------------------------------------------------------------
BASE_KIND = {'r2p_tie': 'r2p', 'map_coord_tie': 'map_coord', 'p2p_tie': 'p2p'}
PYRAMID_RELS = ('pyr2', 'pyr4', 'pyr2_flip', 'pyr2_rot', 'halfshift')


def _tie_ref_pts(rng, g, n, slices):
    """reference points whose pixel index is m + 1/2 in the column, row (and slice) direction, for lower neighbours m
    of both parities and signs; the other coordinates are integers or ties as well"""
    out = []
    for i in range(n):
        m = rng.choice([-6, -5, -4, -3, -2, -1, 0, 1, 2, 3, 4, 5, 10, 11, 30, 31]) if i else rng.choice([0, 2, -2, 4, 10])
        h = lambda: F(rng.randint(-6, 31)) + rng.choice([F(0), F(1, 2), F(1, 2), F(-1, 2)])      # noqa: E731
        col, row = F(m) + F(1, 2), h()
        if rng.random() < 0.3:
            col, row = row, col
        k = rng.choice([F(0), F(0), F(1, 2), F(-1, 2), F(3, 2), F(5, 2)]) if slices else F(0)
        out.append(_S(_ref_of(g, col, row, k)))
    return out


def _pyramid_pair(rng, rel=None):
    """two levels of a resolution pyramid on an exactly representable (axis-aligned, dyadic) plane: the target is
    k times coarser, its origin a (half-)integer number of source pixels away"""
    g = _geom(rng, 'axis', True)
    rel = rel or rng.choice(PYRAMID_RELS)
    o = [F(x) for x in g['ori']]
    rv, cv = o[:3], o[3:]
    k = 4 if rel == 'pyr4' else 1 if rel == 'halfshift' else 2
    a, b = F(rng.randint(-4, 4)), F(rng.randint(-4, 4))
    if rel == 'halfshift':                              # same resolution, grids half a pixel apart: every index ties
        a, b = a + F(1, 2), b + rng.choice([F(1, 2), F(0)])
    elif rng.random() < 0.3:
        a = b = F(0)
    g2 = dict(g, pos=_S(_ref_of(g, a, b)), sp=_S([F(g['sp'][0]) * k, F(g['sp'][1]) * k]))
    if rel == 'pyr2_flip':
        g2['ori'], g2['sp'] = _S(cv + rv), [g2['sp'][1], g2['sp'][0]]
    elif rel == 'pyr2_rot':
        g2['ori'], g2['sp'] = _S(cv + [-x for x in rv]), [g2['sp'][1], g2['sp'][0]]
    pts = _pts_int(rng, rng.randint(1, 3), -8, 40)
    A, B = int(a - (a % 1)), int(b - (b % 1))
    e = 1 if rel == 'halfshift' else k // 2
    # one point chosen to tie above an EVEN target index (where half-to-even and half-up differ) ...
    pts.append([A + k * rng.choice([-4, -2, 0, 2, 6]) + e, B + k * rng.randint(-3, 9) + rng.choice([0, e])])
    # ... and one above an odd one
    pts.append([A + k * rng.choice([-3, -1, 1, 5]) + e, rng.randint(-8, 40)])
    return g, g2, rel, pts


def _tie_cases(rng, N):
    out = []
    for _ in range(12 * N):                      # ReferenceToPixel on exact ties (rounded is the default)
        g = _geom(rng, 'axis', True)
        drop = rng.random() < 0.35
        out.append({'kind': 'r2p_tie', 'g': g, 'round': rng.random() < 0.9, 'drop': drop, 'w': 3, 'mode': 'tie',
                    'pts': _tie_ref_pts(rng, g, rng.randint(1, 4), not drop)})
    for _ in range(5 * N):                       # the single-point helper on exact ties
        g = _geom(rng, 'axis', True)
        out.append({'kind': 'map_coord_tie', 'g': g, 'mode': 'tie', 'x': _tie_ref_pts(rng, g, 1, True)[0]})
    for _ in range(12 * N):                      # PixelToPixel between pyramid levels (round_output left to its default)
        g, g2, rel, pts = _pyramid_pair(rng)
        out.append({'kind': 'p2p_tie', 'g': g, 'g_to': g2, 'rel': rel, 'w': 2, 'isint': True,
                    'round': rng.random() < 0.9, 'default': rng.random() < 0.6, 'pts': pts})
    for _ in range(6 * N):                       # ... through for_images: total pixel matrices of two pyramid levels
        g, g2, rel, pts = _pyramid_pair(rng, rng.choice(['pyr2', 'pyr2', 'pyr4', 'halfshift']))
        z2 = F(g2['pos'][2]) - F(g['pos'][2])        # slide images: the origin of the source lies at z = 0
        g['pos'][2] = '0'
        g2 = dict(g2, pos=g2['pos'][:2] + [str(z2)])
        a = _ds_wsi(rng, g, rng.random() < 0.5, None)
        b = _ds_wsi(rng, g2, rng.random() < 0.5, str(z2) if z2 != 0 else rng.choice([None, '0']))
        a['focal'] = b['focal'] = 1
        out.append({'kind': 'ds_pair_tie', 'a': a, 'b': b, 'g': g, 'g_to': g2, 'rel': rel,
                    'round': rng.random() < 0.9, 'pts': pts})
    for _ in range(16 * N):                      # every rounded route from a source pixel into the target image
        if rng.random() < 0.6:
            g, g2, rel, pts = _pyramid_pair(rng)
        else:
            g, g2, rel = _pair_sub(rng)
            pts = _pts_int(rng, rng.randint(1, 4))
        out.append({'kind': 'routes', 'g': g, 'g_to': g2, 'rel': rel, 'pts': pts,
                    'shape': [rng.randint(1, 9), rng.randint(1, 9)]})
    return out


# ---------------------------------------------------------------------------
# histories of ONE transformer object; aliasing between its state and arrays the caller can reach
# ---------------------------------------------------------------------------
HISTORY_CLASSES = ('p2r', 'r2p', 'i2r', 'r2i', 'p2p', 'i2i', 'geom')
EDIT_HOW = ('inplace_ops', 'ufunc_out', 'setitem', 'flat')


def _history_ops(rng):
    ops = []
    for _ in range(rng.randint(2, 4)):
        m = rng.random()
        if m < 0.55:
            ops.append({'op': 'affine_edit', 'k': str(rng.choice([F(2), F(-1), F(1, 2), F(3), F(0)])),
                        't': _S([_dy(rng, -40, 40) for _ in range(3)]), 'how': rng.choice(EDIT_HOW)})
        else:
            ops.append({'op': rng.choice(['output_edit', 'input_edit', 'call'])})
    if not any(o['op'] == 'affine_edit' for o in ops):
        ops[rng.randrange(len(ops))] = {'op': 'affine_edit', 'k': '2', 't': ['25/2', '-3', '7'], 'how': 'inplace_ops'}
    return ops


def _history_case(rng, cls, via):
    c = {'kind': 'history', 'cls': cls, 'via': via, 'ops': _history_ops(rng), 'np_args': rng.random() < 0.5}
    if via == 'ctor' and cls == 'geom' and not any(o['op'] == 'input_edit' for o in c['ops']):
        c['ops'].insert(rng.randrange(len(c['ops']) + 1), {'op': 'input_edit'})      # the matrix handed to VolumeGeometry(...)
    if via == 'ds':
        g = _geom(rng)
        g['pos'][2] = '0'
        src = rng.choice(['single', 'mf', 'tiled_full', 'tiled', 'tpm']) if cls not in ('p2p', 'i2i') else 'tiled_pair'
        if src == 'single':
            g = _geom(rng)
            d, frame, tpm = _ds_single(rng, g), None, False
        elif src == 'mf':
            g = _geom(rng)
            n = rng.randint(1, 3)
            d, tpm = _ds_multiframe(rng, g, n), False
            frame = rng.randint(1, n)
        else:
            d = _ds_wsi(rng, g, src != 'tiled' and rng.random() < 0.7, rng.choice([None, None, str(_dy(rng, -40, 40))]))
            d['focal'] = 1
            frame, tpm = (None, True) if src == 'tpm' else (rng.randint(1, _ds_nframes(d)), False)
        c.update(ds=d, frame=frame, tpm=tpm, src=src)
    elif cls in ('p2p', 'i2i'):
        g, g2, rel = _pair_sub(rng)
        c.update(g_to=g2, rel=rel)
    else:
        g = _geom(rng)
    c['g'] = g
    if cls in ('p2r', 'p2p'):
        c['pts'] = _pts_int(rng, rng.randint(1, 3), 0, 12)
    elif cls in ('i2r', 'i2i'):
        c['pts'] = [_S([F(rng.randint(0, 100), 8), F(rng.randint(0, 100), 8)]) for _ in range(rng.randint(1, 3))]
    elif cls == 'geom':
        c['pts'] = [_S([_dy(rng, -40, 40) for _ in range(3)]) for _ in range(rng.randint(1, 3))]
        c['shape'] = [rng.randint(1, 9) for _ in range(3)]
    else:
        c['mode'] = rng.choice(['int', 'sub'])
        c['pts'] = None                 # reference points: filled in below, they depend on the plane
    if cls == 'r2p':
        c.update(round=rng.random() < 0.6, drop=rng.random() < 0.4)
    if cls == 'r2i':
        c['drop'] = rng.random() < 0.4
    if cls == 'p2p':
        c['round'] = rng.random() < 0.6
    if c.get('pts') is None:
        gp = g
        if via == 'ds':                 # the plane the dataset describes for that frame
            pos, _, _ = _ds_expected(c, c['ds'], c['frame'], c['tpm'])
            dd = c['ds']
            pms = [fg['pm'] for fg in [dd['shared']] + (dd['perframe'] or []) if fg and fg['pm'] is not None]
            ss = (dd['root'] or {}).get('ss') if dd['sop'] == 'ct' else pms[0]['ss']
            gp = dict(g, pos=_S(pos), ss=ss or '1')
        c['gp'] = gp
        c['pts'] = _ref_pts(rng, gp, rng.randint(1, 3), c['mode'])
    return c


def _history_cases(rng, N):
    out = []
    for cls in HISTORY_CLASSES:
        for _ in range(3 * N):
            out.append(_history_case(rng, cls, rng.choice(['ctor', 'attr']) if cls == 'geom' else 'ctor'))
        if cls != 'geom':
            for _ in range(2 * N):
                out.append(_history_case(rng, cls, 'ds'))
    for _ in range(10 * N):                      # oracle only: what else a caller can reach
        g, g2, rel = _pair_sub(rng)
        out.append({'kind': 'alias', 'g': g, 'g_to': g2, 'rel': rel, 'pts': _pts_int(rng, 2, 0, 12),
                    'shape': [rng.randint(1, 9) for _ in range(3)], 'how': rng.choice(EDIT_HOW),
                    'po': rng.choice(ALL48)})
    return out


# ---------------------------------------------------------------------------
# implementation runner
# ---------------------------------------------------------------------------
def _f(x):
    return float(F(x))


def _fl(xs):
    return [_f(x) for x in xs]


def _pyarg(a):
    return _fl(a['seq']) if 'seq' in a else _f(a['scalar'])


def _pysarg(a):
    if 'float' in a:
        return _f(a['float'])
    if 'int' in a:
        return int(a['int'])
    return _fl(a['seq'])


def _np_pts(pts, w, isint):
    import numpy as np
    if isint:
        return np.array([[int(F(x)) for x in p] for p in pts], dtype=np.int64).reshape(len(pts), w)
    return np.array([[_f(x) for x in p] for p in pts], dtype=np.float64).reshape(len(pts), w)


def _obs_call(mk, call):
    """[affine, call result | Err]  or Err from the constructor"""
    t = catch(mk)
    if isinstance(t, Err):
        return t
    r = catch(lambda: call(t))
    return [t.affine.tolist(), r if isinstance(r, Err) else r.tolist()]


def _run_transformer(kind, c, pos, ori, sp, pts, w, isint=True, ss=None, rnd=True, drop=False, to=None):
    from highdicom import spatial as S
    ss = _f(c['g']['ss']) if ss is None else ss
    if kind == 'p2r':
        return _obs_call(lambda: S.PixelToReferenceTransformer(pos, ori, sp), lambda t: t(_np_pts(pts, w, isint)))
    if kind == 'i2r':
        return _obs_call(lambda: S.ImageToReferenceTransformer(pos, ori, sp), lambda t: t(_np_pts(pts, w, False)))
    if kind == 'r2p':
        return _obs_call(lambda: S.ReferenceToPixelTransformer(pos, ori, sp, ss, round_output=rnd,
                                                               drop_slice_index=drop),
                         lambda t: t(_np_pts(pts, w, False)))
    if kind == 'r2i':
        return _obs_call(lambda: S.ReferenceToImageTransformer(pos, ori, sp, ss, drop_slice_coord=drop),
                         lambda t: t(_np_pts(pts, w, False)))
    if kind == 'p2p':
        return _obs_call(lambda: S.PixelToPixelTransformer(pos, ori, sp, *to, round_output=rnd),
                         lambda t: t(_np_pts(pts, w, isint)))
    if kind == 'i2i':
        return _obs_call(lambda: S.ImageToImageTransformer(pos, ori, sp, *to), lambda t: t(_np_pts(pts, w, False)))
    raise ValueError(kind)


def _letters(t):
    return ''.join(x.value for x in t)


def _comp_kwargs(c):
    import numpy as np
    kw = {'spacing': _pysarg(c['sp'])}
    if c.get('position') is not None:
        kw['position'] = _fl(c['position'])
    if c.get('center') is not None:
        kw['center_position'] = _fl(c['center'])
    if c.get('direction') is not None:
        d = _fl(c['direction'])
        kw['direction'] = np.array(d).reshape(3, 3) if (c.get('nested') and len(d) == 9) else d
    if c.get('po') is not None:
        kw['patient_orientation'] = c['po']
    return kw


def _np_affine(A):
    import numpy as np
    return np.array(_fl(A) + [0.0, 0.0, 0.0, 1.0]).reshape(4, 4)


def _geom_obs(G, to):
    return [G.affine.tolist(), list(G.position), list(G.spacing), list(G.direction_cosines),
            list(G.center_position), G.handedness.value,
            catch(lambda: G.get_affine(to).tolist())]


def run_impl(c):
    import numpy as np
    from highdicom import spatial as S
    from highdicom.volume import VolumeGeometry
    k = c['kind']
    if k == 'malformed':
        return _run_malformed(c)
    if k == 'rotation':
        g = c['g']
        return [catch(lambda: S.create_rotation_matrix(_fl(g['ori']), c['conv'], c['sf'], c['hand'],
                                                       _pyarg(c['sp']), _f(c['ss'])).tolist()),
                catch(lambda: S.get_normal_vector(_fl(g['ori']), c['conv'], c['hand']).tolist())]
    if k == 'affine_attr':
        pos, ori, sp = map(_pyarg, _args(c))
        return catch(lambda: S.create_affine_matrix_from_attributes(
            pos, ori, sp, _f(c['g']['ss']), c['conv'], c['sf'], c['hand']).tolist())
    if k == 'inv_affine':
        pos, ori, sp = map(_pyarg, _args(c))
        return catch(lambda: S._create_inv_affine_matrix_from_attributes(pos, ori, sp, _f(c['g']['ss'])).tolist())
    if k in ('p2r', 'i2r', 'r2p', 'r2i'):
        pos, ori, sp = map(_pyarg, _args(c))
        return _run_transformer(k, c, pos, ori, sp, c['pts'], c['w'], c.get('isint', True),
                                rnd=c.get('round', True), drop=c.get('drop', False))
    if k in ('p2p', 'i2i'):
        pos, ori, sp = map(_pyarg, _args(c))
        to = list(map(_pyarg, _args(c, '_to')))
        return _run_transformer(k, c, pos, ori, sp, c['pts'], c['w'], c.get('isint', True),
                                rnd=c.get('round', True), to=to)
    if k == 'coplanar':
        return catch(lambda: bool(S._are_images_coplanar(_fl(c['g']['pos']), _fl(c['g']['ori']),
                                                         _fl(c['g_to']['pos']), _fl(c['g_to']['ori']))))
    if k == 'map_pixel':
        pos, ori, sp = map(_pyarg, _args(c))
        idx = [int(F(x)) if F(x).denominator == 1 else _f(x) for x in c['idx']]
        return catch(lambda: list(S.map_pixel_into_coordinate_system(idx, pos, ori, sp)))
    if k == 'map_coord':
        pos, ori, sp = map(_pyarg, _args(c))
        return catch(lambda: [int(v) for v in S.map_coordinate_into_pixel_matrix(
            _fl(c['x']), pos, ori, sp, _f(c['g']['ss']))])
    if k == 'rot_po':
        return catch(lambda: S.rotation_for_patient_orientation(c['po'], _pysarg(c['sp'])).tolist())
    if k == 'po_roundtrip':
        return catch(lambda: _letters(S.get_closest_patient_orientation(
            S.rotation_for_patient_orientation(c['po'], _pysarg(c['sp'])))))
    if k == 'closest':
        return catch(lambda: _letters(S.get_closest_patient_orientation(np.array(_fl(c['M'])).reshape(3, 3))))
    if k == 'affine_comp':
        kw = _comp_kwargs(c)
        if c.get('shape') is not None:
            kw['spatial_shape'] = c['shape']
        return catch(lambda: S.create_affine_matrix_from_components(**kw).tolist())
    if k == 'tam':
        return catch(lambda: S._transform_affine_matrix(
            _np_affine(c['A']), c['shape'], flip_indices=c['fi'], flip_reference=c['fr'],
            permute_indices=c['pi'], permute_reference=c['pr']).tolist())
    if k == 'to_convention':
        return catch(lambda: S._transform_affine_to_convention(
            _np_affine(c['A']), c['shape'], c['from'], c['to']).tolist())
    if k == 'geom_attr':
        pos, ori, sp = map(_pyarg, _args(c))
        nf, rows, cols = c['shape']
        return catch(lambda: _geom_obs(VolumeGeometry.from_attributes(
            image_position=pos, image_orientation=ori, rows=rows, columns=cols, pixel_spacing=sp,
            spacing_between_slices=_f(c['g']['ss']), number_of_frames=nf, coordinate_system='PATIENT'), c['to']))
    if k == 'geom_comp':
        kw = _comp_kwargs(c)
        return catch(lambda: _geom_obs(VolumeGeometry.from_components(
            c['shape'], coordinate_system='PATIENT' if c['patient'] else 'SLIDE', **kw), c['to']))
    if k == 'geom_maps':
        pos, ori, sp = map(_pyarg, _args(c))
        nf, rows, cols = c['shape']

        def f():
            G = VolumeGeometry.from_attributes(
                image_position=pos, image_orientation=ori, rows=rows, columns=cols, pixel_spacing=sp,
                spacing_between_slices=_f(c['g']['ss']), number_of_frames=nf, coordinate_system='PATIENT')
            p = _np_pts(c['pts'], 3, False)
            return [G.map_indices_to_reference(p).tolist(), G.map_reference_to_indices(p).tolist()]
        return catch(f)
    if k == 'identities':
        return _run_identities(c)
    if k == 'for_image':
        return _run_for_image(c)
    if k == 'ds_info':
        return _run_ds_info(c)
    if k == 'ds_pair':
        return _run_ds_pair(c)
    if k == 'ds_tile':
        return _run_ds_tile(c)
    if k == 'geom_more':
        return _run_geom_more(c)
    if k in ('p2r_dtype', 'p2p_dtype'):
        pos, ori, sp = map(_pyarg, _args(c))
        arr = lambda: _np_arr(_dt_rows(c['pts'], c['dt']), 2, c['dt'], c['layout'])      # noqa: E731
        if k == 'p2r_dtype':
            return _obs_call(lambda: S.PixelToReferenceTransformer(pos, ori, sp), lambda t: t(arr()))
        to = list(map(_pyarg, _args(c, '_to')))
        return _obs_call(lambda: S.PixelToPixelTransformer(pos, ori, sp, *to, round_output=c['round']),
                         lambda t: t(arr()))
    if k == 'ds_pair_dtype':
        return _run_ds_pair_dtype(c)
    if k == 'identities_dtype':
        return _run_identities_dtype(c)
    if k in ('vol_comp', 'vol_attr', 'vol_with_array'):
        return _run_vol(c)
    if k in ('r2p_tie', 'map_coord_tie'):
        return run_impl(dict(c, kind=BASE_KIND[k]))
    if k == 'p2p_tie':
        pos, ori, sp = map(_pyarg, _args(c))
        to = list(map(_pyarg, _args(c, '_to')))
        kw = {} if (c['default'] and c['round']) else {'round_output': c['round']}      # True is the default
        return _obs_call(lambda: S.PixelToPixelTransformer(pos, ori, sp, *to, **kw),
                         lambda t: t(_np_pts(c['pts'], 2, True)))
    if k == 'ds_pair_tie':
        return _run_ds_pair_dtype(dict(c, fa=None, fb=None, ta=True, tb=True, dt='int64', layout='C'))
    if k == 'routes':
        return _run_routes(c)
    if k == 'history':
        return _run_history(c)
    if k == 'alias':
        return _run_alias(c)
    raise ValueError(k)


def _run_identities(c):
    """every transformer of the pair, driven with the same integer indices"""
    import numpy as np
    from highdicom import spatial as S
    g, g2 = c['g'], c['g_to']
    a = (_fl(g['pos']), _fl(g['ori']), _fl(g['sp']))
    b = (_fl(g2['pos']), _fl(g2['ori']), _fl(g2['sp']))
    ss = _f(g['ss'])
    idx = np.array(c['pts'], dtype=np.int64)
    p2r, i2r = S.PixelToReferenceTransformer(*a), S.ImageToReferenceTransformer(*a)
    ref = p2r(idx)
    out = {'ref': ref.tolist()}
    out['r2p_float'] = S.ReferenceToPixelTransformer(*a, ss, round_output=False)(ref).tolist()
    out['r2p_round'] = S.ReferenceToPixelTransformer(*a, ss)(ref).tolist()
    out['r2p_drop'] = S.ReferenceToPixelTransformer(*a, ss, drop_slice_index=True)(ref).tolist()
    out['i2r_half'] = i2r(idx + 0.5).tolist()
    out['r2i'] = S.ReferenceToImageTransformer(*a, ss)(ref).tolist()
    out['p2r_of_r2p'] = p2r(np.array(out['r2p_round'])[:, :2]).tolist()
    out['i2r_of_r2i'] = i2r(np.array(out['r2i'])[:, :2]).tolist()
    out['p2p'] = S.PixelToPixelTransformer(*a, *b, round_output=False)(idx).tolist()
    out['p2p_via'] = S.ReferenceToPixelTransformer(*b, round_output=False)(ref)[:, :2].tolist()
    out['p2p_back'] = S.PixelToPixelTransformer(*b, *a, round_output=False)(
        np.array(out['p2p']).round().astype(int)).tolist() if c['rel'] in ('same', 'shift', 'inplane_sw', 'flip') else None
    im = idx + 0.5
    out['i2i'] = S.ImageToImageTransformer(*a, *b)(im).tolist()
    out['i2i_via'] = S.ReferenceToImageTransformer(*b)(i2r(im))[:, :2].tolist()
    out['helper_p'] = [list(S.map_pixel_into_coordinate_system(p, *a)) for p in c['pts']]
    out['helper_r'] = [list(S.map_coordinate_into_pixel_matrix(x, *a, ss)) for x in out['ref']]
    return out


def _dataset(c):
    """synthetic image datasets carrying the geometry of the case"""
    from pydicom import Dataset
    g = c['g']
    pos, ori, sp = _fl(g['pos']), _fl(g['ori']), _fl(g['sp'])
    ds = Dataset()
    ds.FrameOfReferenceUID = '1.2.3'
    src = c['src']
    if src == 'single':
        ds.SOPClassUID = '1.2.840.10008.5.1.4.1.1.2'
        ds.ImagePositionPatient, ds.ImageOrientationPatient, ds.PixelSpacing = pos, ori, sp
        ds.Rows, ds.Columns = 16, 16
        return ds, None
    pm = Dataset()
    pm.PixelSpacing = sp
    pm.SpacingBetweenSlices = _f(g['ss'])
    sh = Dataset()
    sh.PixelMeasuresSequence = [pm]
    ds.SharedFunctionalGroupsSequence = [sh]
    if src in ('mf_shared', 'mf_perframe'):
        ds.SOPClassUID = '1.2.840.10008.5.1.4.1.1.2.1'
        ds.NumberOfFrames = c['nframes']
        ds.Rows, ds.Columns = 16, 16
        po = Dataset()
        po.ImageOrientationPatient = ori
        pf = []
        n = _cross([F(x) for x in g['ori'][:3]], [F(x) for x in g['ori'][3:]])
        positions = []
        for i in range(c['nframes']):
            p = [float(F(g['pos'][j]) + i * F(g['ss']) * n[j]) for j in range(3)]
            positions.append(p)
            pp = Dataset()
            pp.ImagePositionPatient = p
            fg = Dataset()
            fg.PlanePositionSequence = [pp]
            if src == 'mf_perframe':
                fg.PlaneOrientationSequence = [po]
            pf.append(fg)
        if src == 'mf_shared':
            sh.PlaneOrientationSequence = [po]
        ds.PerFrameFunctionalGroupsSequence = pf
        return ds, positions[c['frame'] - 1]
    # tiled slide images
    ds.SOPClassUID = '1.2.840.10008.5.1.4.1.1.77.1.6'
    ds.ImageOrientationSlide = ori
    o = Dataset()
    o.XOffsetInSlideCoordinateSystem, o.YOffsetInSlideCoordinateSystem = pos[0], pos[1]
    if src == 'tpm' and c.get('z_in_origin'):
        o.ZOffsetInSlideCoordinateSystem = pos[2]
    ds.TotalPixelMatrixOriginSequence = [o]
    ds.TotalPixelMatrixRows, ds.TotalPixelMatrixColumns = c['R'], c['C']
    ds.Rows, ds.Columns = c['th'], c['tw']
    ds.TotalPixelMatrixFocalPlanes = 1
    ds.NumberOfOpticalPaths = 1
    ds.OpticalPathSequence = [Dataset()]
    nr, nc = -(-c['R'] // c['th']), -(-c['C'] // c['tw'])
    ds.NumberOfFrames = nr * nc
    if src == 'tiled_perframe':
        pf = []
        for a in range(nr):
            for b in range(nc):
                pp = Dataset()
                pp.ColumnPositionInTotalImagePixelMatrix = 1 + b * c['tw']
                pp.RowPositionInTotalImagePixelMatrix = 1 + a * c['th']
                x = _ref_of(g, F(b * c['tw']), F(a * c['th']))
                pp.XOffsetInSlideCoordinateSystem, pp.YOffsetInSlideCoordinateSystem = float(x[0]), float(x[1])
                pp.ZOffsetInSlideCoordinateSystem = float(x[2])
                fg = Dataset()
                fg.PlanePositionSlideSequence = [pp]
                pf.append(fg)
        ds.PerFrameFunctionalGroupsSequence = pf
    else:
        ds.DimensionOrganizationType = 'TILED_FULL'
    return ds, None


def _run_for_image(c):
    import numpy as np
    from highdicom import spatial as S
    ds, _ = _dataset(c)
    src = c['src']
    kw = {}
    if src == 'tpm':
        kw = {'for_total_pixel_matrix': True}
    elif src != 'single':
        kw = {'frame_number': c['frame']}
    idx = np.array(c['pts'], dtype=np.int64)
    out = {}
    p2r = S.PixelToReferenceTransformer.for_image(ds, **kw)
    out['p2r_affine'] = p2r.affine.tolist()
    out['ref'] = p2r(idx).tolist()
    out['i2r'] = S.ImageToReferenceTransformer.for_image(ds, **kw)(idx + 0.5).tolist()
    ref = np.array(out['ref'])
    out['r2p'] = S.ReferenceToPixelTransformer.for_image(ds, **kw)(ref).tolist()
    out['r2p_affine'] = S.ReferenceToPixelTransformer.for_image(ds, round_output=False, **kw).affine.tolist()
    out['r2i'] = S.ReferenceToImageTransformer.for_image(ds, drop_slice_coord=True, **kw)(ref).tolist()
    if src in ('tiled_full', 'tiled_perframe'):
        # the frame against the total pixel matrix of the same image
        out['tpm_ref'] = None
        nc = -(-c['C'] // c['tw'])
        a, b = divmod(c['frame'] - 1, nc)
        off = np.array([b * c['tw'], a * c['th']])
        tp = S.PixelToReferenceTransformer.for_image(ds, for_total_pixel_matrix=True)
        out['tpm_ref'] = tp(idx + off).tolist()
        out['p2p_frame_to_tpm'] = S.PixelToPixelTransformer.for_images(
            ds, ds, frame_number_from=c['frame'], for_total_pixel_matrix_to=True)(idx).tolist()
        out['i2i_frame_to_tpm'] = S.ImageToImageTransformer.for_images(
            ds, ds, frame_number_from=c['frame'], for_total_pixel_matrix_to=True)(idx + 0.5).tolist()
        out['off'] = off.tolist()
    return out



# ---------------------------------------------------------------------------
# image datasets: implementation side
# ---------------------------------------------------------------------------
def _catch2(fn):
    """catch + StopIteration (next() on an exhausted islice)"""
    try:
        return catch(fn)
    except StopIteration:
        return Err('StopIteration')


def _ds_build(d):
    from pydicom import Dataset
    ds = Dataset()
    ds.SOPClassUID = SOP[d['sop']]
    if d['for'] is not None:
        ds.FrameOfReferenceUID = d['for']
    ds.Rows, ds.Columns = d['rows'], d['cols']
    r = d['root']
    if r is not None:
        for k, kw in (('ipp', 'ImagePositionPatient'), ('iop', 'ImageOrientationPatient'), ('ps', 'PixelSpacing')):
            if r.get(k) is not None:
                setattr(ds, kw, _fl(r[k]))
        if r.get('ss') is not None:
            ds.SpacingBetweenSlices = _f(r['ss'])
    if d['ori_slide'] is not None:
        ds.ImageOrientationSlide = _fl(d['ori_slide'])

    def group(fg):
        it = Dataset()
        if fg['pm'] is not None:
            pm = Dataset()
            pm.PixelSpacing = _fl(fg['pm']['sp'])
            if fg['pm']['ss'] is not None:
                pm.SpacingBetweenSlices = _f(fg['pm']['ss'])
            it.PixelMeasuresSequence = [pm]
        if fg['ipp'] is not None:
            pp = Dataset()
            pp.ImagePositionPatient = _fl(fg['ipp'])
            it.PlanePositionSequence = [pp]
        if fg['iop'] is not None:
            po = Dataset()
            po.ImageOrientationPatient = _fl(fg['iop'])
            it.PlaneOrientationSequence = [po]
        if fg['slide'] is not None:
            ps = Dataset()
            (ps.XOffsetInSlideCoordinateSystem, ps.YOffsetInSlideCoordinateSystem,
             ps.ZOffsetInSlideCoordinateSystem) = _fl(fg['slide'])
            it.PlanePositionSlideSequence = [ps]
        return it
    if d['shared'] is not None:
        ds.SharedFunctionalGroupsSequence = [group(d['shared'])]
    if d['perframe'] is not None:
        ds.PerFrameFunctionalGroupsSequence = [group(fg) for fg in d['perframe']]
    if d['tiled_full']:
        ds.DimensionOrganizationType = 'TILED_FULL'
    if d['origin'] is not None:
        o = Dataset()
        o.XOffsetInSlideCoordinateSystem, o.YOffsetInSlideCoordinateSystem = _f(d['origin'][0]), _f(d['origin'][1])
        if d['origin'][2] is not None:
            o.ZOffsetInSlideCoordinateSystem = _f(d['origin'][2])
        ds.TotalPixelMatrixOriginSequence = [o]
    if d['sop'] == 'wsi':
        ds.TotalPixelMatrixRows, ds.TotalPixelMatrixColumns = d['R'], d['C']
        ds.TotalPixelMatrixFocalPlanes = d['focal']
        ds.NumberOfOpticalPaths = d['paths']
        ds.OpticalPathSequence = [Dataset() for _ in range(d['paths'])]
    ds.NumberOfFrames = _ds_nframes(d)
    return ds


def _run_ds_info(c):
    import numpy as np
    from highdicom import spatial as S
    ds = _ds_build(c['ds'])
    kw = {'frame_number': c['frame'], 'for_total_pixel_matrix': c['tpm']}
    idx = np.array(c['pts'], dtype=np.int64).reshape(len(c['pts']), 2)

    def info():
        p, o, s, ss = S._get_spatial_information(ds, **kw)
        return [[float(x) for x in p], [float(x) for x in o], [float(x) for x in s], None if ss is None else float(ss)]

    def cs():
        v = S.get_image_coordinate_system(ds)
        return None if v is None else v.value

    def p2r():
        t = S.PixelToReferenceTransformer.for_image(ds, **kw)
        return [t.affine.tolist(), t(idx).tolist()]
    return [_catch2(cs),
            [_catch2(info), _catch2(p2r),
             _catch2(lambda: S.ImageToReferenceTransformer.for_image(ds, **kw).affine.tolist()),
             _catch2(lambda: S.ReferenceToPixelTransformer.for_image(ds, round_output=False, **kw).affine.tolist()),
             _catch2(lambda: S.ReferenceToImageTransformer.for_image(ds, **kw).affine.tolist())]]


def _run_ds_pair(c):
    import numpy as np
    from highdicom import spatial as S
    a, b = _ds_build(c['a']), (_ds_build(c['b']) if c['b'] is not c['a'] else None)
    b = a if b is None else b
    kw = {'frame_number_from': c['fa'], 'frame_number_to': c['fb'],
          'for_total_pixel_matrix_from': c['ta'], 'for_total_pixel_matrix_to': c['tb']}
    idx = np.array(c['pts'], dtype=np.int64).reshape(len(c['pts']), 2)

    def p2p():
        t = S.PixelToPixelTransformer.for_images(a, b, round_output=False, **kw)
        return [t.affine.tolist(), t(idx).tolist()]
    return [_catch2(p2p), _catch2(lambda: S.ImageToImageTransformer.for_images(a, b, **kw).affine.tolist())]


def _run_ds_tile(c):
    import itertools as it
    from highdicom import spatial as S
    ds = _ds_build(c['ds'])

    def f():
        ch, fp, col, row, x, y, z = next(it.islice(S.iter_tiled_full_frame_data(ds), c['frame'] - 1, c['frame']))
        return [ch, fp, col, row, [x, y, z]]
    return _catch2(f)


def _run_geom_more(c):
    import numpy as np
    from highdicom.volume import VolumeGeometry
    pos, ori, sp = map(_pyarg, _args(c))
    nf, rows, cols = c['shape']

    def f():
        G = VolumeGeometry.from_attributes(
            image_position=pos, image_orientation=ori, rows=rows, columns=cols, pixel_spacing=sp,
            spacing_between_slices=_f(c['g']['ss']), number_of_frames=nf, coordinate_system='PATIENT')
        return [list(G.pixel_spacing), G.spacing_between_slices, G.voxel_volume, list(G.physical_extent),
                G.physical_volume, G.direction.tolist(), [v.tolist() for v in G.spacing_vectors()],
                [v.tolist() for v in G.unit_vectors()], G.inverse_affine.tolist()]
    return catch(f)


def _dt_rows(pts, dt):
    """python values an array of dtype dt is built from"""
    if ALL_DTYPES[dt][0] == 'KFloat':
        return [[_f(x) for x in p] for p in pts]
    return [[int(x) for x in p] for p in pts]


def _np_arr(rows, w, dt, layout):
    """(n, w) array of the given dtype holding rows, in the given memory layout"""
    import numpy as np
    a = np.array(rows, dtype=dt).reshape(len(rows), w)
    if layout == 'F':
        a = np.asfortranarray(a)
    elif layout == 'strided':
        b = np.zeros((2 * len(rows) + 1, 2 * w + 1), dtype=dt)
        b[1::2, 1::2] = a
        a = b[1::2, 1::2]
    elif layout == 'T':
        a = np.ascontiguousarray(a.T).T
    elif layout == 'reversed':
        a = np.ascontiguousarray(a[::-1, ::-1])[::-1, ::-1]
    elif layout == 'readonly':
        a = a.copy()
        a.setflags(write=False)
    assert a.shape == (len(rows), w) and a.dtype == np.dtype(dt)
    return a


def _run_ds_pair_dtype(c):
    from highdicom import spatial as S
    a = _ds_build(c['a'])
    b = a if c['b'] is c['a'] or c['b'] == c['a'] else _ds_build(c['b'])
    kw = {'frame_number_from': c['fa'], 'frame_number_to': c['fb'],
          'for_total_pixel_matrix_from': c['ta'], 'for_total_pixel_matrix_to': c['tb']}
    if not c['round']:
        kw['round_output'] = False            # True is the default: left to the default on purpose

    def p2p():
        t = S.PixelToPixelTransformer.for_images(a, b, **kw)
        return [t.affine.tolist(), t(_np_arr(_dt_rows(c['pts'], c['dt']), 2, c['dt'], c['layout'])).tolist()]
    return _catch2(p2p)


def _run_identities_dtype(c):
    """the same index values handed in as every integer dtype and in two layouts; float transformers in
    every layout"""
    import numpy as np
    from highdicom import spatial as S
    g, g2 = c['g'], c['g_to']
    a = (_fl(g['pos']), _fl(g['ori']), _fl(g['sp']))
    b = (_fl(g2['pos']), _fl(g2['ori']), _fl(g2['sp']))
    base = np.array(c['pts'], dtype=np.int64).reshape(len(c['pts']), 2)
    p2p, p2pf = S.PixelToPixelTransformer(*a, *b), S.PixelToPixelTransformer(*a, *b, round_output=False)
    p2r, r2p_to = S.PixelToReferenceTransformer(*a), S.ReferenceToPixelTransformer(*b)
    ref = p2r(base)
    out = {'via': r2p_to(ref)[:, :2].tolist(), 'ref': ref.tolist(), 'float': p2pf(base).tolist(), 'by_dtype': {}}
    for dt in INDEX_DTYPES:
        for lay in c['layouts']:
            arr = _np_arr(c['pts'], 2, dt, lay)
            before = arr.copy()
            r = p2p(arr)
            out['by_dtype'][f'{dt}/{lay}'] = [r.tolist(), r.dtype.kind, p2pf(arr).tolist(), p2r(arr).tolist(),
                                               bool((arr == before).all() and arr.dtype == before.dtype)]
    i2r, r2i = S.ImageToReferenceTransformer(*a), S.ReferenceToImageTransformer(*a)
    r2p, i2i = S.ReferenceToPixelTransformer(*a), S.ImageToImageTransformer(*a, *b)
    im = (base + 0.5).tolist()
    out['float_base'] = [i2r(np.array(im)).tolist(), r2i(ref).tolist(), r2p(ref).tolist(), i2i(np.array(im)).tolist()]
    out['by_layout'] = {}
    for lay in LAYOUTS:
        x2, x3 = _np_arr(im, 2, 'float64', lay), _np_arr(ref.tolist(), 3, 'float64', lay)
        out['by_layout'][lay] = [i2r(x2).tolist(), r2i(x3).tolist(), r2p(x3).tolist(), i2i(x2).tolist()]
    return out


def _run_routes(c):
    """every rounded way from a pixel of the source image to the pixel of the coplanar target image, all options
    left to their defaults"""
    import numpy as np
    from highdicom import spatial as S
    from highdicom.volume import VolumeGeometry
    g, g2 = c['g'], c['g_to']
    a = (_fl(g['pos']), _fl(g['ori']), _fl(g['sp']))
    b = (_fl(g2['pos']), _fl(g2['ori']), _fl(g2['sp']))
    idx = np.array(c['pts'], dtype=np.int64).reshape(len(c['pts']), 2)
    ref = S.PixelToReferenceTransformer(*a)(idx)
    G = VolumeGeometry.from_attributes(image_position=b[0], image_orientation=b[1], rows=c['shape'][0],
                                       columns=c['shape'][1], pixel_spacing=b[2], spacing_between_slices=1.0,
                                       number_of_frames=1, coordinate_system='PATIENT')
    return [S.PixelToPixelTransformer(*a, *b)(idx).tolist(),
            S.ReferenceToPixelTransformer(*b)(ref).tolist(),
            S.ReferenceToPixelTransformer(*b, round_output=False)(ref).tolist(),
            S.ReferenceToPixelTransformer(*b, drop_slice_index=True)(ref).tolist(),
            [[list(S.map_coordinate_into_pixel_matrix(x, *b))] for x in ref.tolist()],
            [G.map_reference_to_indices(ref, round_output=True).tolist(), G.map_reference_to_indices(ref).tolist()]]


def _edit_in_place(a, k, t, how):
    """a[:3, :3] *= k; a[:3, 3] += t  - on the array itself, in four spellings"""
    import numpy as np
    t = np.array(t, dtype=float)
    if how == 'inplace_ops':
        a[:3, :3] *= k
        a[:3, 3] += t
    elif how == 'ufunc_out':
        np.multiply(a[:3, :3], k, out=a[:3, :3])
        np.add(a[:3, 3], t, out=a[:3, 3])
    elif how == 'setitem':
        a[:3, :3] = a[:3, :3] * k
        a[:3, 3] = a[:3, 3] + t
    else:
        new = a.copy()
        new[:3, :3] *= k
        new[:3, 3] += t
        a.flat[:] = new.ravel()


def _history_build(c, keep):
    """(transformer, call) of a history case; numpy arrays handed to the constructor are remembered in keep"""
    import numpy as np
    from highdicom import spatial as S
    from highdicom.volume import VolumeGeometry
    cls, g = c['cls'], c['g']

    def A(xs):
        # caller-owned, mutable argument objects: lists, or numpy arrays where the class takes them (the four
        # classes built on _create_inv_affine_matrix_from_attributes answer TypeError to an ndarray)
        a = np.array(_fl(xs), dtype=float) if (c['np_args'] and cls in ('p2r', 'i2r', 'geom')) else _fl(xs)
        keep.append(a)
        return a
    isint = cls in ('p2r', 'p2p')
    w = 2 if cls in ('p2r', 'p2p', 'i2r', 'i2i') else 3

    def inp():
        x = _np_pts(c['pts'], w, isint)
        keep.append(x)
        return x
    call = lambda t: t(inp())      # noqa: E731
    if c['via'] == 'ds':
        ds = _ds_build(c['ds'])
        kw = {'frame_number': c['frame'], 'for_total_pixel_matrix': c['tpm']}
        pk = {'frame_number_from': c['frame'], 'for_total_pixel_matrix_to': True}
        t = {'p2r': lambda: S.PixelToReferenceTransformer.for_image(ds, **kw),
             'i2r': lambda: S.ImageToReferenceTransformer.for_image(ds, **kw),
             'r2p': lambda: S.ReferenceToPixelTransformer.for_image(ds, round_output=c['round'],
                                                                    drop_slice_index=c['drop'], **kw),
             'r2i': lambda: S.ReferenceToImageTransformer.for_image(ds, drop_slice_coord=c['drop'], **kw),
             'p2p': lambda: S.PixelToPixelTransformer.for_images(ds, ds, round_output=c['round'], **pk),
             'i2i': lambda: S.ImageToImageTransformer.for_images(ds, ds, **pk)}[cls]()
        return t, call
    a = (A(g['pos']), A(g['ori']), A(g['sp']))
    ss = _f(g['ss'])
    if cls in ('p2p', 'i2i'):
        g2 = c['g_to']
        b = (A(g2['pos']), A(g2['ori']), A(g2['sp']))
    if cls == 'geom':
        nf, rows, cols = c['shape']
        if c['via'] == 'attr':
            t = VolumeGeometry.from_attributes(image_position=a[0], image_orientation=a[1], rows=rows, columns=cols,
                                               pixel_spacing=a[2], spacing_between_slices=ss, number_of_frames=nf,
                                               coordinate_system='PATIENT')
        else:
            M = S.create_affine_matrix_from_attributes(a[0], a[1], a[2], ss, index_convention='DR', slices_first=True)
            keep.append(M)
            t = VolumeGeometry(M, (nf, rows, cols), coordinate_system='PATIENT')

        def call(t):      # noqa: F811
            return [t.map_indices_to_reference(inp()), t.map_reference_to_indices(inp())]
        return t, call
    t = {'p2r': lambda: S.PixelToReferenceTransformer(*a),
         'i2r': lambda: S.ImageToReferenceTransformer(*a),
         'r2p': lambda: S.ReferenceToPixelTransformer(*a, ss, round_output=c['round'], drop_slice_index=c['drop']),
         'r2i': lambda: S.ReferenceToImageTransformer(*a, ss, drop_slice_coord=c['drop']),
         'p2p': lambda: S.PixelToPixelTransformer(*a, *b, round_output=c['round']),
         'i2i': lambda: S.ImageToImageTransformer(*a, *b)}[cls]()
    return t, call


def _run_history(c):
    """[[affine, call result] of the fresh object, [[the caller's edited array | None, [affine, call result]] per step]]"""
    import numpy as np
    keep, outs = [], []

    def tolist(r):
        return [x.tolist() for x in r] if isinstance(r, list) else r.tolist()

    def build():
        return _history_build(c, keep)
    bt = _catch2(build)
    if isinstance(bt, Err):
        return bt
    t, call = bt

    def obs():
        r = catch(lambda: call(t))
        if not isinstance(r, Err):
            outs.append(r)
            r = tolist(r)
        return [t.affine.tolist(), r]
    first = obs()
    steps = []
    for op in c['ops']:
        mine = None
        if op['op'] == 'affine_edit':
            a = t.affine if (c['cls'] != 'geom' or op['how'] != 'flat') else t.get_affine(None)
            _edit_in_place(a, _f(op['k']), _fl(op['t']), op['how'])
            mine = a.tolist()
        elif op['op'] == 'output_edit':
            for r in outs:
                for x in (r if isinstance(r, list) else [r]):
                    if x.flags.writeable:
                        x[...] = 7
        elif op['op'] == 'input_edit':
            for x in keep:
                if isinstance(x, list):
                    x[:] = [3 * v + 1 for v in x]
                elif x.flags.writeable:
                    x *= 3
                    x += 1
        steps.append([mine, obs()])
    return [first, steps]


def _run_alias(c):
    """what else a caller can reach (oracle only): sibling objects, the accessors of a VolumeGeometry, the matrices
    the module-level functions return, the arrays handed to a call"""
    import numpy as np
    from highdicom import spatial as S
    from highdicom.volume import VolumeGeometry
    g, g2 = c['g'], c['g_to']
    k, tt, how = 2.0, [12.5, -3.0, 7.0], c['how']
    out = {}
    # 1. two objects built from the very same argument objects
    args = (np.array(_fl(g['pos'])), np.array(_fl(g['ori'])), np.array(_fl(g['sp'])))
    largs = (_fl(g['pos']), _fl(g['ori']), _fl(g['sp']))          # ndarray arguments are a TypeError for the inverse classes
    args2 = (_fl(g2['pos']), _fl(g2['ori']), _fl(g2['sp']))
    idx = np.array(c['pts'], dtype=np.int64)
    sib = {}
    for name, mk, x in (('P2R', lambda: S.PixelToReferenceTransformer(*args), idx),
                        ('I2R', lambda: S.ImageToReferenceTransformer(*args), idx + 0.5),
                        ('R2P', lambda: S.ReferenceToPixelTransformer(*largs), None),
                        ('R2I', lambda: S.ReferenceToImageTransformer(*largs), None),
                        ('P2P', lambda: S.PixelToPixelTransformer(*largs, *args2), idx),
                        ('I2I', lambda: S.ImageToImageTransformer(*largs, *args2), idx + 0.5)):
        t1, t2 = mk(), mk()
        if x is None:
            x = S.PixelToReferenceTransformer(*args)(idx)
        x0 = x.copy()
        before = [t2.affine.tolist(), t2(x).tolist()]
        r1 = t1(x)
        _edit_in_place(t1.affine, k, tt, how)
        r1[...] = 7                                   # the result of a call is the caller's
        sib[name] = [before, [t2.affine.tolist(), t2(x).tolist()], bool((x == x0).all()),
                     [t1.affine.tolist(), t1(x).tolist()]]
    out['siblings'] = sib
    out['args_untouched'] = bool(all((p == np.array(_fl(q))).all() for p, q in zip(args, (g['pos'], g['ori'], g['sp']))) and
                                 list(largs) == [_fl(g['pos']), _fl(g['ori']), _fl(g['sp'])] and
                                 list(args2) == [_fl(g2['pos']), _fl(g2['ori']), _fl(g2['sp'])])
    # 2. every array a VolumeGeometry hands out
    nf, rows, cols = c['shape']
    G = VolumeGeometry.from_attributes(image_position=args[0], image_orientation=args[1], rows=rows, columns=cols,
                                       pixel_spacing=args[2], spacing_between_slices=_f(g['ss']), number_of_frames=nf,
                                       coordinate_system='PATIENT')

    def gobs():
        return [G.affine.tolist(), G.inverse_affine.tolist(), G.direction.tolist(), list(G.position), list(G.spacing),
                list(G.direction_cosines), [v.tolist() for v in G.spacing_vectors()],
                [v.tolist() for v in G.unit_vectors()], G.get_affine(c['po']).tolist()]
    gfirst = gobs()
    handed = [('affine', G.affine), ('get_affine(None)', G.get_affine(None)), ('get_affine(po)', G.get_affine(c['po'])),
              ('inverse_affine', G.inverse_affine), ('direction', G.direction)] + \
        [(f'spacing_vectors()[{i}]', v) for i, v in enumerate(G.spacing_vectors())] + \
        [(f'unit_vectors()[{i}]', v) for i, v in enumerate(G.unit_vectors())]
    glater = []
    for name, arr in handed:
        if arr.ndim == 2 and arr.shape == (4, 4):
            _edit_in_place(arr, k, tt, how)
        else:
            arr *= k
            arr += 1.0
        glater.append([name, gobs()])
    out['geom'] = [gfirst, glater]
    # 2b. the matrix handed to the constructor stays the caller's
    M = S.create_affine_matrix_from_attributes(*args, _f(g['ss']), index_convention='DR', slices_first=True)
    G2 = VolumeGeometry(M, (nf, rows, cols), coordinate_system='PATIENT')
    m0, a0 = M.tolist(), G2.affine.tolist()
    _edit_in_place(M, k, tt, how)
    out['ctor_matrix'] = [m0, a0, G2.affine.tolist(), G2.map_indices_to_reference(np.array([[1.0, 2.0, 3.0]])).tolist()]
    # 3. the matrices returned by the module-level functions are fresh on every call
    fns = {'create_affine_matrix_from_attributes': lambda: S.create_affine_matrix_from_attributes(*args, _f(g['ss'])),
           '_create_inv_affine_matrix_from_attributes': lambda: S._create_inv_affine_matrix_from_attributes(*largs, _f(g['ss'])),
           'create_rotation_matrix': lambda: S.create_rotation_matrix(args[1], pixel_spacing=args[2]),
           'rotation_for_patient_orientation': lambda: S.rotation_for_patient_orientation(c['po'], 1.5),
           'create_affine_matrix_from_components': lambda: S.create_affine_matrix_from_components(
               spacing=args[2].tolist() + [1.0], position=args[0], patient_orientation=c['po']),
           'get_normal_vector': lambda: S.get_normal_vector(args[1])}
    fresh = {}
    for name, f in fns.items():
        m = f()
        first = m.tolist()
        m *= k
        m += 1.0
        fresh[name] = [first, f().tolist()]
    out['functions'] = fresh
    out['args_untouched2'] = bool(all((p == np.array(_fl(q))).all() for p, q in zip(args, (g['pos'], g['ori'], g['sp']))))
    return out


def _vol_channel_dict(c):
    from highdicom.volume import ChannelDescriptor, RGB_COLOR_CHANNEL_DESCRIPTOR
    ch = {}
    for key, n in c['chan']:
        if key == 'rgb':
            ch[RGB_COLOR_CHANNEL_DESCRIPTOR] = ['R', 'G', 'B', 'R', 'G', 'B'][:n]
        elif key == 'custom_int':
            ch[ChannelDescriptor('level', is_custom=True, value_type=int)] = list(range(n))
        elif key == 'custom_str':
            ch[ChannelDescriptor('stain', is_custom=True, value_type=str)] = [f's{i}' for i in range(n)]
        elif key == 'OpticalPathIdentifier':
            ch[key] = [f'p{i}' for i in range(n)]
        elif key == 'DiffusionBValue':
            ch[key] = [float(100 * i) for i in range(n)]
        else:                                   # SegmentNumber, AcquisitionNumber: integer valued attributes
            ch[key] = list(range(1, n + 1))
    return ch or None


def _vol_array(c):
    import numpy as np
    sh = tuple(c['ashape'])
    if c['alayout'] == 'F':
        return np.zeros(sh, dtype=c['adt'], order='F')
    if c['alayout'] == 'moveaxis' and len(sh) > 3:      # stored channel-first, viewed spatial-first
        return np.moveaxis(np.zeros(sh[3:] + sh[:3], dtype=c['adt']), list(range(len(sh) - 3)),
                           list(range(3, len(sh))))
    return np.zeros(sh, dtype=c['adt'])


def _run_vol(c):
    import numpy as np
    from highdicom.volume import Volume, VolumeGeometry
    k = c['kind']

    def build():
        arr = _vol_array(c)
        assert list(arr.shape) == list(c['ashape'])
        ch = _vol_channel_dict(c)
        if k == 'vol_attr':
            g = c['g']
            return Volume.from_attributes(
                array=arr, image_position=_fl(g['pos']), image_orientation=_fl(g['ori']), pixel_spacing=_fl(g['sp']),
                spacing_between_slices=_f(g['ss']), coordinate_system='PATIENT', channels=ch)
        cs = 'PATIENT' if c['patient'] else 'SLIDE'
        if k == 'vol_comp':
            return Volume.from_components(arr, coordinate_system=cs, channels=ch, **_comp_kwargs(c))
        G = VolumeGeometry.from_components(c['shape'], coordinate_system=cs, **_comp_kwargs(c))
        return G.with_array(arr, channels=ch)

    def obs():
        V = build()
        G2 = V.get_geometry()
        probes = []
        for p in c['probes']:
            x = V.map_indices_to_reference(np.array([_fl(p)]))
            probes.append(catch(lambda: V.map_reference_to_indices(x, check_bounds=True).tolist()))
        return [_geom_obs(V, c['to']), list(V.spatial_shape), list(V.channel_shape), list(V.physical_extent),
                list(V.center_indices), [G2.affine.tolist(), list(G2.spatial_shape)], probes]
    return catch(obs)


def _run_malformed(c):
    import numpy as np
    from highdicom import spatial as S
    from highdicom.volume import VolumeGeometry
    m, g = c['m'], c['g']
    if m in ('args', 'singular', 'width', 'dtype', 'empty_drop', 'offplane_drop', 'pair_args'):
        return run_impl(_sub_case(c))
    if m in ('conv', 'hand', 'affine_LU'):
        conv = c.get('conv', 'RD')
        hand = c.get('hand', 'RIGHT_HANDED')
        sub = c.get('sub', 'affine_attr')
        if sub == 'rotation':
            return catch(lambda: S.create_rotation_matrix(_fl(g['ori']), conv, False, hand, _fl(g['sp']), 1.0).tolist())
        if sub == 'normal':
            return catch(lambda: S.get_normal_vector(_fl(g['ori']), conv, hand).tolist())
        return catch(lambda: S.create_affine_matrix_from_attributes(
            _fl(g['pos']), _fl(g['ori']), _fl(g['sp']), 1.0, conv, False, hand).tolist())
    if m == 'po':
        sub = c['sub']
        if sub == 'rot_po':
            return catch(lambda: S.rotation_for_patient_orientation(c['po'], 1.0).tolist())
        if sub == 'int_spacing':
            return catch(lambda: S.rotation_for_patient_orientation('LPH', 2).tolist())
        if sub == 'affine_comp':
            return catch(lambda: S.create_affine_matrix_from_components(
                spacing=1.0, position=[0.0, 0.0, 0.0], patient_orientation=c['po']).tolist())
        A = np.eye(4)
        f, t = (c['po'], 'LPH') if sub == 'to_convention_from' else ('LPH', c['po'])
        return catch(lambda: S._transform_affine_to_convention(A, (2, 3, 4), f, t).tolist())
    if m == 'comp':
        kw, _ = _bad_comp(c)
        return catch(lambda: S.create_affine_matrix_from_components(**kw).tolist())
    if m == 'tam_perm':
        return run_impl(c['tam'])
    if m == 'rot_sp':
        return run_impl(c['rot'])[0]
    if m == 'geom':
        if c['bad'] == 'po_slide':
            return catch(lambda: VolumeGeometry.from_components(
                (2, 3, 4), spacing=1.0, coordinate_system='SLIDE', position=[0.0, 0.0, 0.0],
                patient_orientation='LPH').affine.tolist())
        if c['bad'] == 'nonorth_affine':
            A = np.eye(4)
            A[0, 1] = 0.25
            return catch(lambda: VolumeGeometry(A, (2, 3, 4), coordinate_system='PATIENT').affine.tolist())
        return catch(lambda: VolumeGeometry(np.eye(4), (2, 3), coordinate_system='PATIENT').affine.tolist())
    raise ValueError(m)


def _bad_comp(c):
    """kwargs for create_affine_matrix_from_components violating one guard; + equivalent model case"""
    cc = dict(c['comp'])
    bad = c['bad']
    cc['shape'] = list(cc['shape'])
    if bad == 'both_dir':
        cc['po'], cc['direction'], cc['nested'] = 'LPH', _S([1, 0, 0, 0, 1, 0, 0, 0, 1]), False
    elif bad == 'no_dir':
        cc['po'], cc['direction'] = None, None
    elif bad == 'both_pos':
        cc['position'], cc['center'] = ['0', '0', '0'], ['1', '1', '1']
    elif bad == 'no_pos':
        cc['position'], cc['center'] = None, None
    elif bad == 'sp_len':
        cc['sp'] = {'seq': ['1', '2']}
    elif bad == 'sp_nonpos':
        cc['sp'] = {'seq': ['1', '0', '2']}
    elif bad == 'sp_scalar_nonpos':
        cc['sp'] = {'float': '0'}
    elif bad == 'dir_shape':
        cc['po'], cc['direction'], cc['nested'] = None, _S([1, 0, 0, 0, 1, 0, 0, 0]), False
    elif bad == 'dir_nonorth':
        cc['po'], cc['direction'], cc['nested'] = None, _S([1, F(1, 100), 0, 0, 1, 0, 0, 0, 1]), False
    elif bad == 'dir_nonunit':
        cc['po'], cc['direction'], cc['nested'] = None, _S([2, 0, 0, 0, 1, 0, 0, 0, 1]), False
    elif bad == 'pos_len':
        cc['position'], cc['center'] = ['0', '0'], None
    elif bad == 'no_shape':
        cc['position'], cc['center'], cc['shape'] = None, ['0', '0', '0'], None
    elif bad == 'shape_len':
        cc['position'], cc['center'], cc['shape'] = None, ['0', '0', '0'], [2, 3]
    elif bad == 'center_len':
        cc['position'], cc['center'] = None, ['0', '0', '0', '0']
    kw = _comp_kwargs(cc)
    if cc['shape'] is not None:
        kw['spatial_shape'] = cc['shape']
    return kw, cc


def _sub_case(c):
    """the ordinary case a malformed case reduces to"""
    m, g = c['m'], c['g']
    sub = c['sub']
    d = {'kind': sub, 'g': dict(g), 'args': c.get('args', {})}
    if m == 'singular':
        d['g']['ss'] = '0'
    pts2, pts3 = [[1, 2], [3, 4]], [g['pos'], g['pos']]
    if sub in ('p2r', 'p2p'):
        d.update(w=2, isint=True, pts=pts2)
    if sub in ('i2r', 'i2i'):
        d.update(w=2, pts=[['1/2', '3/2']])
    if sub in ('r2p', 'r2i'):
        d.update(w=3, pts=pts3, round=True, drop=False)
    if sub in ('p2p', 'i2i'):
        d['g_to'] = c.get('g_to', dict(g))
        d['args_to'] = c.get('args_to', {})
        d['round'] = False
    if sub == 'map_pixel':
        d['idx'] = ['1', '2']
    if sub == 'map_coord':
        d['x'] = g['pos']
    if sub == 'affine_attr':
        d.update(conv='RD', sf=False, hand='RIGHT_HANDED')
    if m == 'width':
        if d['w'] == 2:
            d.update(w=3, pts=[[1, 2, 3]] if sub in ('p2r', 'p2p') else [['1', '2', '3']])
        else:
            d.update(w=2, pts=[['1', '2']])
    if m == 'dtype':
        d.update(isint=False, pts=[['1', '2']])
    if m == 'empty_drop':
        d.update(pts=[], drop=c['drop'])
    if m == 'offplane_drop':
        d.update(pts=c['pts'], drop=True)
    return d


# ---------------------------------------------------------------------------
# model term renderer
# ---------------------------------------------------------------------------
def ql(xs):
    return '[' + '; '.join(qlit(F(x)) for x in xs) + ']'


def _arg(a):
    return f"(ASeq {ql(a['seq'])})" if 'seq' in a else f"(AScalar {qlit(F(a['scalar']))})"


def _sarg(a):
    if 'float' in a:
        return f"(SFloat {qlit(F(a['float']))})"
    if 'int' in a:
        return f"(SInt {zlit(a['int'])})"
    return f"(SSeq {ql(a['seq'])})"


def _b(x):
    return 'true' if x else 'false'


def _s(x):
    return common.coq_string(x)


def _qll(pts):
    return '[' + '; '.join(ql(p) for p in pts) + ']'


def _oql(x):
    return 'None' if x is None else f'(Some {ql(x)})'


def _obl(x):
    return 'None' if x is None else '(Some [' + '; '.join(_b(v) for v in x) + '])'


def _ozl(x):
    return 'None' if x is None else f'(Some {zl(x)})'


def _os(x):
    return 'None' if x is None else f'(Some {_s(x)})'


def _comp_term(c, head):
    return (f"{head} {_sarg(c['sp'])} {_oql(c.get('position'))} {_oql(c.get('center'))} "
            f"{_oql(c.get('direction'))} {_os(c.get('po'))}")


def _oarg(x):
    return 'None' if x is None else f'(Some (ASeq {ql(x)}))'


def _oq(x):
    return 'None' if x is None else f'(Some {qlit(F(x))})'


def _fg_term(fg):
    pm = 'None' if fg['pm'] is None else f"(Some (PMeas (ASeq {ql(fg['pm']['sp'])}) {_oq(fg['pm']['ss'])}))"
    sl = 'None' if fg['slide'] is None else '(Some (' + ', '.join(qlit(F(x)) for x in fg['slide']) + '))'
    return f"(FGroup {pm} {_oarg(fg['ipp'])} {_oarg(fg['iop'])} {sl})"


def _ds_term(d):
    r = d['root'] or {}
    sh = 'None' if d['shared'] is None else f"(Some {_fg_term(d['shared'])})"
    pf = 'None' if d['perframe'] is None else '(Some [' + '; '.join(_fg_term(fg) for fg in d['perframe']) + '])'
    og = 'None' if d['origin'] is None else \
        f"(Some ({qlit(F(d['origin'][0]))}, {qlit(F(d['origin'][1]))}, {_oq(d['origin'][2])}))"
    return (f"(DSet {_os(d['for'])} {_b(d['sop'] != 'ct')} {_b(d['sop'] == 'wsi')} {_oql(d['ori_slide'])} false "
            f"{_oarg(r.get('ipp'))} {_oarg(r.get('iop'))} {_oarg(r.get('ps'))} {_oq(r.get('ss'))} {sh} {pf} "
            f"{_b(d['tiled_full'])} {og} {zlit(d['rows'])} {zlit(d['cols'])} {zlit(d['R'])} {zlit(d['C'])} "
            f"{zlit(d['focal'])} {zlit(d['paths'])})")


def _oz(x):
    return 'None' if x is None else f'(Some {zlit(x)})'


def _dt_term(dt):
    kind, bits = ALL_DTYPES[dt]
    return f'(DT {kind} {bits})'



def coq_term(c):
    k = c['kind']
    if k == 'malformed':
        return _malformed_term(c)
    if k in ('identities', 'for_image'):
        return None
    if k == 'ds_info':
        return (f"(let d := {_ds_term(c['ds'])} in VL [run_coordinate_system d; "
                f"run_for_image d {_oz(c['frame'])} {_b(c['tpm'])} {_qll(c['pts'])}])")
    if k == 'ds_pair':
        return (f"(run_for_images {_ds_term(c['a'])} {_ds_term(c['b'])} {_oz(c['fa'])} {_oz(c['fb'])} "
                f"{_b(c['ta'])} {_b(c['tb'])} {_qll(c['pts'])})")
    if k == 'ds_tile':
        return f"(run_tiled_full_frame {_ds_term(c['ds'])} {zlit(c['frame'])})"
    if k == 'identities_dtype':
        return None                      # dtype independence / memory layout on the real transformers: oracle only
    if k == 'ds_pair_dtype':
        return (f"(run_for_images_dt {_ds_term(c['a'])} {_ds_term(c['b'])} {_oz(c['fa'])} {_oz(c['fb'])} "
                f"{_b(c['ta'])} {_b(c['tb'])} {_b(c['round'])} {_dt_term(c['dt'])} {_qll(c['pts'])})")
    if k in ('p2r_dtype', 'p2p_dtype'):
        a = ' '.join(_arg(x) for x in _args(c))
        if k == 'p2r_dtype':
            return f"(run_p2r_dt {a} 2 {_dt_term(c['dt'])} {_qll(c['pts'])})"
        b = ' '.join(_arg(x) for x in _args(c, '_to'))
        return f"(run_p2p_dt {a} {b} {_b(c['round'])} 2 {_dt_term(c['dt'])} {_qll(c['pts'])})"
    if k in ('vol_comp', 'vol_attr', 'vol_with_array'):
        sh, ch = zl(c['ashape']), zl([n for _, n in c['chan']])
        if k == 'vol_attr':
            a = ' '.join(_arg(x) for x in _args(c))
            return f"(run_vol_attr {sh} {ch} {a} {qlit(F(c['g']['ss']))} {_s(c['to'])} {_qll(c['probes'])})"
        comp = (f"{_sarg(c['sp'])} {_oql(c.get('position'))} {_oql(c.get('center'))} {_oql(c.get('direction'))} "
                f"{_os(c.get('po'))} {_b(c['patient'])} {_s(c['to'])} {_qll(c['probes'])}")
        if k == 'vol_comp':
            return f"(run_vol_comp {sh} {ch} {comp})"
        return f"(run_vol_with_array {zl(c['shape'])} {sh} {ch} {comp})"
    if k in BASE_KIND:
        return coq_term(dict(c, kind=BASE_KIND[k]))
    if k == 'ds_pair_tie':
        return (f"(run_for_images_dt {_ds_term(c['a'])} {_ds_term(c['b'])} None None true true {_b(c['round'])} "
                f"(DT KSigned 64) {_qll(c['pts'])})")
    if k == 'routes':
        a = ' '.join(_arg(x) for x in _args(c))
        b = ' '.join(_arg(x) for x in _args(c, '_to'))
        return f"(run_round_routes {a} {b} {zlit(c['shape'][0])} {zlit(c['shape'][1])} {_qll(c['pts'])})"
    if k == 'history':
        return _history_term(c)
    if k == 'alias':
        return None                      # aliasing between objects / accessor arrays: outside the model, oracle only
    g = c.get('g')
    if k == 'rotation':
        return (f"(VL [run_rotation {ql(g['ori'])} {_s(c['conv'])} {_b(c['sf'])} {_s(c['hand'])} {_arg(c['sp'])} "
                f"{qlit(F(c['ss']))}; run_normal {ql(g['ori'])} {_s(c['conv'])} {_s(c['hand'])}])")
    if k in ('affine_attr', 'inv_affine', 'p2r', 'i2r', 'r2p', 'r2i', 'p2p', 'i2i', 'map_pixel', 'map_coord',
             'geom_attr', 'geom_maps', 'geom_more'):
        a = ' '.join(_arg(x) for x in _args(c))
        ss = qlit(F(g['ss']))
        if k == 'affine_attr':
            return f"(run_affine_attr {a} {ss} {_s(c['conv'])} {_b(c['sf'])} {_s(c['hand'])})"
        if k == 'inv_affine':
            return f"(run_inv_affine {a} {ss})"
        if k == 'p2r':
            return f"(run_p2r {a} {c['w']} {_b(c['isint'])} {_qll(c['pts'])})"
        if k == 'i2r':
            return f"(run_i2r {a} {c['w']} {_qll(c['pts'])})"
        if k == 'r2p':
            return f"(run_r2p {a} {ss} {_b(c['round'])} {_b(c['drop'])} {c['w']} {_qll(c['pts'])})"
        if k == 'r2i':
            return f"(run_r2i {a} {ss} {_b(c['drop'])} {c['w']} {_qll(c['pts'])})"
        if k in ('p2p', 'i2i'):
            b = ' '.join(_arg(x) for x in _args(c, '_to'))
            if k == 'p2p':
                return f"(run_p2p {a} {b} {_b(c['round'])} {c['w']} {_b(c['isint'])} {_qll(c['pts'])})"
            return f"(run_i2i {a} {b} {c['w']} {_qll(c['pts'])})"
        if k == 'map_pixel':
            return f"(run_map_pixel {qlit(F(c['idx'][0]))} {qlit(F(c['idx'][1]))} {a})"
        if k == 'map_coord':
            x = ' '.join(qlit(F(v)) for v in c['x'])
            return f"(run_map_coord {x} {a} {ss})"
        nf, rows, cols = c['shape']
        if k == 'geom_more':
            return f"(run_geom_more {a} {ss} {nf} {rows} {cols})"
        if k == 'geom_attr':
            return f"(run_geom_attr {a} {ss} {nf} {rows} {cols} {_s(c['to'])})"
        return f"(run_geom_maps {a} {ss} {nf} {rows} {cols} {_qll(c['pts'])})"
    if k == 'coplanar':
        return f"(run_coplanar {ql(g['pos'])} {ql(g['ori'])} {ql(c['g_to']['pos'])} {ql(c['g_to']['ori'])})"
    if k == 'rot_po':
        return f"(run_rot_po {_s(c['po'])} {_sarg(c['sp'])})"
    if k == 'po_roundtrip':
        return f"(run_po_roundtrip {_s(c['po'])} {_sarg(c['sp'])})"
    if k == 'closest':
        return f"(run_closest {ql(c['M'])})"
    if k == 'affine_comp':
        return '(' + _comp_term(c, 'run_affine_comp') + f" {_ozl(c.get('shape'))})"
    if k == 'geom_comp':
        return (f"(run_geom_comp {zl(c['shape'])} {_sarg(c['sp'])} {_oql(c.get('position'))} {_oql(c.get('center'))} "
                f"{_oql(c.get('direction'))} {_os(c.get('po'))} {_b(c['patient'])} {_s(c['to'])})")
    if k == 'tam':
        return (f"(run_tam {ql(c['A'])} {zl(c['shape'])} {_obl(c['fi'])} {_obl(c['fr'])} "
                f"{_ozl(c['pi'])} {_ozl(c['pr'])})")
    if k == 'to_convention':
        return f"(run_to_convention {ql(c['A'])} {zl(c['shape'])} {_s(c['from'])} {_s(c['to'])})"
    raise ValueError(k)


def _history_term(c):
    cls, g = c['cls'], c['g']
    pts = _qll(c['pts'])
    call = {'p2r': f'(hcall_p2r {pts})', 'i2r': f'(hcall_i2r {pts})',
            'r2p': f"(hcall_r2p {_b(c.get('round', True))} {_b(c.get('drop', False))} {pts})",
            'r2i': f"(hcall_r2i {_b(c.get('drop', False))} {pts})",
            'p2p': f"(hcall_p2p {_b(c.get('round', True))} {pts})", 'i2i': f'(hcall_i2i {pts})',
            'geom': f'(hcall_geom {pts})'}[cls]
    if c['via'] == 'ds':
        d = _ds_term(c['ds'])
        if cls in ('p2p', 'i2i'):
            mk = f"(for_images_{cls} {d} {d} {_oz(c['frame'])} None false true)"
        else:
            mk = f"(for_image_{cls} {d} {_oz(c['frame'])} {_b(c['tpm'])})"
    else:
        a = ' '.join(_arg(x) for x in _args(c))
        ss = qlit(F(g['ss']))
        if cls in ('p2p', 'i2i'):
            mk = f"({cls}_make {a} {' '.join(_arg(x) for x in _args(c, '_to'))})"
        elif cls in ('r2p', 'r2i'):
            mk = f'({cls}_make {a} {ss})'
        elif cls == 'geom':
            nf, rows, cols = c['shape']
            mk = f'(geom_aff {a} {ss} {nf} {rows} {cols})'
        else:
            mk = f'({cls}_make {a})'
    ops = []
    for op in c['ops']:
        if op['op'] == 'affine_edit':
            ops.append(f"HAffineEdit {qlit(F(op['k']))} (V3 {' '.join(qlit(F(x)) for x in op['t'])})")
        else:
            ops.append({'output_edit': 'HOutputEdit', 'input_edit': 'HInputEdit', 'call': 'HCall'}[op['op']])
    return f"(run_history {mk} {call} [{'; '.join(ops)}])"


def _malformed_term(c):
    m, g = c['m'], c['g']
    if m in ('args', 'singular', 'width', 'dtype', 'empty_drop', 'offplane_drop', 'pair_args'):
        return coq_term(_sub_case(c))
    if m in ('conv', 'hand', 'affine_LU'):
        conv, hand, sub = c.get('conv', 'RD'), c.get('hand', 'RIGHT_HANDED'), c.get('sub', 'affine_attr')
        if sub == 'rotation':
            return f"(run_rotation {ql(g['ori'])} {_s(conv)} false {_s(hand)} (ASeq {ql(g['sp'])}) (1 # 1))"
        if sub == 'normal':
            return f"(run_normal {ql(g['ori'])} {_s(conv)} {_s(hand)})"
        return (f"(run_affine_attr (ASeq {ql(g['pos'])}) (ASeq {ql(g['ori'])}) (ASeq {ql(g['sp'])}) (1 # 1) "
                f"{_s(conv)} false {_s(hand)})")
    if m == 'po':
        sub = c['sub']
        if sub == 'rot_po':
            return f"(run_rot_po {_s(c['po'])} (SFloat (1 # 1)))"
        if sub == 'int_spacing':
            return '(run_rot_po "LPH" (SInt 2))'
        if sub == 'affine_comp':
            return f"(run_affine_comp (SFloat (1 # 1)) (Some {ql([0, 0, 0])}) None None (Some {_s(c['po'])}) None)"
        f, t = (c['po'], 'LPH') if sub == 'to_convention_from' else ('LPH', c['po'])
        return f"(run_to_convention {ql([1, 0, 0, 0, 0, 1, 0, 0, 0, 0, 1, 0])} [2;3;4] {_s(f)} {_s(t)})"
    if m == 'comp':
        _, cc = _bad_comp(c)
        return '(' + _comp_term(cc, 'run_affine_comp') + f" {_ozl(cc.get('shape'))})"
    if m == 'tam_perm':
        return coq_term(c['tam'])
    if m == 'rot_sp':
        r = c['rot']
        return (f"(run_rotation {ql(r['g']['ori'])} {_s(r['conv'])} {_b(r['sf'])} {_s(r['hand'])} {_arg(r['sp'])} "
                f"{qlit(F(r['ss']))})")
    if m == 'geom':
        if c['bad'] == 'po_slide':
            return f'(run_geom_comp [2;3;4] (SFloat (1 # 1)) (Some {ql([0, 0, 0])}) None None (Some "LPH") false "LPH")'
        return None
    raise ValueError(m)


# ---------------------------------------------------------------------------
# independent oracle (exact rationals, first principles; never the Coq model)
# ---------------------------------------------------------------------------
def _close(a, b, scale=1.0):
    return abs(float(a) - float(b)) <= 1e-9 * (scale + abs(float(b)))


def _allclose(A, B, scale=1.0):
    if isinstance(A, (list, tuple)) != isinstance(B, (list, tuple)):
        return False
    if isinstance(A, (list, tuple)):
        return len(A) == len(B) and all(_allclose(x, y, scale) for x, y in zip(A, B))
    return _close(A, B, scale)


def _dotf(a, b):
    return sum(x * y for x, y in zip(a, b))


def _frame(g):
    o = [F(x) for x in g['ori']]
    rv, cv = o[:3], o[3:]
    return [F(x) for x in g['pos']], rv, cv, _cross(rv, cv), F(g['sp'][0]), F(g['sp'][1]), F(g['ss'])


def _proj(g, x, ss=None):
    """continuous pixel index (c, r, k) of a reference point, by projection on the unit axes"""
    pos, rv, cv, n, sr, sc, s = _frame(g)
    s = s if ss is None else ss
    d = [F(a) - b for a, b in zip(x, pos)]
    return [_dotf(d, rv) / sc, _dotf(d, cv) / sr, _dotf(d, n) / s]


def _rot_expected(ori, conv, sf, hand, sr, sc, ss):
    rv, cv = ori[:3], ori[3:]
    vec = {'R': rv, 'L': [-x for x in rv], 'D': cv, 'U': [-x for x in cv]}
    spc = {'R': sc, 'L': sc, 'D': sr, 'U': sr}
    a, b = vec[conv[0]], vec[conv[1]]
    n = _cross(a, b) if hand == 'RIGHT_HANDED' else _cross(b, a)
    cols = [[x * spc[conv[0]] for x in a], [x * spc[conv[1]] for x in b]]
    nn = [x * ss for x in n]
    cols = [nn] + cols if sf else cols + [nn]
    return cols, n


def _cols_of(M):
    return [[M[i][j] for i in range(3)] for j in range(3)]


def _det(c):
    return _dotf(c[0], _cross(c[1], c[2]))


def _check_shape(cols, spacings, hand, what):
    """the property: orthogonal columns, lengths = spacings, handedness"""
    scale = 1 + max(abs(float(x)) for c in cols for x in c) ** 2
    for i in range(3):
        for j in range(i + 1, 3):
            if abs(float(_dotf(cols[i], cols[j]))) > 1e-9 * scale:
                return f'{what}: columns {i},{j} not orthogonal'
        if not _close(_dotf(cols[i], cols[i]), spacings[i] ** 2, scale):
            return f'{what}: column {i} has squared length {float(_dotf(cols[i], cols[i]))}, spacing {spacings[i]}'
    if hand is not None:
        d = float(_det(cols))
        if (d > 0) != (hand == 'RIGHT_HANDED'):
            return f'{what}: determinant {d} does not have the handedness {hand}'
    return None


def _valid_conv(s):
    return len(s) == 2 and all(ch in 'RLDU' for ch in s) and (s[0] in 'RL') != (s[1] in 'RL')


def _valid_po(s):
    return len(s) == 3 and all(ch in 'LRPAHF' for ch in s) and \
        sorted({'L': 0, 'R': 0, 'P': 1, 'A': 1, 'H': 2, 'F': 2}[ch] for ch in s) == [0, 1, 2]


LETTER_VEC = {'L': (1, 0, 0), 'R': (-1, 0, 0), 'P': (0, 1, 0), 'A': (0, -1, 0), 'H': (0, 0, 1), 'F': (0, 0, -1)}
AXIS = {'L': 0, 'R': 0, 'P': 1, 'A': 1, 'H': 2, 'F': 2}


def _conv_expected(rows, frm, to):
    """rows of the 3x4 affine re-expressed in convention `to`"""
    out = []
    for d in to:
        j = next(i for i, e in enumerate(frm) if AXIS[e] == AXIS[d])
        s = 1 if frm[j] == d else -1
        out.append([s * x for x in rows[j]])
    return out


def _affine_rows(cols, t):
    return [[cols[0][i], cols[1][i], cols[2][i], t[i]] for i in range(3)] + [[0, 0, 0, 1]]


def _is_err(x, kind=None):
    return isinstance(x, Err) and (kind is None or x.kind == kind)


def _sarg3(a):
    if 'float' in a:
        return [F(a['float'])] * 3
    if 'int' in a:
        return [F(a['int'])] * 3
    return [F(x) for x in a['seq']]


def _comp_expected(c):
    s = _sarg3(c['sp'])
    if c.get('po') is not None:
        D = [[F(v) for v in LETTER_VEC[ch]] for ch in c['po']]          # columns
    else:
        d = [F(x) for x in c['direction']]
        D = [[d[3 * i + j] for i in range(3)] for j in range(3)]
    cols = [[x * s[j] for x in D[j]] for j in range(3)]
    if c.get('position') is not None:
        t = [F(x) for x in c['position']]
    else:
        ci = [F(n - 1, 2) for n in c['shape']]
        t = [F(c['center'][i]) - sum(cols[j][i] * ci[j] for j in range(3)) for i in range(3)]
    return cols, t, s


def _oracle_geom(c, out, cols, t, spacings):
    if _is_err(out):
        return f'valid geometry refused: {out}'
    A, position, spacing, dc, center, hand, conv = out
    if not _allclose(A, _affine_rows(cols, t), 1e3):
        return f'affine {A} differs from the expected {_affine_rows(cols, t)}'
    m = _check_shape(_cols_of(A), spacings, None, 'geometry affine')
    if m:
        return m
    if not _allclose(position, t, 1e3):
        return f'position accessor {position} != origin {t}'
    if not _allclose(spacing, spacings):
        return f'spacing accessor {spacing} != {spacings}'
    want_dc = [x / spacings[2] for x in cols[2]] + [x / spacings[1] for x in cols[1]]
    if not _allclose(dc, want_dc):
        return f'direction_cosines {dc} != {want_dc}'
    ci = [F(n - 1, 2) for n in c['shape']]
    want_c = [t[i] + sum(cols[j][i] * ci[j] for j in range(3)) for i in range(3)]
    if not _allclose(center, want_c, 1e3):
        return f'center_position {center} != {want_c}'
    if (hand == 'RIGHT_HANDED') != (_det(cols) > 0):
        return f'handedness {hand} but determinant {float(_det(cols))}'
    if _is_err(conv):
        return f'get_affine({c["to"]}) refused: {conv}'
    want = _conv_expected(_affine_rows(cols, t)[:3], 'LPH', c['to']) + [[0, 0, 0, 1]]
    if not _allclose(conv, want, 1e3):
        return f'get_affine({c["to"]}) = {conv}, expected {want}'
    return None


# ---- datasets: expectations from first principles (never the Coq model) ----
DS_BAD_KIND = {'no_for': 'ValueError', 'single_frame2': 'TypeError', 'single_frame0': 'TypeError',
               'single_tpm': 'ValueError', 'mf_noframe': 'TypeError', 'mf_frame_hi': 'IndexError',
               'mf_no_pm': 'ValueError', 'mf_no_pos': 'ValueError', 'mf_no_ori': 'ValueError',
               'tf_frame0': 'ValueError', 'wsi_noframe': 'TypeError', 'wsi_no_pm': 'ValueError',
               'tpm_no_origin': 'ValueError', 'no_position_anywhere': 'ValueError'}


def _ds_tile_of(d, frame):
    """(channel, focal plane index, zero-based column offset, row offset) of a 1-based frame of a tiled image"""
    nr, nc = -(-d['R'] // d['rows']), -(-d['C'] // d['cols'])
    k = frame - 1
    t = k % (nr * nc)
    a, b = divmod(t, nc)
    return k // (nr * nc * d['focal']), (k // (nr * nc)) % d['focal'], b * d['cols'], a * d['rows']


def _ds_expected(c, d, frame, tpm):
    """(position, orientation, spacing) the property assigns to the image / frame / total pixel matrix"""
    g = c['g']
    if d['sop'] == 'ct':
        return [F(x) for x in d['root']['ipp']], g['ori'], g['sp']
    if d['sop'] == 'ect':
        return [F(x) for x in d['_positions'][frame - 1]], g['ori'], g['sp']
    z0 = F(d['origin'][2] or 0)
    g0 = dict(g, pos=[d['origin'][0], d['origin'][1], str(z0)])
    if tpm:
        return [F(x) for x in g0['pos']], g['ori'], g['sp']
    _, fp, C0, R0 = _ds_tile_of(d, frame)
    pos = _ref_of(g0, F(C0), F(R0))
    ss = F(d['shared']['pm']['ss'] or 1)
    pos[2] += fp * ss
    return pos, g['ori'], g['sp']


def _oracle_ds_info(c, out):
    cs, (info, p2r, i2r, r2p, r2i) = out
    d = c['ds']
    bad = c.get('bad')
    if bad in ('mf_frame0', 'mf_frame_neg'):
        return None      # observation (claims note): Python negative indexing, not judged
    if bad is not None:
        if not _is_err(p2r):
            return f'{bad}: for_image accepted the dataset: {p2r}'
        want = DS_BAD_KIND.get(bad)
        if want and not _is_err(p2r, want):
            return f'{bad}: expected {want}, got {p2r}'
        return None
    want_cs = 'SLIDE' if d['sop'] == 'wsi' else 'PATIENT'
    if cs != want_cs:
        return f'get_image_coordinate_system = {cs}, expected {want_cs}'
    for name, v in (('_get_spatial_information', info), ('P2R.for_image', p2r), ('I2R.for_image', i2r),
                    ('R2P.for_image', r2p), ('R2I.for_image', r2i)):
        if _is_err(v):
            return f'{name} refused a valid dataset: {v}'
    pos, ori, sp = _ds_expected(c, d, c['frame'], c['tpm'])
    if not _allclose(info[:3], [pos, [F(x) for x in ori], [F(x) for x in sp]], 1e3):
        return f'_get_spatial_information = {info}, expected position {[str(x) for x in pos]} orientation {ori} spacing {sp}'
    ge = dict(c['g'], pos=_S(pos), ss='1')
    _, rv, cv, n, sr, sc, _ = _frame(ge)
    cols = [[x * sc for x in rv], [x * sr for x in cv], list(n)]
    if not _allclose(p2r[0], _affine_rows(cols, pos), 1e3):
        return (f'for_image affine {p2r[0]} differs from the explicit-attribute affine {_affine_rows(cols, pos)}')
    want = [_ref_of(ge, F(q[0]), F(q[1])) for q in c['pts']]
    if not _allclose(p2r[1], want, 1e3):
        return f'P2R.for_image(p) = {p2r[1]}, expected {want}'
    if d['sop'] == 'ct':
        ss_want = F(d['root']['ss'] or 1)
    else:
        pms = [fg['pm'] for fg in [d['shared']] + (d['perframe'] or []) if fg and fg['pm'] is not None]
        ss_want = F(pms[0]['ss'] or 1)
    for q, x in zip(c['pts'], want):
        for name, A, h in (('R2P', r2p, 0.0), ('R2I', r2i, 0.5)):
            for k in (0, 2):      # in the plane and two units along the normal: slice index k / slice spacing (default 1)
                y = [x[i] + k * n[i] for i in range(3)]
                got = [sum(A[i][j] * float(y[j]) for j in range(3)) + A[i][3] for i in range(3)]
                if not _allclose(got, [q[0] + h, q[1] + h, k / ss_want], 1e3):
                    return f'{name}.for_image maps the position of pixel {q} + {k} n to {got} (slice spacing {ss_want})'
        got = [sum(i2r[i][j] * v for j, v in enumerate([q[0] + 0.5, q[1] + 0.5, 0.0])) + i2r[i][3] for i in range(3)]
        if not _allclose(got, x, 1e3):
            return f'I2R.for_image(p + 1/2) = {got}, expected {x}'
    return None


def _oracle_ds_pair(c, out):
    p2p, i2i = out
    rel = c['rel']
    if rel in ('other_for', 'no_for'):
        return None if _is_err(p2p, 'ValueError') and _is_err(i2i, 'ValueError') else f'{rel}: accepted {out}'
    if rel == 'mf_single':
        same = c['g2']['pos'] == c['a']['_positions'][c['fa'] - 1]
        if not same:
            return None if _is_err(p2p, 'ValueError') else f'parallel distinct planes accepted: {p2p}'
        off = (0, 0)
    else:
        offs = []
        for d, f, t in ((c['a'], c['fa'], c['ta']), (c['b'], c['fb'], c['tb'])):
            offs.append((0, 0) if t else _ds_tile_of(d, f)[2:])
        off = (offs[0][0] - offs[1][0], offs[0][1] - offs[1][1])
    if _is_err(p2p) or _is_err(i2i):
        return f'{rel}: coplanar frames refused: {out}'
    want = [[q[0] + off[0], q[1] + off[1]] for q in c['pts']]
    if not _allclose(p2p[1], want, 1e3):
        return f'{rel}: P2P.for_images(p) = {p2p[1]}, expected p + {off} = {want}'
    for q, w in zip(c['pts'], want):
        got = [sum(i2i[i][j] * v for j, v in enumerate([q[0] + 0.5, q[1] + 0.5, 0.0])) + i2i[i][3] for i in range(2)]
        if not _allclose(got, [w[0] + 0.5, w[1] + 0.5], 1e3):
            return f'{rel}: I2I.for_images(p + 1/2) = {got}, expected {w} + 1/2'
    return None


def _oracle_ds_tile(c, out):
    d, f = c['ds'], c['frame']
    nfr = _ds_nframes(d)
    if f < 1 or f > nfr:
        return None if _is_err(out) else f'frame {f} of {nfr} yielded {out}'
    if _is_err(out):
        return f'frame {f} of {nfr} refused: {out}'
    ch, fp, C0, R0 = _ds_tile_of(d, f)
    pos, _, _ = _ds_expected(c, d, f, False)
    want = [ch + 1, fp + 1, C0 + 1, R0 + 1, pos]
    if out[:4] != want[:4] or not _allclose(out[4], pos, 1e3):
        return f'iter_tiled_full_frame_data item {f} = {out}, expected {want[:4]} {[str(x) for x in pos]}'
    if not (1 <= out[2] <= d['C'] and 1 <= out[3] <= d['R']):
        return f'tile offsets {out[2:4]} outside the total pixel matrix {d["C"]}x{d["R"]}'
    return None


def _oracle_geom_more(c, out):
    if _is_err(out):
        return f'refused: {out}'
    pos, rv, cv, n, sr, sc, ss = _frame(c['g'])
    ps, sbs, vv, ext, pv, direction, svec, uvec, inv = out
    nf, rows, cols_ = c['shape']
    unit = [[-x for x in n], list(cv), list(rv)]
    sps = [ss, sr, sc]
    checks = [('pixel_spacing', ps, [sr, sc]), ('spacing_between_slices', sbs, ss), ('voxel_volume', vv, ss * sr * sc),
              ('physical_extent', ext, [nf * ss, rows * sr, cols_ * sc]),
              ('physical_volume', pv, ss * sr * sc * nf * rows * cols_),
              ('direction', _cols_of(direction), unit), ('unit_vectors', uvec, unit),
              ('spacing_vectors', svec, [[x * sps[j] for x in unit[j]] for j in range(3)])]
    for name, got, want in checks:
        if not _allclose(got, want, 1e3):
            return f'{name} = {got}, expected {want}'
    for p in ([0, 0, 0], [1, 0, 0], [0, 1, 0], [0, 0, 1], [2, -3, 5]):
        x = [pos[i] + sum(unit[j][i] * sps[j] * p[j] for j in range(3)) for i in range(3)]
        got = [sum(inv[i][j] * float(x[j]) for j in range(3)) + inv[i][3] for i in range(3)]
        if not _allclose(got, p, 1e3):
            return f'inverse_affine maps the position of index {p} to {got}'
    return None


def oracle(c, out):
    k = c['kind']
    if k == 'malformed':
        return _oracle_malformed(c, out)
    g = c.get('g')
    if k == 'rotation':
        M, n = out
        if _is_err(M) or _is_err(n):
            return f'valid arguments refused: {out}'
        sp = [F(x) for x in (c['sp']['seq'] if 'seq' in c['sp'] else [c['sp']['scalar']] * 2)]
        cols, nexp = _rot_expected([F(x) for x in g['ori']], c['conv'], c['sf'], c['hand'], sp[0], sp[1], F(c['ss']))
        if not _allclose(_cols_of(M), cols, 10.0) or not _allclose(n, nexp, 10.0):
            return f'rotation/normal differ from the definition: {M} {n}'
        if c['ortho']:
            spc = {'R': sp[1], 'L': sp[1], 'D': sp[0], 'U': sp[0]}
            want = [spc[c['conv'][0]], spc[c['conv'][1]]]
            want = [abs(F(c['ss']))] + want if c['sf'] else want + [abs(F(c['ss']))]
            hand = c['hand'] if F(c['ss']) > 0 else {'RIGHT_HANDED': 'LEFT_HANDED', 'LEFT_HANDED': 'RIGHT_HANDED'}[c['hand']]
            return _check_shape(_cols_of(M), want, hand, 'create_rotation_matrix')
        return None
    if k == 'affine_attr':
        if _is_err(out):
            return f'valid arguments refused: {out}'
        pos, rv, cv, n, sr, sc, ss = _frame(g)
        cols, _ = _rot_expected(rv + cv, c['conv'], c['sf'], c['hand'], sr, sc, ss)
        if not _allclose(out, _affine_rows(cols, pos), 1e3):
            return f'affine {out} != definition'
        spc = {'R': sc, 'D': sr}
        want = [spc[c['conv'][0]], spc[c['conv'][1]]]
        want = [ss] + want if c['sf'] else want + [ss]
        return _check_shape(_cols_of(out), want, c['hand'], 'create_affine_matrix_from_attributes')
    if k == 'inv_affine':
        if _is_err(out):
            return f'valid arguments refused: {out}'
        # inverse o forward = identity on a simplex of points
        for p in ([0, 0, 0], [1, 0, 0], [0, 1, 0], [0, 0, 1], [3, -2, 5]):
            x = _ref_of(g, F(p[0]), F(p[1]), F(p[2]))
            got = [sum(out[i][j] * float(x[j]) for j in range(3)) + out[i][3] for i in range(3)]
            if not _allclose(got, p, 1e3):
                return f'inverse affine maps the position of index {p} to {got}'
        return None
    if k in ('p2r', 'i2r'):
        if _is_err(out) or _is_err(out[1]):
            return f'valid input refused: {out}'
        pos, rv, cv, n, sr, sc, ss = _frame(g)
        h = F(0) if k == 'p2r' else F(1, 2)
        want = [_ref_of(g, F(p[0]) - h, F(p[1]) - h) for p in c['pts']]
        if not _allclose(out[1], want, 1e3):
            return f'{k}{c["pts"]} = {out[1]}, expected {want}'
        return None
    if k in ('r2p', 'r2i'):
        if _is_err(out):
            return f'valid geometry refused: {out}'
        idx = [_proj(g, p) for p in c['pts']]
        h = F(0) if k == 'r2p' else F(1, 2)
        idx = [[i[0] + h, i[1] + h, i[2]] for i in idx]
        res = out[1]
        if c['drop']:
            if any(abs(i[2]) > F(1, 2) for i in idx):
                return None if _is_err(res, 'RuntimeError') else f'off-plane point not refused: {res}'
            idx = [i[:2] for i in idx]
        if _is_err(res):
            return f'valid points refused: {res}'
        if k == 'r2p' and c['round']:
            want = [[round(v) for v in i] for i in idx]
            if res != want:
                return f'rounded indices {res}, expected {want} (exact {[[str(v) for v in i] for i in idx]})'
            return None
        if not _allclose(res, idx, 1e3):
            return f'{k} = {res}, expected {idx}'
        return None
    if k in ('p2p', 'i2i'):
        copl = c['rel'] not in ('offplane', 'tilt', 'mirror')
        if not copl:
            return None if _is_err(out, 'ValueError') else f'non-coplanar pair ({c["rel"]}) accepted'
        if _is_err(out) or _is_err(out[1]):
            return f'coplanar pair ({c["rel"]}) refused: {out}'
        h = F(0) if k == 'p2p' else F(1, 2)
        want = []
        for p in c['pts']:
            x = _ref_of(c['g'], F(p[0]) - h, F(p[1]) - h)
            q = _proj(c['g_to'], x, F(1))
            want.append([q[0] + h, q[1] + h])
        if k == 'p2p' and c['round']:
            want = [[round(v) for v in q] for q in want]
            return None if out[1] == want else f'p2p rounded {out[1]}, expected {want}'
        if not _allclose(out[1], want, 1e3):
            return f'{k} = {out[1]}, via the frame of reference {want}'
        return None
    if k == 'coplanar':
        want = c['rel'] not in ('offplane', 'tilt', 'mirror')
        return None if out == want else f'_are_images_coplanar = {out} for a {c["rel"]} pair'
    if k == 'map_pixel':
        if _is_err(out):
            return f'refused: {out}'
        i, j = (F(int(F(x))) for x in c['idx'])
        want = _ref_of(g, i, j)
        return None if _allclose(out, want, 1e3) else f'map_pixel {out}, expected {want}'
    if k == 'map_coord':
        if _is_err(out):
            return f'refused: {out}'
        want = [round(v) for v in _proj(g, c['x'])]
        return None if out == want else f'map_coordinate {out}, expected {want}'
    if k == 'rot_po':
        if _is_err(out):
            return f'refused: {out}'
        s = _sarg3(c['sp'])
        cols = [[F(v) * s[j] for v in LETTER_VEC[ch]] for j, ch in enumerate(c['po'])]
        return None if _allclose(_cols_of(out), cols) else f'rotation_for_patient_orientation {out}'
    if k == 'po_roundtrip':
        return None if out == c['po'] else f'closest orientation of the matrix for {c["po"]} is {out}'
    if k == 'closest':
        M = [F(x) for x in c['M']]
        cols = [[M[3 * i + j] for i in range(3)] for j in range(3)]
        off = max(abs(_dotf(cols[i], cols[j])) for i in range(3) for j in range(i + 1, 3))
        if off == 0:
            if _is_err(out):
                return f'orthogonal matrix refused: {out}'
            if not _valid_po(out):
                return f'{out} is not a valid orientation'
            for j, ch in enumerate(out):
                col = cols[j]
                if abs(col[AXIS[ch]]) == max(abs(v) for v in col) and \
                        sum(1 for v in col if abs(v) == abs(col[AXIS[ch]])) == 1:
                    if (col[AXIS[ch]] > 0) != (ch in 'LPH'):
                        return f'axis {j}: letter {ch} has the wrong sign for column {col}'
                elif all(abs(v) != max(abs(w) for w in col) or i == AXIS[ch] for i, v in enumerate(col)):
                    return f'axis {j}: letter {ch} is not along the dominant component of {col}'
            return None
        scale = 1 + max(_dotf(cc, cc) for cc in cols)
        if off > F(1, 1000) * scale:
            return None if _is_err(out, 'ValueError') else f'non-orthogonal matrix accepted: {out}'
        return None
    if k == 'affine_comp':
        if _is_err(out):
            return f'valid components refused: {out}'
        cols, t, s = _comp_expected(c)
        if not _allclose(out, _affine_rows(cols, t), 1e3):
            return f'affine {out} != definition {_affine_rows(cols, t)}'
        m = _check_shape(_cols_of(out), s, None, 'create_affine_matrix_from_components')
        if m:
            return m
        if c.get('center') is not None:
            ci = [F(n - 1, 2) for n in c['shape']]
            got = [sum(out[i][j] * float(ci[j]) for j in range(3)) + out[i][3] for i in range(3)]
            if not _allclose(got, [F(x) for x in c['center']], 1e3):
                return f'array centre maps to {got}, not to center_position'
        return None
    if k == 'tam':
        if _is_err(out):
            return f'valid transformation refused: {out}'
        if c['fi'] is not None and any(c['fi']):
            return None          # private, unreachable flip_indices path: correspondence only
        rows = [[F(x) for x in c['A'][4 * i:4 * i + 4]] for i in range(3)]
        if c['fr'] is not None:
            rows = [[-x if c['fr'][i] else x for x in rows[i]] for i in range(3)]
        if c['pi'] is not None:
            rows = [[r[c['pi'][0]], r[c['pi'][1]], r[c['pi'][2]], r[3]] for r in rows]
        if c['pr'] is not None:
            rows = [rows[j] for j in c['pr']]
        return None if _allclose(out, rows + [[0, 0, 0, 1]], 1e3) else f'_transform_affine_matrix {out}'
    if k == 'to_convention':
        if _is_err(out):
            return f'valid conventions refused: {out}'
        rows = [[F(x) for x in c['A'][4 * i:4 * i + 4]] for i in range(3)]
        want = _conv_expected(rows, c['from'], c['to']) + [[0, 0, 0, 1]]
        return None if _allclose(out, want, 1e3) else f'to convention {c["from"]}->{c["to"]}: {out}, expected {want}'
    if k == 'geom_attr':
        pos, rv, cv, n, sr, sc, ss = _frame(g)
        cols = [[-x * ss for x in n], [x * sr for x in cv], [x * sc for x in rv]]     # slices along c x r
        return _oracle_geom(c, out, cols, pos, [ss, sr, sc])
    if k == 'geom_comp':
        cols, t, s = _comp_expected(c)
        return _oracle_geom(c, out, cols, t, s)
    if k == 'geom_maps':
        if _is_err(out):
            return f'refused: {out}'
        pos, rv, cv, n, sr, sc, ss = _frame(g)
        cols = [[-x * ss for x in n], [x * sr for x in cv], [x * sc for x in rv]]
        for p, fwd, inv in zip(c['pts'], out[0], out[1]):
            p = [F(x) for x in p]
            want = [pos[i] + sum(cols[j][i] * p[j] for j in range(3)) for i in range(3)]
            if not _allclose(fwd, want, 1e3):
                return f'map_indices_to_reference {fwd}, expected {want}'
            back = [float(pos[i]) + sum(float(cols[j][i]) * inv[j] for j in range(3)) for i in range(3)]
            if not _allclose(back, p, 1e3):
                return f'map_reference_to_indices({p}) = {inv} does not map back ({back})'
        return None
    if k == 'identities':
        return _oracle_identities(c, out)
    if k == 'for_image':
        return _oracle_for_image(c, out)
    if k == 'ds_info':
        return _oracle_ds_info(c, out)
    if k == 'ds_pair':
        return _oracle_ds_pair(c, out)
    if k == 'ds_tile':
        return _oracle_ds_tile(c, out)
    if k == 'geom_more':
        return _oracle_geom_more(c, out)
    if k in ('p2r_dtype', 'p2p_dtype'):
        if c['dt'] in OTHER_DTYPES:
            if k == 'p2p_dtype' and c['rel'] in ('offplane', 'tilt', 'mirror'):
                return None if _is_err(out, 'ValueError') else f'non-coplanar pair ({c["rel"]}) accepted'
            if _is_err(out):
                return f'constructor refused a valid geometry: {out}'
            return None if _is_err(out[1], 'TypeError') else f'{c["dt"]} index array not refused with TypeError: {out[1]}'
        # the index VALUES decide the result, not the dtype / layout they are stored in
        m = oracle(dict(c, kind=k[:3], isint=True), out)
        return None if m is None else f'indices of dtype {c["dt"]} (layout {c["layout"]}): {m}'
    if k == 'ds_pair_dtype':
        return _oracle_ds_pair_dtype(c, out)
    if k == 'identities_dtype':
        return _oracle_identities_dtype(c, out)
    if k in ('vol_comp', 'vol_attr', 'vol_with_array'):
        return _oracle_vol(c, out)
    if k in BASE_KIND:
        m = oracle(dict(c, kind=BASE_KIND[k]), out)
        return None if m is None else f'exact tie ({c.get("rel", "half-integer index")}): {m}'
    if k == 'ds_pair_tie':
        return _oracle_ds_pair_tie(c, out)
    if k == 'routes':
        return _oracle_routes(c, out)
    if k == 'history':
        return _oracle_history(c, out)
    if k == 'alias':
        return _oracle_alias(c, out)
    return f'unknown kind {k}'


def _exact_target(c):
    """exact (column, row, slice) index in the target image of every source pixel of the case"""
    return [_proj(c['g_to'], _ref_of(c['g'], F(p[0]), F(p[1])), F(1)) for p in c['pts']]


def _oracle_ds_pair_tie(c, out):
    if _is_err(out):
        return f'{c["rel"]}: total pixel matrices of two pyramid levels refused: {out}'
    q = [v[:2] for v in _exact_target(c)]
    if c['round']:
        want = [[round(v) for v in p] for p in q]                 # Fraction.__round__: half to even
        if out[1] != want:
            return (f'{c["rel"]}: P2P.for_images (total pixel matrix -> total pixel matrix) of {c["pts"]} = {out[1]}, '
                    f'expected {want} (exact {[[str(v) for v in p] for p in q]}, ties to even)')
        return None
    return None if _allclose(out[1], q, 1e3) else f'{c["rel"]}: P2P.for_images = {out[1]}, expected {q}'


def _oracle_routes(c, out):
    p2p, via, via_f, via_drop, helper, (geo, geo_f) = out
    q = _exact_target(c)
    want = [[round(v) for v in p] for p in q]                     # half to even, from the exact rational position
    exact = [[str(v) for v in p] for p in q]
    if not _allclose(via_f, q, 1e3):
        return f'R2P_to(round_output=False)(P2R_from(p)) = {via_f}, expected {exact}'
    if via != want:
        return (f'R2P_to(P2R_from(p)) (rounded by default) = {via}, but the exact position {exact} rounds (half to '
                f'even, as np.around does and as PixelToPixel / VolumeGeometry do) to {want}')
    if p2p != [w[:2] for w in want]:
        return f'PixelToPixel(p) (rounded by default) = {p2p}, expected {[w[:2] for w in want]} (exact {exact})'
    if p2p != [v[:2] for v in via]:
        return f'PixelToPixel(p) = {p2p} differs from going through the frame of reference {via} for p = {c["pts"]}'
    if via_drop != p2p:
        return f'R2P_to(drop_slice_index=True) = {via_drop}, without dropping {via}'
    if helper != [[w] for w in want]:
        return f'map_coordinate_into_pixel_matrix = {helper}, batch transformer {via}'
    gw = [[round(-p[2]), round(p[1]), round(p[0])] for p in q]
    if geo != gw:
        return (f'VolumeGeometry.map_reference_to_indices(round_output=True) = {geo} (slice, row, column) but '
                f'ReferenceToPixel of the same plane answers {via} (column, row, slice)')
    if not _allclose(geo_f, [[-p[2], p[1], p[0]] for p in q], 1e3):
        return f'VolumeGeometry.map_reference_to_indices = {geo_f}, expected {exact} reversed'
    return None


def _edited(A, op):
    k, t = float(F(op['k'])), [float(F(x)) for x in op['t']]
    return [[A[i][j] * k for j in range(3)] + [A[i][3] + t[i]] for i in range(3)] + [list(A[3])]


def _oracle_history(c, out):
    cls = c['cls']
    name = {'p2r': 'PixelToReferenceTransformer', 'r2p': 'ReferenceToPixelTransformer',
            'i2r': 'ImageToReferenceTransformer', 'r2i': 'ReferenceToImageTransformer',
            'p2p': 'PixelToPixelTransformer', 'i2i': 'ImageToImageTransformer', 'geom': 'VolumeGeometry'}[cls]
    if c['via'] == 'ds':
        name += '.for_images' if cls in ('p2p', 'i2i') else '.for_image'
    if _is_err(out):
        return f'{name}: valid geometry refused: {out}'
    first, steps = out
    # 1. the fresh object is right (first principles)
    m = _oracle_history_first(c, first)
    if m:
        return f'{name} (fresh): {m}'
    # 2. nothing the caller does with the arrays it was handed changes the object
    done = []
    for op, (mine, obs) in zip(c['ops'], steps):
        what = {'affine_edit': f'editing in place ({op.get("how")}) the array returned by .affine',
                'output_edit': 'overwriting the result of the previous call',
                'input_edit': 'overwriting the arrays handed to the constructor / the previous call',
                'call': 'another call'}[op['op']]
        done.append(what)
        if op['op'] == 'affine_edit' and not _allclose(mine, _edited(first[0], op), 1e3):
            return f'{name}: the array returned by .affine, edited by the caller, is {mine}; the matrix was {first[0]}'
        if obs[0] != first[0]:
            return (f'{name}: after {what} the object reports affine {obs[0]} instead of {first[0]} - the caller '
                    f'was handed the internal matrix, not a copy (history: {done})')
        if obs[1] != first[1]:
            return (f'{name}: after {what} the same input {c["pts"]} is mapped to {obs[1]} instead of {first[1]} '
                    f'(history: {done})')
    return None


def _oracle_history_first(c, first):
    cls, g = c['cls'], c['g']
    aff, res = first
    if c['via'] == 'ds':
        pos, ori, sp = _ds_expected(c, c['ds'], c['frame'], c['tpm'])
        d = c['ds']
        if d['sop'] == 'ct':
            ss = d['root']['ss']
        else:
            pms = [fg['pm'] for fg in [d['shared']] + (d['perframe'] or []) if fg and fg['pm'] is not None]
            ss = pms[0]['ss']
        g = dict(g, pos=_S(pos), ss=ss or '1')
        if cls in ('p2p', 'i2i'):
            _, _, C0, R0 = _ds_tile_of(d, c['frame'])
            if _is_err(res):
                return f'refused: {res}'
            h = F(0)
            want = [[F(p[0]) + C0, F(p[1]) + R0] for p in c['pts']]
            if cls == 'p2p' and c['round']:
                return None if res == [[int(v) for v in w] for w in want] else f'frame -> total pixel matrix {res}, expected {want}'
            return None if _allclose(res, want, 1e3) else f'frame -> total pixel matrix {res}, expected {want}'
    if cls == 'geom':
        pos, rv, cv, n, sr, sc, ss = _frame(g)
        cols = [[-x * ss for x in n], [x * sr for x in cv], [x * sc for x in rv]]
        if not _allclose(aff, _affine_rows(cols, pos), 1e3):
            return f'affine {aff}, expected {_affine_rows(cols, pos)}'
        return oracle({'kind': 'geom_maps', 'g': g, 'pts': c['pts']}, res)
    base = {'kind': cls, 'g': g, 'pts': c['pts'], 'w': 2 if cls in ('p2r', 'i2r', 'p2p', 'i2i') else 3,
            'round': c.get('round', True), 'drop': c.get('drop', False), 'isint': True,
            'g_to': c.get('g_to'), 'rel': c.get('rel')}
    return oracle(base, [aff, res])


def _oracle_alias(c, o):
    for name, (before, after, untouched, own) in o['siblings'].items():
        if before != after:
            return (f'{name}: a second object built from the same arguments changed ({before} -> {after}) when the array '
                    f'returned by the first object\'s .affine and the result of its call were edited in place')
        if not untouched:
            return f'{name}: the call modified the caller\'s input array'
        if own != before:
            return (f'{name}: after the caller edited the array returned by .affine / the result of a call, the object '
                    f'answers {own} instead of {before}')
    if not (o['args_untouched'] and o['args_untouched2']):
        return 'the numpy arrays passed as image_position / image_orientation / pixel_spacing were modified'
    gfirst, glater = o['geom']
    for name, later in glater:
        if later != gfirst:
            i = next(j for j, (x, y) in enumerate(zip(gfirst, later)) if x != y)
            field = ['affine', 'inverse_affine', 'direction', 'position', 'spacing', 'direction_cosines',
                     'spacing_vectors()', 'unit_vectors()', 'get_affine(po)'][i]
            return (f'VolumeGeometry: after editing in place the array returned by {name}, {field} = {later[i]} instead of '
                    f'{gfirst[i]}')
    m0, a0, a1, x = o['ctor_matrix']
    if a0 != m0 or a1 != m0:
        return (f'VolumeGeometry(affine): the object reports {a1} after the caller edited its own matrix in place; it '
                f'was built from {m0}')
    if not _allclose(x, [[m0[i][0] + 2 * m0[i][1] + 3 * m0[i][2] + m0[i][3] for i in range(3)]], 1e3):
        return f'VolumeGeometry(affine): index (1, 2, 3) maps to {x} after the caller edited its own matrix in place'
    for name, (first, again) in o['functions'].items():
        if first != again:
            return f'{name}: a second call with the same arguments returns {again} after the first result {first} was edited in place'
    return None


def _oracle_ds_pair_dtype(c, out):
    rel = c['rel']
    if rel == 'other_for':
        return None if _is_err(out, 'ValueError') else f'{rel}: accepted {out}'
    if _is_err(out):
        return f'{rel}: coplanar frames refused: {out}'
    offs = []
    for d, f, t in ((c['a'], c['fa'], c['ta']), (c['b'], c['fb'], c['tb'])):
        offs.append((0, 0) if t else _ds_tile_of(d, f)[2:])
    off = (offs[0][0] - offs[1][0], offs[0][1] - offs[1][1])
    want = [[int(q[0]) + off[0], int(q[1]) + off[1]] for q in c['pts']]
    if c['round']:
        if out[1] != want:
            return (f'{rel}: rounded P2P.for_images on {c["dt"]} indices {c["pts"]} = {out[1]}, expected p + {off} = '
                    f'{want}')
        return None
    return None if _allclose(out[1], want, 1e3) else f'{rel}: P2P.for_images(p) = {out[1]}, expected p + {off} = {want}'


def _oracle_identities_dtype(c, o):
    S = 1e3
    want_ref = [_ref_of(c['g'], F(p[0]), F(p[1])) for p in c['pts']]
    want = [_proj(c['g_to'], x, F(1))[:2] for x in want_ref]
    want_r = [[round(v) for v in q] for q in want]
    if o['via'] != want_r:
        return f'rounded R2P_to(P2R_from(p)) = {o["via"]}, expected {want_r}'
    if not _allclose(o['float'], want, S):
        return f'P2P(round_output=False) = {o["float"]}, expected {want}'
    for key, (r, kind, rf, ref, untouched) in o['by_dtype'].items():
        if r != o['via']:
            return (f'P2P on {key} indices {c["pts"]} = {r}, but through the frame of reference (and for int64 '
                    f'indices) {o["via"]}')
        if kind != 'i':
            return f'P2P on {key} indices: rounded output has dtype kind {kind!r}, cannot hold negative indices'
        if not _allclose(rf, want, S):
            return f'P2P(round_output=False) on {key} indices = {rf}, expected {want}'
        if not _allclose(ref, want_ref, S):
            return f'P2R on {key} indices = {ref}, expected {want_ref}'
        if not untouched:
            return f'P2P/P2R modified the caller\'s {key} index array'
    for lay, res in o['by_layout'].items():
        for name, got, base in zip(('I2R', 'R2I', 'R2P', 'I2I'), res, o['float_base']):
            if got != base:
                return f'{name} on a {lay} array = {got}, on a C-contiguous array = {base}'
    return None


def _oracle_vol(c, out):
    k = c['kind']
    bad = c.get('bad')
    if bad is not None:
        return None if _is_err(out, 'ValueError') else f'{bad}: expected ValueError, got {out}'
    if _is_err(out):
        return f'valid volume refused: {out}'
    geo, sshape, cshape, extent, cidx, (gaff, gshape), probes = out
    n = list(c['ashape'][:3])
    if k == 'vol_attr':
        pos, rv, cv, nrm, sr, sc, ss = _frame(c['g'])
        cols = [[-x * ss for x in nrm], [x * sr for x in cv], [x * sc for x in rv]]
        t, s = pos, [ss, sr, sc]
    else:
        cols, t, s = _comp_expected(dict(c, shape=n))
    m = _oracle_geom(dict(c, shape=n), geo, cols, t, s)
    if m:
        return f'array shape {c["ashape"]}: {m}'
    if c.get('center') is not None and not _allclose(geo[4], [F(x) for x in c['center']], 1e3):
        return f'array shape {c["ashape"]}: center_position {geo[4]} is not the given centre {c["center"]}'
    if sshape != n or cshape != list(c['ashape'][3:]):
        return f'spatial_shape {sshape} / channel_shape {cshape} of an array of shape {c["ashape"]}'
    if not _allclose(extent, [n[j] * s[j] for j in range(3)], 1e3):
        return f'physical_extent {extent}, expected {[n[j] * s[j] for j in range(3)]}'
    if not _allclose(cidx, [F(x - 1, 2) for x in n]):
        return f'center_indices {cidx} of spatial shape {n}'
    if not _allclose(gaff, geo[0], 1e3) or gshape != n:
        return f'get_geometry(): affine {gaff} shape {gshape}'
    for p, r in zip(c['probes'], probes):
        q = [F(x) for x in p]
        inside = all(F(-1, 2) <= q[j] <= n[j] - F(1, 2) for j in range(3))
        if inside:
            if _is_err(r) or not _allclose(r, [q], 1e3):
                return f'index {p} inside the array of spatial shape {n} maps back (check_bounds=True) to {r}'
        elif not _is_err(r, 'RuntimeError'):
            return f'index {p} outside the array of spatial shape {n} passes the bounds check: {r}'
    return None


def _oracle_identities(c, o):
    idx = c['pts']
    S = 1e3
    z = [[p[0], p[1], 0] for p in idx]
    if not _allclose(o['r2p_float'], z, S):
        return f'R2P(P2R(p)) = {o["r2p_float"]} for p = {idx}'
    if o['r2p_round'] != z:
        return f'rounded R2P(P2R(p)) = {o["r2p_round"]} for p = {idx}'
    if o['r2p_drop'] != idx:
        return f'R2P(drop)(P2R(p)) = {o["r2p_drop"]} for p = {idx}'
    if not _allclose(o['p2r_of_r2p'], o['ref'], S):
        return 'P2R(R2P(x)) != x'
    if not _allclose(o['i2r_half'], o['ref'], S):
        return f'I2R(p + 1/2) = {o["i2r_half"]} but P2R(p) = {o["ref"]}'
    if not _allclose(o['r2i'], [[p[0] + 0.5, p[1] + 0.5, 0] for p in idx], S):
        return f'R2I(P2R(p)) = {o["r2i"]} is not p + 1/2'
    if not _allclose(o['i2r_of_r2i'], o['ref'], S):
        return 'I2R(R2I(x)) != x'
    if not _allclose(o['p2p'], o['p2p_via'], S):
        return f'P2P = {o["p2p"]} but via the frame of reference {o["p2p_via"]}'
    if o['p2p_back'] is not None and not _allclose(o['p2p_back'], idx, S):
        return f'P2P(to->from)(P2P(from->to)(p)) = {o["p2p_back"]} for p = {idx}'
    if not _allclose(o['i2i'], o['i2i_via'], S):
        return f'I2I = {o["i2i"]} but via the frame of reference {o["i2i_via"]}'
    if not _allclose(o['i2i'], [[a + 0.5, b + 0.5] for a, b in o['p2p']], S):
        return 'I2I(p + 1/2) != P2P(p) + 1/2'
    if not _allclose(o['helper_p'], o['ref'], S):
        return f'map_pixel_into_coordinate_system {o["helper_p"]} != batch {o["ref"]}'
    if o['helper_r'] != o['r2p_round']:
        return f'map_coordinate_into_pixel_matrix {o["helper_r"]} != batch {o["r2p_round"]}'
    return None


def _oracle_for_image(c, o):
    g = c['g']
    S = 1e3
    pos, rv, cv, n, sr, sc, ss = _frame(g)
    src = c['src']
    C0 = R0 = 0
    if src in ('tiled_full', 'tiled_perframe'):
        nc = -(-c['C'] // c['tw'])
        a, b = divmod(c['frame'] - 1, nc)
        C0, R0 = b * c['tw'], a * c['th']
        origin = _ref_of(g, F(C0), F(R0))
    elif src.startswith('mf'):
        origin = [pos[j] + (c['frame'] - 1) * ss * n[j] for j in range(3)]
    else:
        origin = pos
    cols = [[x * sc for x in rv], [x * sr for x in cv], list(n)]
    if not _allclose(o['p2r_affine'], _affine_rows(cols, origin), S):
        return (f'{src}: for_image affine {o["p2r_affine"]} differs from the explicit-attribute affine '
                f'{_affine_rows(cols, origin)}')
    kf = F(c['frame'] - 1) if src.startswith('mf') else F(0)
    want = [_ref_of(g, F(C0 + p[0]), F(R0 + p[1]), kf) for p in c['pts']]
    if not _allclose(o['ref'], want, S):
        return f'{src}: P2R.for_image(p) = {o["ref"]}, expected {want}'
    if not _allclose(o['i2r'], want, S):
        return f'{src}: I2R.for_image(p + 1/2) = {o["i2r"]}, expected {want}'
    if o['r2p'] != [[p[0], p[1], 0] for p in c['pts']]:
        return f'{src}: R2P.for_image(P2R.for_image(p)) = {o["r2p"]} for p = {c["pts"]}'
    if not _allclose(o['r2i'], [[p[0] + 0.5, p[1] + 0.5] for p in c['pts']], S):
        return f'{src}: R2I.for_image = {o["r2i"]}'
    if 'tpm_ref' in o:
        if not _allclose(o['tpm_ref'], o['ref'], S):
            return (f'{src}: pixel p of frame {c["frame"]} at offset {(C0 + 1, R0 + 1)} is at {o["ref"]} but pixel '
                    f'(C-1+c, R-1+r) of the total pixel matrix is at {o["tpm_ref"]}')
        if o['p2p_frame_to_tpm'] != [[p[0] + C0, p[1] + R0] for p in c['pts']]:
            return f'{src}: P2P frame->total pixel matrix = {o["p2p_frame_to_tpm"]}, offset {(C0, R0)}'
        if not _allclose(o['i2i_frame_to_tpm'], [[p[0] + C0 + 0.5, p[1] + R0 + 0.5] for p in c['pts']], S):
            return f'{src}: I2I frame->total pixel matrix = {o["i2i_frame_to_tpm"]}'
    return None


def _oracle_malformed(c, out):
    m = c['m']
    call_level = m in ('width', 'dtype', 'empty_drop', 'offplane_drop')
    if call_level:
        if _is_err(out):
            return f'constructor refused a valid geometry: {out}'
        res = out[1]
        if m == 'empty_drop':
            if c['drop']:
                return None if _is_err(res) else f'empty array with drop accepted: {res}'
            return None if res == [] else f'empty array gives {res}'
        want = {'width': 'ValueError', 'dtype': 'TypeError', 'offplane_drop': 'RuntimeError'}[m]
        return None if _is_err(res, want) else f'{m}: expected {want}, got {res}'
    if m == 'po' and c['sub'] == 'int_spacing':
        return None if _is_err(out, 'TypeError') else f'int scalar spacing: {out}'
    if m == 'po' and _valid_po(c['po']):
        return None if not _is_err(out) else f'valid orientation {c["po"]} refused: {out}'
    if m in ('conv',) and _valid_conv(c['conv']) and (c['sub'] != 'affine_attr' or c['conv'] in ('RD', 'DR')):
        return None if not _is_err(out) else f'valid convention refused: {out}'
    if not _is_err(out):
        return f'malformed input ({m}, {c.get("what") or c.get("bad") or c.get("conv") or c.get("po")}) accepted: {out}'
    if m == 'args' and c['what'].endswith('_scalar') and out.kind != 'TypeError':
        return f'{c["what"]}: expected TypeError, got {out}'
    if m in ('conv', 'hand', 'affine_LU', 'singular', 'tam_perm', 'po', 'rot_sp') and out.kind != 'ValueError':
        return f'{m}: expected ValueError, got {out}'
    return None


def nontrivial(c, out):
    k = c['kind']
    if k in ('malformed',):
        return True
    g = c.get('g')
    if g is not None:
        return g.get('oclass') != 'axis' or g['sp'] != ['1', '1'] or bool(c.get('pts'))
    return True


def shrink(c):
    if 'pts' in c and isinstance(c['pts'], list) and len(c['pts']) > 1:
        for i in range(len(c['pts'])):
            yield dict(c, pts=c['pts'][:i] + c['pts'][i + 1:])
    for gk in ('g', 'g_to'):
        if gk in c:
            g = c[gk]
            if g['pos'] != ['0', '0', '0'] and c['kind'] not in ('p2p', 'i2i', 'coplanar', 'identities', 'r2p', 'r2i',
                                                                  'map_coord', 'malformed', 'for_image', 'ds_info',
                                                                  'ds_pair', 'ds_tile', 'p2p_dtype', 'ds_pair_dtype',
                                                                  'identities_dtype', 'r2p_tie', 'map_coord_tie',
                                                                  'p2p_tie', 'ds_pair_tie', 'routes', 'history',
                                                                  'alias'):
                yield dict(c, **{gk: dict(g, pos=['0', '0', '0'])})
            if g['sp'] != ['1', '1'] and c['kind'] not in ('r2p', 'r2i', 'map_coord', 'p2p', 'i2i', 'identities',
                                                            'malformed', 'for_image', 'ds_info', 'ds_pair', 'ds_tile',
                                                            'p2p_dtype', 'ds_pair_dtype', 'identities_dtype',
                                                            'r2p_tie', 'map_coord_tie', 'p2p_tie', 'ds_pair_tie',
                                                            'routes', 'history', 'alias'):
                yield dict(c, **{gk: dict(g, sp=['1', '1'])})
    if 'shape' in c and c['shape'] and any(n > 1 for n in c['shape']) and c['kind'] != 'malformed' \
            and not c['kind'].startswith('vol_'):
        yield dict(c, shape=[1 if n > 1 else n for n in c['shape']])
    if c['kind'].startswith('vol_') and c.get('bad') is None:
        if len(c.get('probes', [])) > 1:
            for i in range(len(c['probes'])):
                yield dict(c, probes=c['probes'][:i] + c['probes'][i + 1:])
        if len(c['chan']) > 1:                      # drop the last channel dimension
            yield dict(c, chan=c['chan'][:-1], ashape=c['ashape'][:-1])
        if c['alayout'] != 'C' or c['adt'] != 'uint8':
            yield dict(c, alayout='C', adt='uint8')
    if c.get('layout', 'C') != 'C':
        yield dict(c, layout='C')
    if c['kind'] == 'history' and len(c['ops']) > 1:
        for i in range(len(c['ops'])):
            yield dict(c, ops=c['ops'][:i] + c['ops'][i + 1:])


if __name__ == '__main__':
    sys.exit(common.main(sys.modules[__name__]))
