"""C12 - all tiling helpers describe one and the same tiling.

Implementation functions driven (real code from /repo/src):
  spatial.tile_pixel_matrix, spatial.compute_tile_positions_per_frame (incl. its argument checks),
  spatial.iter_tiled_full_frame_data (incl. SOP class / organisation checks and optional attributes),
  spatial.get_tile_array (2-D and with trailing dimensions), spatial.PixelToReferenceTransformer
  (.affine and __call__), spatial.map_pixel_into_coordinate_system,
  utils.compute_plane_position_tiled_full (incl. the TypeError / ValueError paths),
  utils.compute_plane_position_slide_per_frame, utils.are_plane_positions_tiled_full;
  extension 2: the same functions on the whole integer domain of the size arguments (sizes <= 0, negative tile
  sizes), the generator consumed to the end with failing compute_tile_positions_per_frame, the single-tile helper
  called over the whole tile_pixel_matrix enumeration and its REAL PlanePositionSequence objects fed to
  are_plane_positions_tiled_full, compute_plane_position_slide_per_frame fed to are_plane_positions_tiled_full,
  every tile of an R x C x S array, spatial.is_tiled_image
Model: coq/theories/C12_Model.v; theorems: C12_Props.v.
"""
import itertools
import os
import sys
from fractions import Fraction as F

sys.path.insert(0, os.path.dirname(os.path.abspath(__file__)))
import common
from common import Err, catch, zlit, qlit, zl, zll

PROPERTY = 'C12'
PROPS_FILE = 'C12_Props.v'
COQ_IMPORTS = ['C12_Model']
TOL = F(1, 10**9)
ORACLE_PREMISES = [
    'float64 arithmetic of numpy stays within 1e-9 relative of the exact rational model (positions)',
    'int(np.ceil(a / b)) equals integer ceil-division for the sizes explored (< 2^53)',
]
MODELLED = ('spatial.tile_pixel_matrix, get_tile_array (2-D and R x C x S), compute_tile_positions_per_frame '
            '(with its length / zero-size / spacing guards), iter_tiled_full_frame_data (dataset level: SOP class, '
            'DimensionOrganizationType, optional focal planes / optical paths / spacing between slices / z origin, '
            'LABELMAP channel); PixelToReferenceTransformer as the 4x4 affine matrix (proved equal to the affine '
            'formula); utils.compute_plane_position_tiled_full (ValueError / TypeError paths), '
            'compute_plane_position_slide_per_frame, are_plane_positions_tiled_full '
            '(PlanePositionSequence construction is read back through its attributes, not modelled); '
            'compute_tile_positions_per_frame and get_tile_array on ALL integer sizes (TypeError on an empty grid, '
            'negative numpy slice ends), error propagation into iter_tiled_full_frame_data, is_tiled_image')
STRATA = ['grid', 'positions', 'iter', 'ppos', 'ppos_err', 'tiled_full', 'tile_array', 'tile_array_err',
          'positions_chk', 'affine', 'ppos2', 'iter_ds', 'slide_pf', 'tile_array_nd', 'cut_all',
          'positions_dom', 'iter_ds_chk', 'helper_grid', 'pf_tiled_full', 'tile_array_py', 'is_tiled', 'cut_all_nd', 'tiled_full_dom']
RULE = ('grid: exhaustive cube of (R,C,th,tw) up to a bound + random up to 24 (64 in thorough); '
        'positions/iter: random rational orientations (signed axis permutations, Pythagorean), dyadic '
        'spacings and origins; tiled_full: complete grids, permutations, holes, prefixes, duplicates; '
        'tile_array: every tile of random matrices, padded or not, plus out-of-range offsets; '
        'positions_chk: each guard of compute_tile_positions_per_frame violated (lengths, size 0, spacing <= 0), singly '
        'and in pairs; affine: transformer matrix and application to in- and out-of-matrix indices; ppos2: one-sided '
        '3-D parameters, bad indices, bad spacings; iter_ds / slide_pf: datasets with absent optional attributes, '
        'foreign SOP class, other organisation types, z origin, optical-path count differing from the sequence length; '
        'tile_array_nd: arrays with 1..3 trailing samples; cut_all: every tile of the grid of one matrix, from both '
        'enumerations, pasted back by the oracle. '
        'positions_dom: matrix sizes -2..6 and tile sizes -3..4 (zero, negative, size-1 matrices with negative tiles) with '
        'occasional length / spacing faults; iter_ds_chk: datasets whose Rows / Columns / matrix sizes / spacings make '
        'compute_tile_positions_per_frame fail, with and without an empty channel x focal-plane loop; helper_grid: '
        'compute_plane_position_tiled_full for every pair of tile_pixel_matrix (2-D and with a focal plane), the '
        'PlanePositionSequence objects then given to are_plane_positions_tiled_full; pf_tiled_full: '
        'compute_plane_position_slide_per_frame of datasets with 0, 1 and >= 2 channel x plane copies given to '
        'are_plane_positions_tiled_full; tile_array_py: tile sizes -8..3 (numpy negative slice ends); is_tiled: all 8 '
        'attribute combinations; tiled_full_dom: the full-tiling test with tile sizes -3..3 (0: ValueError; negative: '
        'descending Python ranges) on grids, empty, single, negative and descending position lists; cut_all_nd: every tile of R x C x S arrays, pasted back plane by plane. '
        'non-trivial = more than one tile (or a rejected/negative answer); distinct by case hash')
EXHAUSTIVE = {'quick': False, 'thorough': False}

ORIENTS = []
_ax = [(1, 0, 0), (0, 1, 0), (0, 0, 1)]
for i, j in itertools.permutations(range(3), 2):
    for si in (1, -1):
        for sj in (1, -1):
            ORIENTS.append((tuple(si * x for x in _ax[i]), tuple(sj * x for x in _ax[j])))
ORIENTS += [((F(3, 5), F(4, 5), 0), (F(-4, 5), F(3, 5), 0)),
            ((F(3, 5), 0, F(4, 5)), (0, 1, 0)),
            ((F(2, 3), F(2, 3), F(1, 3)), (F(-2, 3), F(1, 3), F(2, 3))),
            ((F(5, 13), F(12, 13), 0), (F(12, 13), F(-5, 13), 0))]


def _geom(rng):
    rc, cc = rng.choice(ORIENTS)
    pos = [F(rng.randint(-800, 800), rng.choice([1, 2, 4, 8])) for _ in range(3)]
    spr = F(rng.randint(1, 40), rng.choice([1, 2, 4, 8, 16]))
    spc = F(rng.randint(1, 40), rng.choice([1, 2, 4, 8, 16]))
    return {'pos': [str(p) for p in pos], 'rc': [str(F(x)) for x in rc],
            'cc': [str(F(x)) for x in cc], 'spr': str(spr), 'spc': str(spc)}


def _sizes(rng, hi):
    R = rng.randint(1, hi)
    C = rng.randint(1, hi)
    th = rng.choice([1, R, rng.randint(1, hi), max(1, R // 2), R + 1])
    tw = rng.choice([1, C, rng.randint(1, hi), max(1, C // 3), C + 2])
    return R, C, th, tw


def gen_cases(rng, tier):
    cases = []
    cube = {'quick': 5, 'thorough': 12, 'search': 7}[tier]
    nrand = {'quick': 300, 'thorough': 6000, 'search': 3000}[tier]
    hi = 24 if tier == 'quick' else 64
    for R, C, th, tw in itertools.product(range(1, cube + 1), repeat=4):
        cases.append({'kind': 'grid', 'R': R, 'C': C, 'th': th, 'tw': tw})
    for _ in range(nrand):
        R, C, th, tw = _sizes(rng, hi)
        cases.append({'kind': 'grid', 'R': R, 'C': C, 'th': th, 'tw': tw})
    for _ in range(nrand // 3):
        R, C, th, tw = _sizes(rng, 12)
        cases.append(dict(_geom(rng), kind='positions', R=R, C=C, th=th, tw=tw))
    for _ in range(nrand // 4):
        R, C, th, tw = _sizes(rng, 9)
        g = _geom(rng)
        g['pos'] = g['pos'][:2]
        cases.append(dict(g, kind='iter', R=R, C=C, th=th, tw=tw,
                          nch=rng.randint(1, 3), nfp=rng.randint(1, 3),
                          sbs=str(F(rng.randint(1, 20), rng.choice([1, 2, 4]))),
                          seg=rng.choice(['no', 'BINARY', 'LABELMAP']),
                          explicit_paths=rng.random() < 0.5))
    for _ in range(nrand // 3):
        g = _geom(rng)
        g['pos'] = g['pos'][:2]
        bad = rng.random() < 0.15
        ri = rng.randint(1, 30)
        ci = rng.randint(1, 30)
        if bad:
            if rng.random() < 0.5:
                ri = rng.randint(-3, 0)
            else:
                ci = rng.randint(-3, 0)
        sl = None if rng.random() < 0.4 else [rng.randint(1, 5), str(F(rng.randint(1, 20), rng.choice([1, 2, 4])))]
        cases.append(dict(g, kind='ppos_err' if bad else 'ppos', ri=ri, ci=ci,
                          th=rng.randint(1, 40), tw=rng.randint(1, 40), slice=sl))
    for _ in range(nrand // 2):
        R, C, th, tw = _sizes(rng, 10)
        nr, nc = (R - 1) // th + 1, (C - 1) // tw + 1
        ps = [[1 + a * th, 1 + b * tw] for a in range(nr) for b in range(nc)]
        mode = rng.choice(['full', 'full', 'perm', 'hole', 'prefix', 'dup', 'shift', 'colmajor', 'empty',
                           'drop_last', 'drop_last', 'drop_tail', 'drop_last_row', 'extra'])
        if mode == 'perm' and len(ps) > 1:
            i, j = rng.sample(range(len(ps)), 2)
            ps[i], ps[j] = ps[j], ps[i]
        elif mode == 'hole' and len(ps) > 1:
            del ps[rng.randrange(len(ps))]
        elif mode == 'prefix':
            ps = ps[:rng.randint(0, len(ps))]
        elif mode == 'dup':
            ps.insert(rng.randrange(len(ps) + 1), list(rng.choice(ps)))
        elif mode == 'shift':
            k = rng.randrange(len(ps))
            ps[k] = [ps[k][0] + rng.choice([-1, 1]), ps[k][1]]
        elif mode == 'colmajor':
            ps = [[1 + a * th, 1 + b * tw] for b in range(nc) for a in range(nr)]
        elif mode == 'empty':
            ps = []
        elif mode == 'drop_last' and len(ps) > 1:
            ps = ps[:-1]
        elif mode == 'drop_tail' and nc > 1:
            ps = ps[:len(ps) - rng.randint(1, nc - 1)]
        elif mode == 'drop_last_row' and nr > 1:
            ps = ps[:-nc]
        elif mode == 'extra':
            ps = ps + [[ps[-1][0], ps[-1][1] + tw]] if rng.random() < 0.5 else ps + [list(ps[0])]
        cases.append({'kind': 'tiled_full', 'mode': mode, 'ps': ps, 'th': th, 'tw': tw})
    for _ in range(nrand // 2):
        R, C, th, tw = _sizes(rng, 7)
        M = [[rng.randint(0, 9) for _ in range(C)] for _ in range(R)]
        bad = rng.random() < 0.15
        if bad:
            ro, co = rng.choice([(0, 1), (R + 1, 1), (1, 0), (1, C + 1), (-1, 1), (1, -2)])
        else:
            ro = 1 + th * rng.randrange((R - 1) // th + 1) if rng.random() < 0.8 else rng.randint(1, R)
            co = 1 + tw * rng.randrange((C - 1) // tw + 1) if rng.random() < 0.8 else rng.randint(1, C)
        cases.append({'kind': 'tile_array_err' if bad else 'tile_array', 'M': M, 'R': R, 'C': C,
                      'ro': ro, 'co': co, 'th': th, 'tw': tw, 'pad': rng.random() < 0.7})
    cases += _gen_ext(rng, nrand)
    cases += _gen_ext2(rng, nrand)
    return cases


def _gen_ext2(rng, nrand):
    """cases of extension 2: whole integer domain, error propagation, helper over the enumeration,
    per-frame data against the full-tiling test, R x C x S round trip"""
    cases = []
    for _ in range(max(70, nrand // 5)):                      # positions_dom
        g = _geom(rng)
        R, C = rng.choice([-2, -1, 0, 1, 1, 2, 3, 5, 6]), rng.choice([-2, 0, 1, 1, 2, 3, 4, 6])
        th, tw = rng.choice([-3, -2, -1, 0, 1, 2, 3, 4]), rng.choice([-3, -1, 0, 1, 2, 2, 3, 4])
        if rng.random() < 0.35:                               # mostly-valid: negative tiles need a size-1 matrix
            if th < 0:
                R = 1
            if tw < 0:
                C = 1
        c = dict(g, kind='positions_dom', R=R, C=C, th=th, tw=tw, npos=3, nori=6, nsp=2)
        f = rng.random()
        if f < 0.08:
            c[rng.choice(['npos', 'nori', 'nsp'])] += rng.choice([-1, 1])
        elif f < 0.2:
            c[rng.choice(['spr', 'spc'])] = str(F(rng.choice([0, -1]), 1))
        cases.append(c)
    for _ in range(max(70, nrand // 5)):                      # iter_ds_chk
        R, C, th, tw = _sizes(rng, 5)
        g = _geom(rng)
        g['pos'] = g['pos'][:2]
        sop = rng.choice(['wsi', 'wsi', 'seg', 'lmseg', 'other'])
        c = dict(g, kind='iter_ds_chk', R=R, C=C, th=th, tw=tw, sop=sop,
                 dim_org=rng.choice(['TILED_FULL'] * 8 + ['TILED_SPARSE', None]),
                 nfp=rng.choice([None, 0, 1, 2]),
                 segtype=rng.choice(['BINARY', 'LABELMAP']) if sop in ('seg', 'lmseg') else None,
                 nseg=rng.randint(0, 2), nop=rng.choice([None, 0, 1, 2]), len_ops=rng.randint(1, 2),
                 sbs=rng.choice([None, str(F(rng.randint(1, 20), rng.choice([1, 2, 4])))]),
                 zorigin=rng.choice([None, str(F(rng.randint(-40, 40), rng.choice([1, 2, 4])))]))
        for f in rng.choice([['th0'], ['tw0'], ['R0'], ['C0'], ['Rneg'], ['spr'], ['spc'], ['th0', 'spr'], ['R0', 'spc'],
                             ['thneg'], ['twneg', 'C1'], ['thneg', 'R1'], []]):
            if f in ('spr', 'spc'):
                c[f] = str(F(rng.choice([0, -1]), 1))
            else:
                key, val = {'th0': ('th', 0), 'tw0': ('tw', 0), 'R0': ('R', 0), 'C0': ('C', 0), 'Rneg': ('R', -2),
                            'thneg': ('th', -2), 'twneg': ('tw', -1), 'C1': ('C', 1), 'R1': ('R', 1)}[f]
                c[key] = val
        cases.append(c)
    for _ in range(max(50, nrand // 6)):                      # helper_grid
        R, C, th, tw = _sizes(rng, 7)
        g = _geom(rng)
        g['pos'] = g['pos'][:2]
        sl = None if rng.random() < 0.5 else [rng.randint(1, 4), str(F(rng.randint(1, 20), rng.choice([1, 2, 4])))]
        cases.append(dict(g, kind='helper_grid', R=R, C=C, th=th, tw=tw, slice=sl))
    for _ in range(max(60, nrand // 5)):                      # pf_tiled_full
        R, C, th, tw = _sizes(rng, 6)
        g = _geom(rng)
        g['pos'] = g['pos'][:2]
        sop = rng.choice(['wsi', 'wsi', 'seg', 'lmseg', 'lmseg', 'other'])
        cases.append(dict(g, kind='pf_tiled_full', R=R, C=C, th=th, tw=tw, sop=sop,
                          dim_org=rng.choice(['TILED_FULL'] * 9 + ['TILED_SPARSE']),
                          nfp=rng.choice([None, None, 1, 1, 0, 2]),
                          segtype=rng.choice(['BINARY', 'LABELMAP', 'LABELMAP']) if sop in ('seg', 'lmseg') else None,
                          nseg=rng.choice([0, 1, 1, 2]), nop=rng.choice([None, 0, 1, 1, 2]), len_ops=rng.choice([1, 1, 2]),
                          sbs=None, zorigin=None))
    for _ in range(max(70, nrand // 5)):                      # tile_array_py
        R, C = rng.randint(1, 6), rng.randint(1, 6)
        M = [[rng.randint(1, 9) for _ in range(C)] for _ in range(R)]
        ro, co = rng.randint(1, R), rng.randint(1, C)
        if rng.random() < 0.08:
            ro, co = rng.choice([(0, 1), (R + 1, 1), (1, 0), (1, C + 1)])
        cases.append({'kind': 'tile_array_py', 'M': M, 'R': R, 'C': C, 'ro': ro, 'co': co,
                      'th': rng.choice([-8, -3, -2, -1, -1, 0, 1, 2, 3, -R, -R + 1]),
                      'tw': rng.choice([-8, -3, -2, -1, -1, 0, 1, 2, 3, -C, -C + 1]), 'pad': rng.random() < 0.6})
    for _ in range(max(60, nrand // 5)):                      # tiled_full_dom
        th, tw = rng.choice([-2, -1, 0, 1, 2, 3, -1, 2]), rng.choice([-3, -1, 0, 1, 2, 2, 3])
        mode = rng.choice(['grid', 'grid', 'empty', 'empty', 'one', 'neg', 'down'])
        if mode == 'grid':
            ps = [[1 + a * abs(th or 1), 1 + b * abs(tw or 2)] for a in range(rng.randint(1, 3)) for b in range(rng.randint(1, 3))]
        elif mode == 'empty':
            ps = []
        elif mode == 'one':
            ps = [[rng.choice([1, 1, 2]), rng.choice([1, 1, 3])]]
        elif mode == 'neg':
            ps = [[rng.randint(-4, 1), rng.randint(-4, 1)] for _ in range(rng.randint(1, 2))]
        else:                                                 # what a negative step would enumerate
            ps = [[1, 1], [1 + th, 1], [1, 1 + tw]][:rng.randint(1, 3)]
        cases.append({'kind': 'tiled_full_dom', 'mode': mode, 'ps': ps, 'th': th, 'tw': tw})
    for a in (False, True):                                   # is_tiled
        for b in (False, True):
            for d in (False, True):
                cases.append({'kind': 'is_tiled', 'a': a, 'b': b, 'c': d, 'extra': rng.random() < 0.5})
    for _ in range(max(40, nrand // 8)):                      # cut_all_nd
        R, C, th, tw = _sizes(rng, 5)
        S = rng.randint(1, 3)
        M = [[[rng.randint(1, 9) for _ in range(S)] for _ in range(C)] for _ in range(R)]
        cases.append({'kind': 'cut_all_nd', 'M': M, 'R': R, 'C': C, 'S': S, 'th': th, 'tw': tw, 'pad': rng.random() < 0.6})
    return cases


def _gen_ext(rng, nrand):
    """cases of the extension: guards, dataset-level options, further entry points"""
    cases = []
    for _ in range(max(60, nrand // 5)):                      # positions_chk
        R, C, th, tw = _sizes(rng, 8)
        g = _geom(rng)
        c = dict(g, kind='positions_chk', R=R, C=C, th=th, tw=tw, npos=3, nori=6, nsp=2)
        faults = rng.choice([[], ['npos'], ['nori'], ['nsp'], ['th0'], ['tw0'], ['spr'], ['spc'],
                             ['th0', 'spr'], ['tw0', 'th0'], ['nsp', 'tw0'], ['npos', 'nori'], ['nori', 'spc']])
        for f in faults:
            if f in ('npos', 'nori', 'nsp'):
                c[f] = c[f] + rng.choice([-1, 1])
            elif f == 'th0':
                c['th'] = 0
            elif f == 'tw0':
                c['tw'] = 0
            else:
                c[f] = str(F(rng.choice([0, -1, -3]), rng.choice([1, 2])))
        c['faults'] = faults
        cases.append(c)
    for _ in range(max(50, nrand // 6)):                      # affine
        g = _geom(rng)
        pts = [[rng.randint(-5, 40), rng.randint(-5, 40)] for _ in range(rng.randint(1, 5))]
        pts[0] = rng.choice([[0, 0], [1, 0], [0, 1], pts[0]])
        cases.append(dict(g, kind='affine', pts=pts))
    for _ in range(max(80, nrand // 4)):                      # ppos2
        g = _geom(rng)
        g['pos'] = g['pos'][:2]
        ri, ci = rng.randint(1, 20), rng.randint(1, 20)
        mode = rng.choice(['both', 'none', 'only_index', 'only_sbs', 'bad_ri', 'bad_ci', 'bad_sp', 'bad_ri_only_index',
                           'only_sbs_bad_sp', 'only_index', 'only_sbs'])
        both = rng.random() < 0.5
        has_idx, has_sbs = {'both': (True, True), 'none': (False, False), 'only_index': (True, False),
                            'only_sbs': (False, True), 'bad_ri': (both, both), 'bad_ci': (both, both),
                            'bad_sp': (both, both), 'bad_ri_only_index': (True, False),
                            'only_sbs_bad_sp': (False, True)}[mode]
        sidx = rng.randint(1, 5) if has_idx else None
        sbs = str(F(rng.randint(1, 20), rng.choice([1, 2, 4]))) if has_sbs else None
        if mode in ('bad_ri', 'bad_ri_only_index'):
            ri = rng.randint(-2, 0)
        if mode == 'bad_ci':
            ci = rng.randint(-2, 0)
        if mode in ('bad_sp', 'only_sbs_bad_sp'):
            g[rng.choice(['spr', 'spc'])] = str(F(rng.choice([0, -1]), 1))
        cases.append(dict(g, kind='ppos2', mode=mode, ri=ri, ci=ci, th=rng.randint(1, 40), tw=rng.randint(1, 40),
                          sidx=sidx, sbs=sbs))
    for i in range(max(120, nrand // 3)):                     # iter_ds / slide_pf
        R, C, th, tw = _sizes(rng, 7)
        g = _geom(rng)
        g['pos'] = g['pos'][:2]
        sop = rng.choice(['wsi', 'wsi', 'seg', 'seg', 'lmseg', 'other'])
        c = dict(g, kind='iter_ds' if i % 3 else 'slide_pf', R=R, C=C, th=th, tw=tw, sop=sop,
                 dim_org=rng.choice(['TILED_FULL'] * 6 + ['TILED_SPARSE', None]),
                 nfp=rng.choice([None, 1, 2, 3]),
                 segtype=rng.choice(['BINARY', 'FRACTIONAL', 'LABELMAP']) if sop in ('seg', 'lmseg') else None,
                 nseg=rng.randint(0, 3), nop=rng.choice([None, None, 1, 2, 3]), len_ops=rng.randint(1, 3),
                 sbs=rng.choice([None, str(F(rng.randint(1, 20), rng.choice([1, 2, 4])))]),
                 zorigin=rng.choice([None, str(F(rng.randint(-40, 40), rng.choice([1, 2, 4])))]))
        cases.append(c)
    for _ in range(max(60, nrand // 5)):                      # tile_array_nd
        R, C, th, tw = _sizes(rng, 6)
        S = rng.randint(1, 3)
        M = [[[rng.randint(0, 9) for _ in range(S)] for _ in range(C)] for _ in range(R)]
        bad = rng.random() < 0.12
        if bad:
            ro, co = rng.choice([(0, 1), (R + 1, 1), (1, 0), (1, C + 1)])
        else:
            ro = 1 + th * rng.randrange((R - 1) // th + 1) if rng.random() < 0.8 else rng.randint(1, R)
            co = 1 + tw * rng.randrange((C - 1) // tw + 1) if rng.random() < 0.8 else rng.randint(1, C)
        cases.append({'kind': 'tile_array_nd', 'M': M, 'R': R, 'C': C, 'S': S, 'ro': ro, 'co': co, 'th': th, 'tw': tw,
                      'pad': rng.random() < 0.7, 'bad': bad})
    for _ in range(max(60, nrand // 5)):                      # cut_all
        R, C, th, tw = _sizes(rng, 7)
        M = [[rng.randint(1, 9) for _ in range(C)] for _ in range(R)]
        cases.append({'kind': 'cut_all', 'M': M, 'R': R, 'C': C, 'th': th, 'tw': tw, 'pad': rng.random() < 0.75})
    return cases


SOP_UIDS = {'wsi': '1.2.840.10008.5.1.4.1.1.77.1.6', 'seg': '1.2.840.10008.5.1.4.1.1.66.4',
            'lmseg': '1.2.840.10008.5.1.4.1.1.66.7', 'other': '1.2.840.10008.5.1.4.1.1.2'}


def _dataset2(c):
    from pydicom import Dataset
    ds = Dataset()
    ds.SOPClassUID = SOP_UIDS[c['sop']]
    if c['dim_org'] is not None:
        ds.DimensionOrganizationType = c['dim_org']
    o = Dataset()
    o.XOffsetInSlideCoordinateSystem = float(F(c['pos'][0]))
    o.YOffsetInSlideCoordinateSystem = float(F(c['pos'][1]))
    if c['zorigin'] is not None:
        o.ZOffsetInSlideCoordinateSystem = float(F(c['zorigin']))
    ds.TotalPixelMatrixOriginSequence = [o]
    ds.ImageOrientationSlide = _fl(c['rc']) + _fl(c['cc'])
    if c['nfp'] is not None:
        ds.TotalPixelMatrixFocalPlanes = c['nfp']
    if c['sop'] in ('seg', 'lmseg'):
        ds.SegmentationType = c['segtype']
        ds.SegmentSequence = [Dataset() for _ in range(c['nseg'])]
    else:
        if c['nop'] is not None:
            ds.NumberOfOpticalPaths = c['nop']
        ds.OpticalPathSequence = [Dataset() for _ in range(c['len_ops'])]
    pm = Dataset()
    pm.PixelSpacing = [float(F(c['spr'])), float(F(c['spc']))]
    if c['sbs'] is not None:
        pm.SpacingBetweenSlices = float(F(c['sbs']))
    sh = Dataset()
    sh.PixelMeasuresSequence = [pm]
    ds.SharedFunctionalGroupsSequence = [sh]
    ds.Rows, ds.Columns = c['th'], c['tw']
    ds.TotalPixelMatrixRows, ds.TotalPixelMatrixColumns = c['R'], c['C']
    return ds


def _fl(xs):
    return [float(F(x)) for x in xs]


def _dataset(c):
    from pydicom import Dataset
    ds = Dataset()
    seg = c['seg']
    ds.SOPClassUID = ('1.2.840.10008.5.1.4.1.1.77.1.6' if seg == 'no' else
                      '1.2.840.10008.5.1.4.1.1.66.7' if seg == 'LABELMAP' else
                      '1.2.840.10008.5.1.4.1.1.66.4')
    ds.DimensionOrganizationType = 'TILED_FULL'
    o = Dataset()
    o.XOffsetInSlideCoordinateSystem = float(F(c['pos'][0]))
    o.YOffsetInSlideCoordinateSystem = float(F(c['pos'][1]))
    ds.TotalPixelMatrixOriginSequence = [o]
    ds.ImageOrientationSlide = _fl(c['rc']) + _fl(c['cc'])
    ds.TotalPixelMatrixFocalPlanes = c['nfp']
    if seg == 'no':
        if c['explicit_paths']:
            ds.NumberOfOpticalPaths = c['nch']
        ds.OpticalPathSequence = [Dataset() for _ in range(c['nch'])]
    else:
        ds.SegmentationType = seg
        ds.SegmentSequence = [Dataset() for _ in range(c['nch'])]
    pm = Dataset()
    pm.PixelSpacing = [float(F(c['spr'])), float(F(c['spc']))]
    pm.SpacingBetweenSlices = float(F(c['sbs']))
    sh = Dataset()
    sh.PixelMeasuresSequence = [pm]
    ds.SharedFunctionalGroupsSequence = [sh]
    ds.Rows, ds.Columns = c['th'], c['tw']
    ds.TotalPixelMatrixRows, ds.TotalPixelMatrixColumns = c['R'], c['C']
    return ds


def run_impl(c):
    import numpy as np
    from highdicom import spatial, utils
    k = c['kind']
    if k == 'grid':
        tpm = [list(t) for t in spatial.tile_pixel_matrix(c['R'], c['C'], c['th'], c['tw'])]
        offs = [o for o, _ in spatial.compute_tile_positions_per_frame(
            c['th'], c['tw'], c['R'], c['C'], (0.0, 0.0, 0.0), (1, 0, 0, 0, 1, 0), (1.0, 1.0))]
        return [tpm, offs]
    if k == 'positions':
        r = spatial.compute_tile_positions_per_frame(
            c['th'], c['tw'], c['R'], c['C'], _fl(c['pos']), _fl(c['rc']) + _fl(c['cc']),
            (float(F(c['spr'])), float(F(c['spc']))))
        return [[o, p] for o, p in r]
    if k == 'iter':
        ds = _dataset(c)
        return [[ch, fp, col, row, [x, y, z]] for ch, fp, col, row, x, y, z in
                spatial.iter_tiled_full_frame_data(ds)]
    if k in ('ppos', 'ppos_err'):
        def f():
            kw = {}
            if c['slice'] is not None:
                kw = dict(slice_index=c['slice'][0], spacing_between_slices=float(F(c['slice'][1])))
            pp = utils.compute_plane_position_tiled_full(
                row_index=c['ri'], column_index=c['ci'],
                x_offset=float(F(c['pos'][0])), y_offset=float(F(c['pos'][1])),
                rows=c['th'], columns=c['tw'],
                image_orientation=_fl(c['rc']) + _fl(c['cc']),
                pixel_spacing=(float(F(c['spr'])), float(F(c['spc']))), **kw)
            it = pp[0]
            return [[int(it.ColumnPositionInTotalImagePixelMatrix), int(it.RowPositionInTotalImagePixelMatrix)],
                    [float(it.XOffsetInSlideCoordinateSystem), float(it.YOffsetInSlideCoordinateSystem),
                     float(it.ZOffsetInSlideCoordinateSystem)]]
        return catch(f)
    if k == 'tiled_full':
        from pydicom import Dataset
        pps = []
        for r, col in c['ps']:
            d = Dataset()
            d.RowPositionInTotalImagePixelMatrix = r
            d.ColumnPositionInTotalImagePixelMatrix = col
            pps.append([d])
        return bool(utils.are_plane_positions_tiled_full(pps, c['th'], c['tw']))
    if k in ('tile_array', 'tile_array_err'):
        M = np.array(c['M'], dtype=np.int64).reshape(c['R'], c['C'])
        return catch(lambda: spatial.get_tile_array(M, c['ro'], c['co'], c['th'], c['tw'], pad=c['pad']).tolist())
    if k == 'positions_chk':
        pos = (_fl(c['pos']) + [0.0])[:c['npos']]
        ori = (_fl(c['rc']) + _fl(c['cc']) + [0.0])[:c['nori']]
        sp = ([float(F(c['spr'])), float(F(c['spc']))] + [1.0])[:c['nsp']]
        return catch(lambda: [[o, p] for o, p in spatial.compute_tile_positions_per_frame(
            c['th'], c['tw'], c['R'], c['C'], pos, ori, sp)])
    if k == 'affine':
        tr = spatial.PixelToReferenceTransformer(
            image_position=_fl(c['pos']), image_orientation=_fl(c['rc']) + _fl(c['cc']),
            pixel_spacing=(float(F(c['spr'])), float(F(c['spc']))))
        pts = tr(np.array(c['pts'], dtype=np.int64)).tolist()
        one = list(spatial.map_pixel_into_coordinate_system(
            index=tuple(c['pts'][0]), image_position=_fl(c['pos']),
            image_orientation=_fl(c['rc']) + _fl(c['cc']),
            pixel_spacing=(float(F(c['spr'])), float(F(c['spc'])))))
        return [tr.affine.tolist(), pts, [one]]
    if k == 'ppos2':
        def f2():
            kw = {}
            if c['sidx'] is not None:
                kw['slice_index'] = c['sidx']
            if c['sbs'] is not None:
                kw['spacing_between_slices'] = float(F(c['sbs']))
            pp = utils.compute_plane_position_tiled_full(
                row_index=c['ri'], column_index=c['ci'],
                x_offset=float(F(c['pos'][0])), y_offset=float(F(c['pos'][1])),
                rows=c['th'], columns=c['tw'],
                image_orientation=_fl(c['rc']) + _fl(c['cc']),
                pixel_spacing=(float(F(c['spr'])), float(F(c['spc']))), **kw)
            it = pp[0]
            return [[int(it.ColumnPositionInTotalImagePixelMatrix), int(it.RowPositionInTotalImagePixelMatrix)],
                    [float(it.XOffsetInSlideCoordinateSystem), float(it.YOffsetInSlideCoordinateSystem),
                     float(it.ZOffsetInSlideCoordinateSystem)]]
        return catch(f2)
    if k == 'iter_ds':
        ds = _dataset2(c)
        return catch(lambda: [[ch, fp, col, row, [x, y, z]] for ch, fp, col, row, x, y, z in
                              spatial.iter_tiled_full_frame_data(ds)])
    if k == 'slide_pf':
        ds = _dataset2(c)
        return catch(lambda: [[[int(pp[0].ColumnPositionInTotalImagePixelMatrix),
                                int(pp[0].RowPositionInTotalImagePixelMatrix)],
                               [float(pp[0].XOffsetInSlideCoordinateSystem),
                                float(pp[0].YOffsetInSlideCoordinateSystem),
                                float(pp[0].ZOffsetInSlideCoordinateSystem)]]
                              for pp in utils.compute_plane_position_slide_per_frame(ds)])
    if k == 'tile_array_nd':
        M = np.array(c['M'], dtype=np.int64).reshape(c['R'], c['C'], c['S'])
        return catch(lambda: spatial.get_tile_array(M, c['ro'], c['co'], c['th'], c['tw'], pad=c['pad']).tolist())
    if k == 'cut_all':
        M = np.array(c['M'], dtype=np.int64).reshape(c['R'], c['C'])
        offs = [o for o, _ in spatial.compute_tile_positions_per_frame(
            c['th'], c['tw'], c['R'], c['C'], (0.0, 0.0, 0.0), (1, 0, 0, 0, 1, 0), (1.0, 1.0))]
        def cut(ro, co):
            return catch(lambda: spatial.get_tile_array(M, ro, co, c['th'], c['tw'], pad=c['pad']).tolist())
        a = [[[co, ro], cut(ro, co)] for co, ro in offs]
        b = [[[(ci - 1) * c['tw'] + 1, (ri - 1) * c['th'] + 1], cut((ri - 1) * c['th'] + 1, (ci - 1) * c['tw'] + 1)]
             for ci, ri in spatial.tile_pixel_matrix(c['R'], c['C'], c['th'], c['tw'])]
        return [a, b]
    if k == 'positions_dom':
        pos = (_fl(c['pos']) + [0.0])[:c['npos']]
        ori = (_fl(c['rc']) + _fl(c['cc']) + [0.0])[:c['nori']]
        sp = ([float(F(c['spr'])), float(F(c['spc']))] + [1.0])[:c['nsp']]
        return catch(lambda: [[o, p] for o, p in spatial.compute_tile_positions_per_frame(
            c['th'], c['tw'], c['R'], c['C'], pos, ori, sp)])
    if k == 'iter_ds_chk':
        import warnings
        with warnings.catch_warnings():
            warnings.simplefilter('ignore')
            ds = _dataset2(c)
            return catch(lambda: [[ch, fp, col, row, [x, y, z]] for ch, fp, col, row, x, y, z in
                                  spatial.iter_tiled_full_frame_data(ds)])
    if k == 'helper_grid':
        kw = {}
        if c['slice'] is not None:
            kw = dict(slice_index=c['slice'][0], spacing_between_slices=float(F(c['slice'][1])))
        pps, outl = [], []
        for ci, ri in spatial.tile_pixel_matrix(c['R'], c['C'], c['th'], c['tw']):
            def one(ri=ri, ci=ci):
                pp = utils.compute_plane_position_tiled_full(
                    row_index=ri, column_index=ci,
                    x_offset=float(F(c['pos'][0])), y_offset=float(F(c['pos'][1])),
                    rows=c['th'], columns=c['tw'], image_orientation=_fl(c['rc']) + _fl(c['cc']),
                    pixel_spacing=(float(F(c['spr'])), float(F(c['spc']))), **kw)
                pps.append(pp)
                it = pp[0]
                return [[int(it.ColumnPositionInTotalImagePixelMatrix), int(it.RowPositionInTotalImagePixelMatrix)],
                        [float(it.XOffsetInSlideCoordinateSystem), float(it.YOffsetInSlideCoordinateSystem),
                         float(it.ZOffsetInSlideCoordinateSystem)]]
            outl.append(catch(one))
        return [outl, bool(utils.are_plane_positions_tiled_full(pps, c['th'], c['tw']))]
    if k == 'pf_tiled_full':
        ds = _dataset2(c)
        return catch(lambda: bool(utils.are_plane_positions_tiled_full(
            utils.compute_plane_position_slide_per_frame(ds), ds.Rows, ds.Columns)))
    if k == 'tile_array_py':
        M = np.array(c['M'], dtype=np.int64).reshape(c['R'], c['C'])
        return catch(lambda: spatial.get_tile_array(M, c['ro'], c['co'], c['th'], c['tw'], pad=c['pad']).tolist())
    if k == 'tiled_full_dom':
        from pydicom import Dataset
        pps = []
        for r, col in c['ps']:
            d = Dataset()
            d.RowPositionInTotalImagePixelMatrix = r
            d.ColumnPositionInTotalImagePixelMatrix = col
            pps.append([d])
        return catch(lambda: bool(utils.are_plane_positions_tiled_full(pps, c['th'], c['tw'])))
    if k == 'is_tiled':
        from pydicom import Dataset
        ds = Dataset()
        if c['a']:
            ds.TotalPixelMatrixRows = 4
        if c['b']:
            ds.TotalPixelMatrixColumns = 4
        if c['c']:
            ds.NumberOfFrames = 1
        if c['extra']:
            ds.Rows, ds.Columns = 2, 2
        return bool(spatial.is_tiled_image(ds))
    if k == 'cut_all_nd':
        M = np.array(c['M'], dtype=np.int64).reshape(c['R'], c['C'], c['S'])
        offs = [o for o, _ in spatial.compute_tile_positions_per_frame(
            c['th'], c['tw'], c['R'], c['C'], (0.0, 0.0, 0.0), (1, 0, 0, 0, 1, 0), (1.0, 1.0))]
        return [[[co, ro], catch(lambda ro=ro, co=co: spatial.get_tile_array(
            M, ro, co, c['th'], c['tw'], pad=c['pad']).tolist())] for co, ro in offs]
    raise ValueError(k)


def _v3(xs):
    a, b, cc = (qlit(F(x)) for x in xs)
    return f'(V3 {a} {b} {cc})'


def coq_term(c):
    k = c['kind']
    s = f"{zlit(c.get('R', 0))} {zlit(c.get('C', 0))} {zlit(c.get('th', 0))} {zlit(c.get('tw', 0))}"
    if k == 'grid':
        return f'(VL [run_tpm {s}; VL (map vpairz (tile_offsets {s}))])'
    if k == 'positions':
        return (f"(run_positions {s} {_v3(c['pos'])} {_v3(c['rc'])} {_v3(c['cc'])} "
                f"{qlit(F(c['spr']))} {qlit(F(c['spc']))})")
    if k == 'iter':
        nch = 1 if c['seg'] == 'LABELMAP' else c['nch']
        lm = 'true' if c['seg'] == 'LABELMAP' else 'false'
        t = (f"(run_iter {lm} {nch} {c['nfp']} {s} {qlit(F(c['pos'][0]))} {qlit(F(c['pos'][1]))} "
             f"{_v3(c['rc'])} {_v3(c['cc'])} {qlit(F(c['spr']))} {qlit(F(c['spc']))} {qlit(F(c['sbs']))})")
        return t
    if k in ('ppos', 'ppos_err'):
        sl = 'None' if c['slice'] is None else f"(Some ({zlit(c['slice'][0])}, {qlit(F(c['slice'][1]))}))"
        return (f"(run_ppos {zlit(c['ri'])} {zlit(c['ci'])} {qlit(F(c['pos'][0]))} {qlit(F(c['pos'][1]))} "
                f"{zlit(c['th'])} {zlit(c['tw'])} {_v3(c['rc'])} {_v3(c['cc'])} "
                f"{qlit(F(c['spr']))} {qlit(F(c['spc']))} {sl})")
    if k == 'tiled_full':
        ps = '[' + '; '.join(f'({zlit(r)}, {zlit(cc)})' for r, cc in c['ps']) + ']'
        # the statement-by-statement model (proved equal to the abstract one: C12_tiled_full_code_refines)
        return f"(run_tiled_full_code {ps} {zlit(c['th'])} {zlit(c['tw'])})"
    if k in ('tile_array', 'tile_array_err'):
        return (f"(run_tile_array {zll(c['M'])} {zlit(c['R'])} {zlit(c['C'])} {zlit(c['ro'])} {zlit(c['co'])} "
                f"{zlit(c['th'])} {zlit(c['tw'])} {'true' if c['pad'] else 'false'})")
    if k == 'positions_chk':
        return (f"(run_positions_chk {zlit(c['npos'])} {zlit(c['nori'])} {zlit(c['nsp'])} {s} {_v3(c['pos'])} "
                f"{_v3(c['rc'])} {_v3(c['cc'])} {qlit(F(c['spr']))} {qlit(F(c['spc']))})")
    if k == 'affine':
        geo = f"{_v3(c['pos'])} {_v3(c['rc'])} {_v3(c['cc'])} {qlit(F(c['spr']))} {qlit(F(c['spc']))}"
        pts = '[' + '; '.join(f'({zlit(a)}, {zlit(b)})' for a, b in c['pts']) + ']'
        p0 = f"[({zlit(c['pts'][0][0])}, {zlit(c['pts'][0][1])})]"
        return f'(VL [run_affine {geo}; run_affine_apply {geo} {pts}; run_affine_apply {geo} {p0}])'
    if k == 'ppos2':
        sidx = 'None' if c['sidx'] is None else f"(Some {zlit(c['sidx'])})"
        sbs = 'None' if c['sbs'] is None else f"(Some {qlit(F(c['sbs']))})"
        return (f"(run_ppos2 {zlit(c['ri'])} {zlit(c['ci'])} {qlit(F(c['pos'][0]))} {qlit(F(c['pos'][1]))} "
                f"{zlit(c['th'])} {zlit(c['tw'])} {_v3(c['rc'])} {_v3(c['cc'])} "
                f"{qlit(F(c['spr']))} {qlit(F(c['spc']))} {sidx} {sbs})")
    if k in ('iter_ds', 'slide_pf', 'iter_ds_chk', 'pf_tiled_full'):
        def oz(v):
            return 'None' if v is None else f'(Some {zlit(v)})'

        def oq(v):
            return 'None' if v is None else f'(Some {qlit(F(v))})'
        sop = {'wsi': 'SC_WSI', 'seg': 'SC_SEG', 'lmseg': 'SC_LABELMAP_SEG', 'other': 'SC_OTHER'}[c['sop']]
        dim = 'None' if c['dim_org'] is None else ('(Some true)' if c['dim_org'] == 'TILED_FULL' else '(Some false)')
        d = (f"(TFD {sop} {dim} {oz(c['nfp'])} {'true' if c['segtype'] == 'LABELMAP' else 'false'} {zlit(c['nseg'])} "
             f"{oz(c['nop'])} {zlit(c['len_ops'])} {oq(c['sbs'])} {oq(c['zorigin'])} {s} "
             f"{qlit(F(c['pos'][0]))} {qlit(F(c['pos'][1]))} {_v3(c['rc'])} {_v3(c['cc'])} "
             f"{qlit(F(c['spr']))} {qlit(F(c['spc']))})")
        fn = {'iter_ds': 'run_iter_ds', 'slide_pf': 'run_slide_per_frame', 'iter_ds_chk': 'run_iter_ds_chk',
              'pf_tiled_full': 'run_pf_tiled_full'}[k]
        return f"({fn} {d})"
    if k == 'tile_array_nd':
        M = '[' + '; '.join(zll(row) for row in c['M']) + ']'
        return (f"(run_tile_array_nd {zlit(c['S'])} {M} {zlit(c['R'])} {zlit(c['C'])} {zlit(c['ro'])} {zlit(c['co'])} "
                f"{zlit(c['th'])} {zlit(c['tw'])} {'true' if c['pad'] else 'false'})")
    if k == 'cut_all':
        t = f"(run_cut_all {zll(c['M'])} {s} {'true' if c['pad'] else 'false'})"
        return f'(VL [{t}; {t}])'
    if k == 'positions_dom':
        return (f"(run_positions_dom {zlit(c['npos'])} {zlit(c['nori'])} {zlit(c['nsp'])} {s} {_v3(c['pos'])} "
                f"{_v3(c['rc'])} {_v3(c['cc'])} {qlit(F(c['spr']))} {qlit(F(c['spc']))})")
    if k == 'helper_grid':
        sl = 'None' if c['slice'] is None else f"(Some ({zlit(c['slice'][0])}, {qlit(F(c['slice'][1]))}))"
        return (f"(run_helper_positions {s} {qlit(F(c['pos'][0]))} {qlit(F(c['pos'][1]))} {_v3(c['rc'])} {_v3(c['cc'])} "
                f"{qlit(F(c['spr']))} {qlit(F(c['spc']))} {sl})")
    if k == 'tile_array_py':
        return (f"(run_tile_array_py {zll(c['M'])} {zlit(c['R'])} {zlit(c['C'])} {zlit(c['ro'])} {zlit(c['co'])} "
                f"{zlit(c['th'])} {zlit(c['tw'])} {'true' if c['pad'] else 'false'})")
    if k == 'tiled_full_dom':
        ps = '[' + '; '.join(f'({zlit(r)}, {zlit(cc)})' for r, cc in c['ps']) + ']'
        return f"(run_tiled_full_dom {ps} {zlit(c['th'])} {zlit(c['tw'])})"
    if k == 'is_tiled':
        return '(run_is_tiled %s %s %s)' % tuple('true' if c[x] else 'false' for x in 'abc')
    if k == 'cut_all_nd':
        M = '[' + '; '.join(zll(row) for row in c['M']) + ']'
        return f"(run_cut_all_nd {zlit(c['S'])} {M} {s} {'true' if c['pad'] else 'false'})"
    raise ValueError(k)


def _close(a, b):
    return abs(a - b) <= 1e-9 * (1 + abs(b))


def _ref_pos(c, col0, row0, z=None):
    pos = [float(F(x)) for x in c['pos']]
    if z is not None:
        pos = pos[:2] + [z]
    rc, cc = _fl(c['rc']), _fl(c['cc'])
    spr, spc = float(F(c['spr'])), float(F(c['spc']))
    return [pos[i] + col0 * spc * rc[i] + row0 * spr * cc[i] for i in range(3)]


def _check_grid_list(offs, R, C, th, tw):
    """offs: 1-based (col, row) offsets; the property, by direct counting."""
    nr, nc = -(-R // th), -(-C // tw)
    if len(offs) != nr * nc:
        return f'{len(offs)} tiles, expected {nr}x{nc}'
    want = [[1 + b * tw, 1 + a * th] for a in range(nr) for b in range(nc)]
    if [list(o) for o in offs] != want:
        return f'offsets {offs[:6]}.. are not the row-major grid {want[:6]}..'
    cover = [[0] * C for _ in range(R)]
    for co, ro in offs:
        for r in range(ro - 1, min(ro - 1 + th, R)):
            for cc in range(co - 1, min(co - 1 + tw, C)):
                cover[r][cc] += 1
    if any(x != 1 for row in cover for x in row):
        return 'some pixel is not covered exactly once'
    return None


def oracle(c, out):
    k = c['kind']
    if k == 'grid':
        tpm, offs = out
        R, C, th, tw = c['R'], c['C'], c['th'], c['tw']
        m = _check_grid_list(offs, R, C, th, tw)
        if m:
            return 'compute_tile_positions_per_frame: ' + m
        m = _check_grid_list([[(ci - 1) * tw + 1, (ri - 1) * th + 1] for ci, ri in tpm], R, C, th, tw)
        if m:
            return 'tile_pixel_matrix: ' + m
        return None
    if k == 'positions':
        m = _check_grid_list([o for o, _ in out], c['R'], c['C'], c['th'], c['tw'])
        if m:
            return m
        for (co, ro), p in out:
            ref = _ref_pos(c, co - 1, ro - 1)
            if not all(_close(a, b) for a, b in zip(p, ref)):
                return f'position of tile at offset {(co, ro)} is {p}, transform gives {ref}'
        # distinct tiles, distinct positions (C12_positions_identify_tiles)
        if len({tuple(round(x, 7) for x in p) for _, p in out}) != len(out):
            return 'two different tiles are reported at the same physical position'
        return None
    if k == 'iter':
        chans = [None] if c['seg'] == 'LABELMAP' else list(range(1, c['nch'] + 1))
        n_grid = -(-c['R'] // c['th']) * -(-c['C'] // c['tw'])
        if len(out) != len(chans) * c['nfp'] * n_grid:
            return f'{len(out)} frames, expected {len(chans)}x{c["nfp"]}x{n_grid}'
        i = 0
        for ch in chans:
            for fp in range(1, c['nfp'] + 1):
                block = out[i:i + n_grid]
                i += n_grid
                if any(b[0] != ch or b[1] != fp for b in block):
                    return f'channel/focal plane order wrong in block {ch},{fp}'
                m = _check_grid_list([[b[2], b[3]] for b in block], c['R'], c['C'], c['th'], c['tw'])
                if m:
                    return m
                for b in block:
                    ref = _ref_pos(c, b[2] - 1, b[3] - 1, z=(fp - 1) * float(F(c['sbs'])))
                    if not all(_close(x, y) for x, y in zip(b[4], ref)):
                        return f'position {b[4]} vs transform {ref}'
        return None
    if k == 'ppos':
        if isinstance(out, Err):
            return f'valid indices refused: {out}'
        (co, ro), p = out
        if co != (c['ci'] - 1) * c['tw'] + 1 or ro != (c['ri'] - 1) * c['th'] + 1:
            return f'offset {(co, ro)} is not a multiple of the tile size'
        z = 0.0 if c['slice'] is None else (c['slice'][0] - 1) * float(F(c['slice'][1]))
        ref = _ref_pos(c, co - 1, ro - 1, z=z)
        if not all(_close(a, b) for a, b in zip(p, ref)):
            return f'position {p} vs transform {ref}'
        return None
    if k == 'ppos_err':
        return None if isinstance(out, Err) else 'non-positive tile index accepted'
    if k == 'tiled_full':
        ps, th, tw = c['ps'], c['th'], c['tw']
        if not ps:
            want = True   # the empty list is the (empty) grid of its own extent
        else:
            mr, mc = max(p[0] for p in ps), max(p[1] for p in ps)
            want = ps == [[r, cc] for r in range(1, mr + 1, th) for cc in range(1, mc + 1, tw)]
        return None if out == want else f'are_plane_positions_tiled_full={out}, expected {want} ({c["mode"]})'
    if k == 'tile_array':
        if isinstance(out, Err):
            return f'valid offset refused: {out}'
        R, C, th, tw, ro, co = c['R'], c['C'], c['th'], c['tw'], c['ro'], c['co']
        M = c['M']
        nr = th if c['pad'] else min(th, R - ro + 1)
        nc = tw if c['pad'] else min(tw, C - co + 1)
        if len(out) != nr or any(len(r) != nc for r in out):
            return f'tile shape {len(out)}x{len(out[0]) if out else 0}, expected {nr}x{nc}'
        for a in range(nr):
            for b in range(nc):
                r, cc = ro - 1 + a, co - 1 + b
                want = M[r][cc] if r < R and cc < C else 0
                if out[a][b] != want:
                    return f'tile cell {(a, b)} = {out[a][b]}, matrix/pad value {want}'
        return None
    if k == 'tile_array_err':
        return None if isinstance(out, Err) else 'out-of-matrix offset accepted'
    if k == 'positions_chk':
        bad_len = c['npos'] != 3 or c['nori'] != 6 or c['nsp'] != 2
        zero = c['th'] == 0 or c['tw'] == 0
        bad_sp = F(c['spr']) <= 0 or F(c['spc']) <= 0
        if bad_len or zero or bad_sp:
            want = 'ValueError' if bad_len else ('ZeroDivisionError' if zero else 'ValueError')
            if not isinstance(out, Err):
                return f'invalid arguments ({c["faults"]}) accepted'
            return None if str(out.kind) == want else f'{out} raised, expected {want} ({c["faults"]})'
        if isinstance(out, Err):
            return f'valid arguments refused: {out}'
        return oracle(dict(c, kind='positions'), out)
    if k == 'affine':
        A, pts, one = out
        pos, rc, cc = _fl(c['pos']), _fl(c['rc']), _fl(c['cc'])
        spr, spc = float(F(c['spr'])), float(F(c['spc']))
        n = [rc[1] * cc[2] - rc[2] * cc[1], rc[2] * cc[0] - rc[0] * cc[2], rc[0] * cc[1] - rc[1] * cc[0]]
        want = [[rc[i] * spc, cc[i] * spr, n[i], pos[i]] for i in range(3)] + [[0.0, 0.0, 0.0, 1.0]]
        if len(A) != 4 or any(len(r) != 4 for r in A) or \
                not all(_close(a, b) for ra, rb in zip(A, want) for a, b in zip(ra, rb)):
            return f'affine matrix {A} is not [row cosines*spacing | column cosines*spacing | normal | position] {want}'
        if len(pts) != len(c['pts']):
            return f'{len(pts)} transformed points for {len(c["pts"])} indices'
        for (ci, ri), p in zip(c['pts'] + [c['pts'][0]], pts + one):
            ref = _ref_pos(c, ci, ri)
            if len(p) != 3 or not all(_close(a, b) for a, b in zip(p, ref)):
                return f'pixel index {(ci, ri)} mapped to {p}, transform gives {ref}'
        return None
    if k == 'ppos2':
        bad_idx = c['ri'] < 1 or c['ci'] < 1
        one_sided = (c['sidx'] is None) != (c['sbs'] is None)
        bad_sp = F(c['spr']) <= 0 or F(c['spc']) <= 0
        want = 'ValueError' if bad_idx else 'TypeError' if one_sided else 'ValueError' if bad_sp else None
        if want is not None:
            if not isinstance(out, Err):
                return f'invalid call ({c["mode"]}) accepted'
            return None if str(out.kind) == want else f'{out} raised, expected {want} ({c["mode"]})'
        return oracle(dict(c, kind='ppos', slice=None if c['sidx'] is None else [c['sidx'], c['sbs']]), out)
    if k in ('iter_ds', 'slide_pf'):
        if c['sop'] == 'other' or c['dim_org'] != 'TILED_FULL':
            if not isinstance(out, Err):
                return 'dataset that is not a TILED_FULL slide image / segmentation accepted'
            return None if str(out.kind) == 'ValueError' else f'{out} raised, expected ValueError'
        if isinstance(out, Err):
            return f'valid dataset refused: {out}'
        if c['sop'] in ('seg', 'lmseg'):
            chans = [None] if c['segtype'] == 'LABELMAP' else list(range(1, c['nseg'] + 1))
        else:
            chans = list(range(1, (c['nop'] if c['nop'] is not None else c['len_ops']) + 1))
        nfp = 1 if c['nfp'] is None else c['nfp']
        sbs = 1.0 if c['sbs'] is None else float(F(c['sbs']))
        z0 = 0.0 if c['zorigin'] is None else float(F(c['zorigin']))
        n_grid = -(-c['R'] // c['th']) * -(-c['C'] // c['tw'])
        if len(out) != len(chans) * nfp * n_grid:
            return f'{len(out)} frames, expected {len(chans)}x{nfp}x{n_grid}'
        i = 0
        for ch in chans:
            for fp in range(1, nfp + 1):
                block = out[i:i + n_grid]
                i += n_grid
                if k == 'iter_ds':
                    if any(b[0] != ch or b[1] != fp for b in block):
                        return f'channel/focal plane order wrong in block {ch},{fp}'
                    block = [[[b[2], b[3]], b[4]] for b in block]
                m = _check_grid_list([b[0] for b in block], c['R'], c['C'], c['th'], c['tw'])
                if m:
                    return m
                for (co, ro), p in block:
                    ref = _ref_pos(c, co - 1, ro - 1, z=z0 + (fp - 1) * sbs)
                    if not all(_close(x, y) for x, y in zip(p, ref)):
                        return f'position {p} of tile {(co, ro)} in plane {fp} vs transform {ref}'
        return None
    if k == 'tile_array_nd':
        if c['bad']:
            return None if isinstance(out, Err) and str(out.kind) == 'ValueError' else 'out-of-matrix offset accepted'
        if isinstance(out, Err):
            return f'valid offset refused: {out}'
        R, C, th, tw, ro, co, S = c['R'], c['C'], c['th'], c['tw'], c['ro'], c['co'], c['S']
        nr = th if c['pad'] else min(th, R - ro + 1)
        nc = tw if c['pad'] else min(tw, C - co + 1)
        if len(out) != nr or any(len(r) != nc for r in out) or any(len(p) != S for r in out for p in r):
            return f'tile shape is not {nr}x{nc}x{S}'
        for a in range(nr):
            for b in range(nc):
                r, cc = ro - 1 + a, co - 1 + b
                want = c['M'][r][cc] if r < R and cc < C else [0] * S
                if out[a][b] != want:
                    return f'tile pixel {(a, b)} = {out[a][b]}, matrix/pad value {want}'
        return None
    if k == 'cut_all':
        R, C, th, tw = c['R'], c['C'], c['th'], c['tw']
        for name, tiles in zip(('compute_tile_positions_per_frame', 'tile_pixel_matrix'), out):
            m = _check_grid_list([o for o, _ in tiles], R, C, th, tw)
            if m:
                return f'{name}: {m}'
            buf = [[0] * C for _ in range(R)]
            hits = [[0] * C for _ in range(R)]
            for (co, ro), T in tiles:
                if isinstance(T, Err):
                    return f'{name}: the tile at grid offset {(co, ro)} cannot be cut: {T}'
                nr = th if c['pad'] else min(th, R - ro + 1)
                nc = tw if c['pad'] else min(tw, C - co + 1)
                if len(T) != nr or any(len(r) != nc for r in T):
                    return f'{name}: tile at {(co, ro)} has shape {len(T)}x{len(T[0]) if T else 0}, expected {nr}x{nc}'
                for a in range(nr):
                    for b in range(nc):
                        r, cc = ro - 1 + a, co - 1 + b
                        if r < R and cc < C:
                            buf[r][cc] = T[a][b]
                            hits[r][cc] += 1
                        elif T[a][b] != 0:
                            return f'{name}: out-of-matrix part of tile {(co, ro)} is not zero'
            if buf != c['M']:
                return f'{name}: pasting the tiles back does not reproduce the matrix'
            if any(h != 1 for row in hits for h in row):
                return f'{name}: some pixel is not written exactly once'
        return None
    if k == 'positions_dom':
        return _oracle_positions_dom(c, out)
    if k == 'iter_ds_chk':
        if c['sop'] == 'other' or c['dim_org'] != 'TILED_FULL':
            return None if isinstance(out, Err) and str(out.kind) == 'ValueError' else \
                'dataset that is not a TILED_FULL slide image / segmentation accepted'
        if c['sop'] in ('seg', 'lmseg'):
            chans = [None] if c['segtype'] == 'LABELMAP' else list(range(1, c['nseg'] + 1))
        else:
            chans = list(range(1, (c['nop'] if c['nop'] is not None else c['len_ops']) + 1))
        nfp = 1 if c['nfp'] is None else c['nfp']
        if not chans or nfp <= 0:
            return None if out == [] else f'no channel or focal plane, yet {out} produced'
        want = _dom_error(dict(c, npos=3, nori=6, nsp=2))
        if want is not None:
            if not isinstance(out, Err):
                return f'sizes / spacings for which the tiling is undefined accepted (expected {want})'
            return None if str(out.kind) == want else f'{out} raised, expected {want}'
        if isinstance(out, Err):
            return f'valid dataset refused: {out}'
        sbs = 1.0 if c['sbs'] is None else float(F(c['sbs']))
        z0 = 0.0 if c['zorigin'] is None else float(F(c['zorigin']))
        grid = _dom_grid(c)
        if len(out) != len(chans) * nfp * len(grid):
            return f'{len(out)} frames, expected {len(chans)}x{nfp}x{len(grid)}'
        i = 0
        for ch in chans:
            for fp in range(1, nfp + 1):
                block = out[i:i + len(grid)]
                i += len(grid)
                if any(b[0] != ch or b[1] != fp for b in block):
                    return f'channel/focal plane order wrong in block {ch},{fp}'
                if [[b[2], b[3]] for b in block] != grid:
                    return f'offsets of block {ch},{fp} are not the row-major grid {grid[:6]}'
                for b in block:
                    ref = _ref_pos(c, b[2] - 1, b[3] - 1, z=z0 + (fp - 1) * sbs)
                    if not all(_close(x, y) for x, y in zip(b[4], ref)):
                        return f'position {b[4]} vs transform {ref}'
        return None
    if k == 'helper_grid':
        outl, accepted = out
        for t in outl:
            if isinstance(t, Err):
                return f'an index pair enumerated by tile_pixel_matrix is refused by the single-tile helper: {t}'
        m = _check_grid_list([t[0] for t in outl], c['R'], c['C'], c['th'], c['tw'])
        if m:
            return 'single-tile helper over tile_pixel_matrix: ' + m
        z = 0.0 if c['slice'] is None else (c['slice'][0] - 1) * float(F(c['slice'][1]))
        for (co, ro), p in outl:
            ref = _ref_pos(c, co - 1, ro - 1, z=z)
            if not all(_close(a, b) for a, b in zip(p, ref)):
                return f'position {p} of tile {(co, ro)} vs transform {ref}'
        if accepted is not True:
            return 'the plane positions of the complete enumeration are refused by are_plane_positions_tiled_full'
        return None
    if k == 'pf_tiled_full':
        if c['sop'] == 'other' or c['dim_org'] != 'TILED_FULL':
            return None if isinstance(out, Err) and str(out.kind) == 'ValueError' else \
                'dataset that is not a TILED_FULL slide image / segmentation accepted'
        if isinstance(out, Err):
            return f'valid dataset refused: {out}'
        if c['sop'] in ('seg', 'lmseg'):
            nch = 1 if c['segtype'] == 'LABELMAP' else c['nseg']
        else:
            nch = c['nop'] if c['nop'] is not None else c['len_ops']
        nfp = 1 if c['nfp'] is None else c['nfp']
        want = max(nch, 0) * max(nfp, 0) <= 1
        return None if out == want else (f'{nch} channel(s) x {nfp} focal plane(s) of the grid: '
                                         f'are_plane_positions_tiled_full={out}, expected {want}')
    if k == 'tile_array_py':
        R, C, th, tw, ro, co = c['R'], c['C'], c['th'], c['tw'], c['ro'], c['co']
        if ro < 1 or ro > R or co < 1 or co > C:
            return None if isinstance(out, Err) and str(out.kind) == 'ValueError' else 'out-of-matrix offset accepted'
        if isinstance(out, Err):
            return f'valid offset refused: {out}'
        if th >= 1 and tw >= 1:
            return oracle(dict(c, kind='tile_array'), out)
        # a non-positive size: plain Python list slicing is the reference (no padding can be due on that axis)
        re_, ce = min(ro - 1 + th, R), min(co - 1 + tw, C)
        want = [row[co - 1:ce] for row in c['M'][ro - 1:re_]]
        if c['pad']:
            want = [row + [0] * max(co - 1 + tw - C, 0) for row in want]
            want += [[0] * (len(want[0]) if want else 0) for _ in range(max(ro - 1 + th - R, 0))]
        if [list(r) for r in out] != want:
            return f'tile {out}, Python slicing gives {want}'
        return None
    if k == 'tiled_full_dom':
        ps, th, tw = c['ps'], c['th'], c['tw']
        if th == 0 or tw == 0:
            return None if isinstance(out, Err) and str(out.kind) == 'ValueError' else \
                f'tile size 0 accepted by the full-tiling test: {out}'
        if isinstance(out, Err):
            return f'non-zero tile sizes refused: {out}'
        if th < 0 or tw < 0:
            # no tiling has a negative tile size: nothing but (vacuously, one axis) the empty list may pass
            want = (not ps) and not (th < 0 and tw < 0)
        else:
            mr, mc = max([-1] + [p[0] for p in ps]), max([-1] + [p[1] for p in ps])
            want = ps == [[r, cc] for r in range(1, mr + 1, th) for cc in range(1, mc + 1, tw)]
        return None if out == want else f'are_plane_positions_tiled_full={out}, expected {want} ({c["mode"]})'
    if k == 'is_tiled':
        want = c['a'] and c['b'] and c['c']
        return None if out == want else f'is_tiled_image={out} with attributes present {(c["a"], c["b"], c["c"])}'
    if k == 'cut_all_nd':
        R, C, S, th, tw = c['R'], c['C'], c['S'], c['th'], c['tw']
        m = _check_grid_list([o for o, _ in out], R, C, th, tw)
        if m:
            return m
        buf = [[None] * C for _ in range(R)]
        for (co, ro), T in out:
            if isinstance(T, Err):
                return f'the tile at grid offset {(co, ro)} cannot be cut: {T}'
            nr = th if c['pad'] else min(th, R - ro + 1)
            nc = tw if c['pad'] else min(tw, C - co + 1)
            if len(T) != nr or any(len(r) != nc for r in T) or any(len(p) != S for r in T for p in r):
                return f'tile at {(co, ro)} is not {nr}x{nc}x{S}'
            for a in range(nr):
                for b in range(nc):
                    r, cc = ro - 1 + a, co - 1 + b
                    if r < R and cc < C:
                        if buf[r][cc] is not None:
                            return f'pixel {(r, cc)} written twice'
                        buf[r][cc] = T[a][b]
                    elif any(T[a][b]):
                        return f'out-of-matrix part of tile {(co, ro)} is not zero'
        return None if buf == c['M'] else 'pasting the tiles back does not reproduce the array'
    return f'unknown kind {k}'


def _dom_error(c):
    """exception class compute_tile_positions_per_frame must raise on these arguments (None: it must succeed)"""
    if c['npos'] != 3 or c['nori'] != 6 or c['nsp'] != 2:
        return 'ValueError'
    if c['th'] == 0 or c['tw'] == 0:
        return 'ZeroDivisionError'
    if F(c['spr']) <= 0 or F(c['spc']) <= 0:
        return 'ValueError'
    if (c['R'] - 1) // c['th'] + 1 <= 0 or (c['C'] - 1) // c['tw'] + 1 <= 0:
        return 'TypeError'         # an empty grid: there is no tiling to describe
    return None


def _dom_grid(c):
    nr, nc = (c['R'] - 1) // c['th'] + 1, (c['C'] - 1) // c['tw'] + 1
    return [[1 + b * c['tw'], 1 + a * c['th']] for a in range(nr) for b in range(nc)]


def _oracle_positions_dom(c, out):
    want = _dom_error(c)
    if want is not None:
        if not isinstance(out, Err):
            return f'arguments for which the tiling is undefined accepted (expected {want})'
        return None if str(out.kind) == want else f'{out} raised, expected {want}'
    if isinstance(out, Err):
        return f'valid arguments refused: {out}'
    if min(c['R'], c['C'], c['th'], c['tw']) >= 1:
        return oracle(dict(c, kind='positions'), out)
    grid = _dom_grid(c)
    if [list(o) for o, _ in out] != grid:
        return f'offsets {[o for o, _ in out][:6]} are not the grid {grid[:6]}'
    for (co, ro), p in out:
        ref = _ref_pos(c, co - 1, ro - 1)
        if not all(_close(a, b) for a, b in zip(p, ref)):
            return f'position of tile at offset {(co, ro)} is {p}, transform gives {ref}'
    return None


def nontrivial(c, out):
    k = c['kind']
    if k == 'grid':
        return len(out[0]) > 1
    if k in ('positions', 'iter'):
        return len(out) > 1
    if k == 'tiled_full':
        return len(c['ps']) > 1
    if k in ('tile_array', 'tile_array_nd', 'cut_all', 'cut_all_nd', 'tile_array_py'):
        return c['R'] * c['C'] > 1
    if k == 'helper_grid':
        return len(out[0]) > 1
    if k in ('iter_ds', 'slide_pf'):
        return isinstance(out, Err) or len(out) > 1
    return True


def shrink(c):
    for key in ('R', 'C', 'th', 'tw', 'nch', 'nfp', 'ri', 'ci'):
        if key in c and isinstance(c[key], int) and c[key] > 1 and c['kind'] not in ('tile_array', 'tile_array_err', 'tiled_full', 'tile_array_nd', 'cut_all', 'tile_array_py', 'cut_all_nd'):
            yield dict(c, **{key: c[key] - 1})
            yield dict(c, **{key: 1})
    if c['kind'] == 'tiled_full' and len(c['ps']) > 1:
        for i in range(len(c['ps'])):
            yield dict(c, ps=c['ps'][:i] + c['ps'][i + 1:])


def extra_obligations(work):
    # T-int: the integer helpers this model mirrors, re-translated from the current source
    import translate_int
    return translate_int.obligations(work, translate_int.FOR['C12'])


if __name__ == '__main__':
    sys.exit(common.main(sys.modules[__name__]))
