"""C12 - all tiling helpers describe one and the same tiling.

Implementation functions driven (real code from /repo/src):
  spatial.tile_pixel_matrix, spatial.compute_tile_positions_per_frame,
  spatial.iter_tiled_full_frame_data, spatial.get_tile_array,
  utils.compute_plane_position_tiled_full, utils.are_plane_positions_tiled_full
Model: coq/theories/C12_Model.v; theorems: C12_Props.v.
"""
import itertools
import os
import sys
from fractions import Fraction as F

sys.path.insert(0, os.path.dirname(os.path.abspath(__file__)))
import common
from common import Err, catch, zlit, qlit, zl, zll

PROPERTY = 'C12'
PROPS_FILE = 'C12_Props.v'
COQ_IMPORTS = ['C12_Model']
TOL = F(1, 10**9)
ORACLE_PREMISES = [
    'float64 arithmetic of numpy stays within 1e-9 relative of the exact rational model (positions)',
    'int(np.ceil(a / b)) equals integer ceil-division for the sizes explored (< 2^53)',
]
MODELLED = ('spatial.tile_pixel_matrix, get_tile_array, compute_tile_positions_per_frame, '
            'iter_tiled_full_frame_data; utils.compute_plane_position_tiled_full, '
            'are_plane_positions_tiled_full (PlanePositionSequence construction and the '
            'PixelToReferenceTransformer are modelled as the affine formula, exercised not proved)')
STRATA = ['grid', 'positions', 'iter', 'ppos', 'ppos_err', 'tiled_full', 'tile_array', 'tile_array_err']
RULE = ('grid: exhaustive cube of (R,C,th,tw) up to a bound + random up to 24 (64 in thorough); '
        'positions/iter: random rational orientations (signed axis permutations, Pythagorean), dyadic '
        'spacings and origins; tiled_full: complete grids, permutations, holes, prefixes, duplicates; '
        'tile_array: every tile of random matrices, padded or not, plus out-of-range offsets. '
        'non-trivial = more than one tile (or a rejected/negative answer); distinct by case hash')
EXHAUSTIVE = {'quick': False, 'thorough': False}

ORIENTS = []
_ax = [(1, 0, 0), (0, 1, 0), (0, 0, 1)]
for i, j in itertools.permutations(range(3), 2):
    for si in (1, -1):
        for sj in (1, -1):
            ORIENTS.append((tuple(si * x for x in _ax[i]), tuple(sj * x for x in _ax[j])))
ORIENTS += [((F(3, 5), F(4, 5), 0), (F(-4, 5), F(3, 5), 0)),
            ((F(3, 5), 0, F(4, 5)), (0, 1, 0)),
            ((F(2, 3), F(2, 3), F(1, 3)), (F(-2, 3), F(1, 3), F(2, 3))),
            ((F(5, 13), F(12, 13), 0), (F(12, 13), F(-5, 13), 0))]


def _geom(rng):
    rc, cc = rng.choice(ORIENTS)
    pos = [F(rng.randint(-800, 800), rng.choice([1, 2, 4, 8])) for _ in range(3)]
    spr = F(rng.randint(1, 40), rng.choice([1, 2, 4, 8, 16]))
    spc = F(rng.randint(1, 40), rng.choice([1, 2, 4, 8, 16]))
    return {'pos': [str(p) for p in pos], 'rc': [str(F(x)) for x in rc],
            'cc': [str(F(x)) for x in cc], 'spr': str(spr), 'spc': str(spc)}


def _sizes(rng, hi):
    R = rng.randint(1, hi)
    C = rng.randint(1, hi)
    th = rng.choice([1, R, rng.randint(1, hi), max(1, R // 2), R + 1])
    tw = rng.choice([1, C, rng.randint(1, hi), max(1, C // 3), C + 2])
    return R, C, th, tw


def gen_cases(rng, tier):
    cases = []
    cube = {'quick': 5, 'thorough': 12, 'search': 7}[tier]
    nrand = {'quick': 300, 'thorough': 6000, 'search': 3000}[tier]
    hi = 24 if tier == 'quick' else 64
    for R, C, th, tw in itertools.product(range(1, cube + 1), repeat=4):
        cases.append({'kind': 'grid', 'R': R, 'C': C, 'th': th, 'tw': tw})
    for _ in range(nrand):
        R, C, th, tw = _sizes(rng, hi)
        cases.append({'kind': 'grid', 'R': R, 'C': C, 'th': th, 'tw': tw})
    for _ in range(nrand // 3):
        R, C, th, tw = _sizes(rng, 12)
        cases.append(dict(_geom(rng), kind='positions', R=R, C=C, th=th, tw=tw))
    for _ in range(nrand // 4):
        R, C, th, tw = _sizes(rng, 9)
        g = _geom(rng)
        g['pos'] = g['pos'][:2]
        cases.append(dict(g, kind='iter', R=R, C=C, th=th, tw=tw,
                          nch=rng.randint(1, 3), nfp=rng.randint(1, 3),
                          sbs=str(F(rng.randint(1, 20), rng.choice([1, 2, 4]))),
                          seg=rng.choice(['no', 'BINARY', 'LABELMAP']),
                          explicit_paths=rng.random() < 0.5))
    for _ in range(nrand // 3):
        g = _geom(rng)
        g['pos'] = g['pos'][:2]
        bad = rng.random() < 0.15
        ri = rng.randint(1, 30)
        ci = rng.randint(1, 30)
        if bad:
            if rng.random() < 0.5:
                ri = rng.randint(-3, 0)
            else:
                ci = rng.randint(-3, 0)
        sl = None if rng.random() < 0.4 else [rng.randint(1, 5), str(F(rng.randint(1, 20), rng.choice([1, 2, 4])))]
        cases.append(dict(g, kind='ppos_err' if bad else 'ppos', ri=ri, ci=ci,
                          th=rng.randint(1, 40), tw=rng.randint(1, 40), slice=sl))
    for _ in range(nrand // 2):
        R, C, th, tw = _sizes(rng, 10)
        nr, nc = (R - 1) // th + 1, (C - 1) // tw + 1
        ps = [[1 + a * th, 1 + b * tw] for a in range(nr) for b in range(nc)]
        mode = rng.choice(['full', 'full', 'perm', 'hole', 'prefix', 'dup', 'shift', 'colmajor', 'empty',
                           'drop_last', 'drop_last', 'drop_tail', 'drop_last_row', 'extra'])
        if mode == 'perm' and len(ps) > 1:
            i, j = rng.sample(range(len(ps)), 2)
            ps[i], ps[j] = ps[j], ps[i]
        elif mode == 'hole' and len(ps) > 1:
            del ps[rng.randrange(len(ps))]
        elif mode == 'prefix':
            ps = ps[:rng.randint(0, len(ps))]
        elif mode == 'dup':
            ps.insert(rng.randrange(len(ps) + 1), list(rng.choice(ps)))
        elif mode == 'shift':
            k = rng.randrange(len(ps))
            ps[k] = [ps[k][0] + rng.choice([-1, 1]), ps[k][1]]
        elif mode == 'colmajor':
            ps = [[1 + a * th, 1 + b * tw] for b in range(nc) for a in range(nr)]
        elif mode == 'empty':
            ps = []
        elif mode == 'drop_last' and len(ps) > 1:
            ps = ps[:-1]
        elif mode == 'drop_tail' and nc > 1:
            ps = ps[:len(ps) - rng.randint(1, nc - 1)]
        elif mode == 'drop_last_row' and nr > 1:
            ps = ps[:-nc]
        elif mode == 'extra':
            ps = ps + [[ps[-1][0], ps[-1][1] + tw]] if rng.random() < 0.5 else ps + [list(ps[0])]
        cases.append({'kind': 'tiled_full', 'mode': mode, 'ps': ps, 'th': th, 'tw': tw})
    for _ in range(nrand // 2):
        R, C, th, tw = _sizes(rng, 7)
        M = [[rng.randint(0, 9) for _ in range(C)] for _ in range(R)]
        bad = rng.random() < 0.15
        if bad:
            ro, co = rng.choice([(0, 1), (R + 1, 1), (1, 0), (1, C + 1), (-1, 1), (1, -2)])
        else:
            ro = 1 + th * rng.randrange((R - 1) // th + 1) if rng.random() < 0.8 else rng.randint(1, R)
            co = 1 + tw * rng.randrange((C - 1) // tw + 1) if rng.random() < 0.8 else rng.randint(1, C)
        cases.append({'kind': 'tile_array_err' if bad else 'tile_array', 'M': M, 'R': R, 'C': C,
                      'ro': ro, 'co': co, 'th': th, 'tw': tw, 'pad': rng.random() < 0.7})
    return cases


def _fl(xs):
    return [float(F(x)) for x in xs]


def _dataset(c):
    from pydicom import Dataset
    ds = Dataset()
    seg = c['seg']
    ds.SOPClassUID = ('1.2.840.10008.5.1.4.1.1.77.1.6' if seg == 'no' else
                      '1.2.840.10008.5.1.4.1.1.66.7' if seg == 'LABELMAP' else
                      '1.2.840.10008.5.1.4.1.1.66.4')
    ds.DimensionOrganizationType = 'TILED_FULL'
    o = Dataset()
    o.XOffsetInSlideCoordinateSystem = float(F(c['pos'][0]))
    o.YOffsetInSlideCoordinateSystem = float(F(c['pos'][1]))
    ds.TotalPixelMatrixOriginSequence = [o]
    ds.ImageOrientationSlide = _fl(c['rc']) + _fl(c['cc'])
    ds.TotalPixelMatrixFocalPlanes = c['nfp']
    if seg == 'no':
        if c['explicit_paths']:
            ds.NumberOfOpticalPaths = c['nch']
        ds.OpticalPathSequence = [Dataset() for _ in range(c['nch'])]
    else:
        ds.SegmentationType = seg
        ds.SegmentSequence = [Dataset() for _ in range(c['nch'])]
    pm = Dataset()
    pm.PixelSpacing = [float(F(c['spr'])), float(F(c['spc']))]
    pm.SpacingBetweenSlices = float(F(c['sbs']))
    sh = Dataset()
    sh.PixelMeasuresSequence = [pm]
    ds.SharedFunctionalGroupsSequence = [sh]
    ds.Rows, ds.Columns = c['th'], c['tw']
    ds.TotalPixelMatrixRows, ds.TotalPixelMatrixColumns = c['R'], c['C']
    return ds


def run_impl(c):
    import numpy as np
    from highdicom import spatial, utils
    k = c['kind']
    if k == 'grid':
        tpm = [list(t) for t in spatial.tile_pixel_matrix(c['R'], c['C'], c['th'], c['tw'])]
        offs = [o for o, _ in spatial.compute_tile_positions_per_frame(
            c['th'], c['tw'], c['R'], c['C'], (0.0, 0.0, 0.0), (1, 0, 0, 0, 1, 0), (1.0, 1.0))]
        return [tpm, offs]
    if k == 'positions':
        r = spatial.compute_tile_positions_per_frame(
            c['th'], c['tw'], c['R'], c['C'], _fl(c['pos']), _fl(c['rc']) + _fl(c['cc']),
            (float(F(c['spr'])), float(F(c['spc']))))
        return [[o, p] for o, p in r]
    if k == 'iter':
        ds = _dataset(c)
        return [[ch, fp, col, row, [x, y, z]] for ch, fp, col, row, x, y, z in
                spatial.iter_tiled_full_frame_data(ds)]
    if k in ('ppos', 'ppos_err'):
        def f():
            kw = {}
            if c['slice'] is not None:
                kw = dict(slice_index=c['slice'][0], spacing_between_slices=float(F(c['slice'][1])))
            pp = utils.compute_plane_position_tiled_full(
                row_index=c['ri'], column_index=c['ci'],
                x_offset=float(F(c['pos'][0])), y_offset=float(F(c['pos'][1])),
                rows=c['th'], columns=c['tw'],
                image_orientation=_fl(c['rc']) + _fl(c['cc']),
                pixel_spacing=(float(F(c['spr'])), float(F(c['spc']))), **kw)
            it = pp[0]
            return [[int(it.ColumnPositionInTotalImagePixelMatrix), int(it.RowPositionInTotalImagePixelMatrix)],
                    [float(it.XOffsetInSlideCoordinateSystem), float(it.YOffsetInSlideCoordinateSystem),
                     float(it.ZOffsetInSlideCoordinateSystem)]]
        return catch(f)
    if k == 'tiled_full':
        from pydicom import Dataset
        pps = []
        for r, col in c['ps']:
            d = Dataset()
            d.RowPositionInTotalImagePixelMatrix = r
            d.ColumnPositionInTotalImagePixelMatrix = col
            pps.append([d])
        return bool(utils.are_plane_positions_tiled_full(pps, c['th'], c['tw']))
    if k in ('tile_array', 'tile_array_err'):
        M = np.array(c['M'], dtype=np.int64).reshape(c['R'], c['C'])
        return catch(lambda: spatial.get_tile_array(M, c['ro'], c['co'], c['th'], c['tw'], pad=c['pad']).tolist())
    raise ValueError(k)


def _v3(xs):
    a, b, cc = (qlit(F(x)) for x in xs)
    return f'(V3 {a} {b} {cc})'


def coq_term(c):
    k = c['kind']
    s = f"{zlit(c.get('R', 0))} {zlit(c.get('C', 0))} {zlit(c['th'])} {zlit(c['tw'])}"
    if k == 'grid':
        return f'(VL [run_tpm {s}; VL (map vpairz (tile_offsets {s}))])'
    if k == 'positions':
        return (f"(run_positions {s} {_v3(c['pos'])} {_v3(c['rc'])} {_v3(c['cc'])} "
                f"{qlit(F(c['spr']))} {qlit(F(c['spc']))})")
    if k == 'iter':
        nch = 1 if c['seg'] == 'LABELMAP' else c['nch']
        lm = 'true' if c['seg'] == 'LABELMAP' else 'false'
        t = (f"(run_iter {lm} {nch} {c['nfp']} {s} {qlit(F(c['pos'][0]))} {qlit(F(c['pos'][1]))} "
             f"{_v3(c['rc'])} {_v3(c['cc'])} {qlit(F(c['spr']))} {qlit(F(c['spc']))} {qlit(F(c['sbs']))})")
        return t
    if k in ('ppos', 'ppos_err'):
        sl = 'None' if c['slice'] is None else f"(Some ({zlit(c['slice'][0])}, {qlit(F(c['slice'][1]))}))"
        return (f"(run_ppos {zlit(c['ri'])} {zlit(c['ci'])} {qlit(F(c['pos'][0]))} {qlit(F(c['pos'][1]))} "
                f"{zlit(c['th'])} {zlit(c['tw'])} {_v3(c['rc'])} {_v3(c['cc'])} "
                f"{qlit(F(c['spr']))} {qlit(F(c['spc']))} {sl})")
    if k == 'tiled_full':
        ps = '[' + '; '.join(f'({zlit(r)}, {zlit(cc)})' for r, cc in c['ps']) + ']'
        return f"(run_tiled_full {ps} {zlit(c['th'])} {zlit(c['tw'])})"
    if k in ('tile_array', 'tile_array_err'):
        return (f"(run_tile_array {zll(c['M'])} {zlit(c['R'])} {zlit(c['C'])} {zlit(c['ro'])} {zlit(c['co'])} "
                f"{zlit(c['th'])} {zlit(c['tw'])} {'true' if c['pad'] else 'false'})")
    raise ValueError(k)


def _close(a, b):
    return abs(a - b) <= 1e-9 * (1 + abs(b))


def _ref_pos(c, col0, row0, z=None):
    pos = [float(F(x)) for x in c['pos']]
    if z is not None:
        pos = pos[:2] + [z]
    rc, cc = _fl(c['rc']), _fl(c['cc'])
    spr, spc = float(F(c['spr'])), float(F(c['spc']))
    return [pos[i] + col0 * spc * rc[i] + row0 * spr * cc[i] for i in range(3)]


def _check_grid_list(offs, R, C, th, tw):
    """offs: 1-based (col, row) offsets; the property, by direct counting."""
    nr, nc = -(-R // th), -(-C // tw)
    if len(offs) != nr * nc:
        return f'{len(offs)} tiles, expected {nr}x{nc}'
    want = [[1 + b * tw, 1 + a * th] for a in range(nr) for b in range(nc)]
    if [list(o) for o in offs] != want:
        return f'offsets {offs[:6]}.. are not the row-major grid {want[:6]}..'
    cover = [[0] * C for _ in range(R)]
    for co, ro in offs:
        for r in range(ro - 1, min(ro - 1 + th, R)):
            for cc in range(co - 1, min(co - 1 + tw, C)):
                cover[r][cc] += 1
    if any(x != 1 for row in cover for x in row):
        return 'some pixel is not covered exactly once'
    return None


def oracle(c, out):
    k = c['kind']
    if k == 'grid':
        tpm, offs = out
        R, C, th, tw = c['R'], c['C'], c['th'], c['tw']
        m = _check_grid_list(offs, R, C, th, tw)
        if m:
            return 'compute_tile_positions_per_frame: ' + m
        m = _check_grid_list([[(ci - 1) * tw + 1, (ri - 1) * th + 1] for ci, ri in tpm], R, C, th, tw)
        if m:
            return 'tile_pixel_matrix: ' + m
        return None
    if k == 'positions':
        m = _check_grid_list([o for o, _ in out], c['R'], c['C'], c['th'], c['tw'])
        if m:
            return m
        for (co, ro), p in out:
            ref = _ref_pos(c, co - 1, ro - 1)
            if not all(_close(a, b) for a, b in zip(p, ref)):
                return f'position of tile at offset {(co, ro)} is {p}, transform gives {ref}'
        return None
    if k == 'iter':
        chans = [None] if c['seg'] == 'LABELMAP' else list(range(1, c['nch'] + 1))
        n_grid = -(-c['R'] // c['th']) * -(-c['C'] // c['tw'])
        if len(out) != len(chans) * c['nfp'] * n_grid:
            return f'{len(out)} frames, expected {len(chans)}x{c["nfp"]}x{n_grid}'
        i = 0
        for ch in chans:
            for fp in range(1, c['nfp'] + 1):
                block = out[i:i + n_grid]
                i += n_grid
                if any(b[0] != ch or b[1] != fp for b in block):
                    return f'channel/focal plane order wrong in block {ch},{fp}'
                m = _check_grid_list([[b[2], b[3]] for b in block], c['R'], c['C'], c['th'], c['tw'])
                if m:
                    return m
                for b in block:
                    ref = _ref_pos(c, b[2] - 1, b[3] - 1, z=(fp - 1) * float(F(c['sbs'])))
                    if not all(_close(x, y) for x, y in zip(b[4], ref)):
                        return f'position {b[4]} vs transform {ref}'
        return None
    if k == 'ppos':
        if isinstance(out, Err):
            return f'valid indices refused: {out}'
        (co, ro), p = out
        if co != (c['ci'] - 1) * c['tw'] + 1 or ro != (c['ri'] - 1) * c['th'] + 1:
            return f'offset {(co, ro)} is not a multiple of the tile size'
        z = 0.0 if c['slice'] is None else (c['slice'][0] - 1) * float(F(c['slice'][1]))
        ref = _ref_pos(c, co - 1, ro - 1, z=z)
        if not all(_close(a, b) for a, b in zip(p, ref)):
            return f'position {p} vs transform {ref}'
        return None
    if k == 'ppos_err':
        return None if isinstance(out, Err) else 'non-positive tile index accepted'
    if k == 'tiled_full':
        ps, th, tw = c['ps'], c['th'], c['tw']
        if not ps:
            want = True   # the empty list is the (empty) grid of its own extent
        else:
            mr, mc = max(p[0] for p in ps), max(p[1] for p in ps)
            want = ps == [[r, cc] for r in range(1, mr + 1, th) for cc in range(1, mc + 1, tw)]
        return None if out == want else f'are_plane_positions_tiled_full={out}, expected {want} ({c["mode"]})'
    if k == 'tile_array':
        if isinstance(out, Err):
            return f'valid offset refused: {out}'
        R, C, th, tw, ro, co = c['R'], c['C'], c['th'], c['tw'], c['ro'], c['co']
        M = c['M']
        nr = th if c['pad'] else min(th, R - ro + 1)
        nc = tw if c['pad'] else min(tw, C - co + 1)
        if len(out) != nr or any(len(r) != nc for r in out):
            return f'tile shape {len(out)}x{len(out[0]) if out else 0}, expected {nr}x{nc}'
        for a in range(nr):
            for b in range(nc):
                r, cc = ro - 1 + a, co - 1 + b
                want = M[r][cc] if r < R and cc < C else 0
                if out[a][b] != want:
                    return f'tile cell {(a, b)} = {out[a][b]}, matrix/pad value {want}'
        return None
    if k == 'tile_array_err':
        return None if isinstance(out, Err) else 'out-of-matrix offset accepted'
    return f'unknown kind {k}'


def nontrivial(c, out):
    k = c['kind']
    if k == 'grid':
        return len(out[0]) > 1
    if k in ('positions', 'iter'):
        return len(out) > 1
    if k == 'tiled_full':
        return len(c['ps']) > 1
    if k == 'tile_array':
        return c['R'] * c['C'] > 1
    return True


def shrink(c):
    for key in ('R', 'C', 'th', 'tw', 'nch', 'nfp', 'ri', 'ci'):
        if key in c and isinstance(c[key], int) and c[key] > 1 and c['kind'] not in ('tile_array', 'tile_array_err', 'tiled_full'):
            yield dict(c, **{key: c[key] - 1})
            yield dict(c, **{key: 1})
    if c['kind'] == 'tiled_full' and len(c['ps']) > 1:
        for i in range(len(c['ps'])):
            yield dict(c, ps=c['ps'][:i] + c['ps'][i + 1:])


def extra_obligations(work):
    # T-int: the integer helpers this model mirrors, re-translated from the current source
    import translate_int
    return translate_int.obligations(work, translate_int.FOR['C12'])


if __name__ == '__main__':
    sys.exit(common.main(sys.modules[__name__]))
