"""C15 - SR documents carry their content intact with complete evidence.

Implementation functions driven (real code from $VERIF_REPO/src):
  sr.utils.find_content_items, sr.utils.collect_evidence (+ _create_references),
  sr.EnhancedSR / ComprehensiveSR / Comprehensive3DSR constructors, .content,
  get_evidence, get_evidence_series, X.from_dataset, srread (after save_as),
  ko.KeyObjectSelection (+ get_references), ko.KeyObjectSelectionDocument, resolve_reference,
  ko.KeyObjectSelectionDocument.from_dataset (kind ko_parse), documents whose content is a real
  TID 1500 MeasurementReport (kind report_doc), sr.ReferencedSegment / ReferencedSegmentationFrame
  .from_segmentation on synthetic datasets and on real highdicom Segmentations (kind seg_real).
  Every document kind also draws the optional constructor arguments that take part in no guard
  (institution_name, institutional_department_name, performed_procedure_codes, requested_procedures) and
  observes what the document records of them; kind doc_verify crosses the verification arguments
  EXHAUSTIVELY with the three classes and with the presence of those arguments.
  CODED ENTRIES (session 6): every document kind draws coded entries - concept name of any item (root included),
  value of a CODE item, unit and qualifier of a NUM item, the title of a key object document, the codes handed
  to the TID 1500 template classes, the performed procedure codes - that carry MORE than value / scheme / meaning:
  long / URN form, scheme version, context group identification and extension, mapping resource, equivalent
  codes (set on the CodedConcept by hand: the constructor has no argument for them), and non-root items that carry
  ObservationUID / ObservationDateTime set by hand; all of it is decoded with plain pydicom from every view
  (.content, top level, parsed) and is part of the tree compared with the model (optional attributes 14..17, 20, 21).
Model: coq/theories/C15_Model.v; theorems: C15_Props.v.

A case is JSON: content trees are nested lists [vt, tag, rel, ref|None, kids] or
[vt, tag, rel, ref|None, kids, opts] (vt index into VTS, tag = code value of the concept
name, rel index into RELS, ref = [instance no, class no], opts = [[key, [values]]..] in key
order = the OPTIONAL attributes the item carries, see OPT_KEYS; keys 14..17 = what the coded entries of the item
carry beyond the basics, as a sorted list of ENTRY_FEATS numbers); evidence records are
[instance no, class no, study no, series no].  Numbers are mapped to UIDs by uid_of/cls_of and back.
"""
import copy
import datetime
import io
import os
import sys

sys.path.insert(0, os.path.dirname(os.path.abspath(__file__)))
import common
from common import Err, catch, zlit

PROPERTY = 'C15'
PROPS_FILE = 'C15_Props.v'
COQ_IMPORTS = ['C15_Model']
TOL = None
ORACLE_PREMISES = [
    'W1: pydicom save_as + dcmread return a dataset equal to the one written (the written file is modelled '
    'as the document value itself); exercised by the roundtrip cases, not proved',
    'SOPClass.__init__, ContentItem._from_dataset_derived / ContentSequence.from_sequence accept every '
    'well-formed content tree (named items, non-root items with a relationship type) and keep it unchanged, '
    'every optional attribute of every item included (deep copy + per-value-type from_dataset conversion '
    'modelled as value copy); exercised by dataset equality and by decoding every optional attribute '
    'in every doc / roundtrip / from_dataset case (15 value types x their constructor options x what the coded '
    'entries of the item carry beyond value / scheme / meaning x attributes set on the item by hand)',
]
MODELLED = ('sr.utils.find_content_items / _create_references / collect_evidence; sr.sop._SR.__init__ guard order '
            '(evidence, transfer syntax, verification details, content sequence length, root item checks, '
            'evidence collection, predecessors) and the arguments it only records (institution / department name, '
            'performed procedure codes, requested procedures: handed through unchanged by every subclass constructor, '
            'part of no guard), EnhancedSR/ComprehensiveSR SCOORD3D rejection, get_evidence, '
            'get_evidence_series, from_dataset class checks, srread dispatch; ko.KeyObjectSelection reference '
            'items and get_references, KeyObjectSelectionDocument.__init__, resolve_reference, '
            'KeyObjectSelectionDocument.from_dataset (class / root rebuild / template 2010 / reference table guards); '
            'sr.content.ReferencedSegment.from_segmentation '
            'and ReferencedSegmentationFrame.from_segmentation (on an abstraction of the segmentation: per-frame segment '
            'number + derivation/source sequences + header ReferencedSeriesSequence; the abstraction is EXTRACTED by '
            'abstract_seg from synthetic datasets and from real highdicom Segmentations and both are compared with the '
            'model).  Session 7: ko.KeyObjectSelection observer contexts (type guards, item order) and '
            'get_observer_contexts (1-based match positions + Python slices, the two from_sequence parsers at the level of '
            'attribute names), the arguments KeyObjectSelectionDocument.__init__ only records, the study / patient id / '
            'study id / accession number a document inherits from evidence[0], find_content_items by NAME over coded '
            'entries of every form (value of any form + scheme designator + scheme version).  Not modelled: unnamed items '
            '(find_content_items needs ConceptNameCodeSequence), the other patient / study module attributes.  _SR.from_dataset '
            'is modelled with its root rebuild (value type, name, children, continuity, template) and the dispatch '
            'on template 1500 (MeasurementReport vs ContentSequence as the type of .content); documents whose content is a '
            'real TID 1500 MeasurementReport (template classes) are compared with the model on the tree highdicom built '
            '(kind report_doc); the template getters of parsed reports are exercised by kind tid1500 (oracle only).  '
            'Coded entries: what an entry carries beyond value / scheme / meaning is an optional attribute of the item '
            '(14 concept name, 15 CODE value, 16 NUM unit, 17 NUM qualifier), carried like every other attribute; the '
            'root rebuild of from_dataset keeps key 14 (the whole ConceptNameCodeSequence is copied); '
            'ko_content takes what the title entry carries.')
STRATA = ['find', 'find_name', 'collect', 'collect_err', 'doc', 'doc_err', 'doc_verify', 'doc_entries', 'roundtrip', 'from_dataset', 'ko', 'ko_err',
          'ko_srread', 'ko_parse', 'ko_ctx', 'doc_study', 'ko_study', 'segref', 'segframe', 'seg_real', 'tid1500', 'report_doc']
NOT_EXECUTED = []
RULE = ('trees: depth <= 4, fan-out <= 3, 15 value types, children below any value type, references drawn from a '
        'pool of <= 8 instances with repeats; optional attributes of items (document kinds): root and nested container '
        'template (none / 1500 / other) and continuity, NUM qualifier and integer value, IMAGE frame and segment numbers, '
        'SCOORD pixel origin interpretation / fiducial / multi-point graphic, SCOORD3D fiducial / multi-point, TCOORD '
        'positions / offsets / date-times, WAVEFORM channels; CODED ENTRIES with more than value / scheme / meaning - '
        'concept name of any item incl. the root (15-25 %), CODE value (45 %), NUM unit (30 %), NUM qualifier (45 %), key '
        'object title (40 %), measurement name / unit / qualifier, evaluation value and finding type of template-built '
        'reports, performed procedure codes (5 fixed variants) - drawn from: long / URN value form, scheme version, '
        'context group identification (identifier, mapping resource, version, UID; whole or partial), extension flag Y '
        '(+ local version + creator UID) / N, mapping resource UID / name, 1-2 equivalent codes, combined; non-root '
        'items with ObservationUID / ObservationDateTime set by hand (20 % each); doc_entries: {root name, item name, '
        'CODE value, NUM unit, NUM qualifier} x {long form, URN form, scheme version, context group identification, '
        'context group extension, mapping resource, equivalent code} x {in memory, written + srread, from_dataset}, EVERY '
        'combination in every run (105 small documents, classes / from_dataset variants rotating, item at a random depth); '
        'parsing through srread(bytes), Class.from_dataset(document) '
        'and Class.from_dataset(pydicom.dcmread(bytes)) with copy True/False; real TID 1500 reports built with the '
        'template classes (measurements with / without qualifier, method, derivation, finding sites, source images, '
        'qualitative evaluations, planar ROI groups; oracle only); evidence: pool over <= 3 studies x <= 3 series, supplied = '
        'exact / superset / strict subset / duplicates / conflicting duplicate, shuffled; classes x record_evidence '
        'x completion/verification/final flags x previous versions x the arguments that are only recorded '
        '(institution name, department name with / without institution, performed procedure codes none / [] / several, '
        'requested procedures none / [] / several); doc_verify: {3 classes} x is_verified x observer name absent / empty '
        'string / given x organization absent / empty string / given x institution name given / not x department given / not, EVERY combination in every '
        'run (in memory or written + srread), the remaining arguments random; in-memory, written+srread, from_dataset of '
        'every class on every class; malformed stream violates each guard once. segmentation references: synthetic '
        'segmentation datasets (1-6 frames, 1-3 segments, absent/empty/multiple derivation and source items, source '
        'frame numbers absent / one / several, header fallback variants, non-segmentation class) x by-segment / '
        'by-frames (valid subsets, repeats, foreign-segment frames, out-of-range first or last) x segment given or '
        'not; plus real highdicom Segmentations of CT series and multi-frame CT (abstraction extracted, model compared). '
        'key object documents written, optionally tampered with (SOP class, template identifier, template / evidence / '
        'content sequence deleted, value type) and parsed by KeyObjectSelectionDocument.from_dataset from the document or '
        'from dcmread(bytes); get_references x value type (incl. unsupported) x SOP class; report_doc: TID 1500 reports '
        '(plain / planar / 3-D region groups) x all constructor arguments x evidence all / duplicates / referenced only / '
        'one referenced instance missing. ko_ctx: key object selections with person / device / both / no observer context '
        '(required attribute + random subset of the optional ones incl. the device role; 1 in 8 a context of the wrong type) x '
        'description x institution / department / requested procedures x in memory / from_dataset(document) / '
        'from_dataset(dcmread(bytes)), get_observer_contexts for filter None / Person / Device / another code. '
        'doc_study / ko_study: evidence records carry patient / study id / accession number of their study; half of the '
        'cases supply an unreferenced record of another study first; in memory and after the file round trip. find_name: '
        'raw trees whose item names are coded entries in plain / long / URN form with / without scheme version and further '
        'attributes; the name asked for is an item name exactly (64 %) or differing in form / version / scheme designator '
        '/ code. non-trivial = at least one '
        'reference below depth 1 or >= 2 evidence groups or a refusal; distinct by case hash')

VTS = ['CONTAINER', 'TEXT', 'CODE', 'NUM', 'IMAGE', 'COMPOSITE', 'SCOORD', 'SCOORD3D', 'UIDREF',
       'DATE', 'TIME', 'DATETIME', 'PNAME', 'TCOORD', 'WAVEFORM']
# optional attributes of a content item (the 6th element of a tree node): key -> meaning of the values
OPT_KEYS = {
    1: 'CONTAINER template_id [identifier]', 2: 'CONTAINER is_content_continuous=False []',
    3: 'NUM qualifier [code value]', 4: 'NUM integer value [value] (no FloatingPointValue)',
    5: 'IMAGE referenced_frame_numbers [..]', 6: 'IMAGE referenced_segment_numbers [..]',
    7: 'SCOORD pixel_origin_interpretation [0 FRAME | 1 VOLUME]', 8: 'SCOORD/SCOORD3D fiducial_uid [no]',
    9: 'SCOORD/SCOORD3D POLYLINE with [n] points instead of POINT',
    10: 'TCOORD referenced_sample_positions [..] (default [1])', 11: 'TCOORD referenced_time_offsets [..]',
    12: 'TCOORD referenced_date_time [seconds..]', 13: 'WAVEFORM referenced_waveform_channels [w, c, ..]',
    # what a CODED ENTRY of the item carries beyond code value / scheme designator / meaning (see ENTRY_FEATS)
    14: 'concept name: further attributes of the coded entry [features]',
    15: 'CODE value: further attributes of the coded entry [features]',
    16: 'NUM unit: further attributes of the coded entry [features]',
    17: 'NUM qualifier: further attributes of the coded entry [features]',
}
K_NAME, K_CODE, K_UNIT, K_QUAL = 14, 15, 16, 17
# attributes of the item itself that no constructor writes: set by hand on the item (never on the root, see claims)
K_OBS_UID, K_OBS_DT = 20, 21
OPT_KEYS[K_OBS_UID] = 'ObservationUID set on the item by hand [no]'
OPT_KEYS[K_OBS_DT] = 'ObservationDateTime set on the item by hand [seconds]'
# features of a coded entry (sorted list of numbers; [] = nothing but value / scheme / meaning).  The first
# three are what the CodedConcept constructor can produce, the others are set on the CodedConcept by hand
# (PS3.3 Table 8.8-1 'Code Sequence Macro': all optional).
ENTRY_FEATS = {
    2: 'LongCodeValue instead of CodeValue (value longer than 16 characters)',
    3: 'URNCodeValue instead of CodeValue',
    4: "MappingResource 'DCMR'", 5: "ContextGroupVersion '20200920'",
    6: "ContextGroupExtensionFlag 'Y'", 7: "ContextGroupExtensionFlag 'N'",
    8: "ContextGroupLocalVersion '20210101'", 9: 'ContextGroupExtensionCreatorUID',
    # 11..19 CodingSchemeVersion 'v1'..'v9'
    30: 'MappingResourceUID', 31: "MappingResourceName 'DICOM Content Mapping Resource'",
    # 41..43 EquivalentCodeSequence with 1..3 items; 50000 + n: an equivalent code with code value n
    # 10000 + cid: ContextIdentifier 'cid'; 20000 + cid: ContextUID '1.2.840.10008.6.1.<cid>'
}
LONG_PFX, URN_PFX = 'long-code-value--', 'urn:verif:code:'
CIDS = [218, 7021, 7150, 7460, 7470, 100, 4, 7010]

TCOORD, WAVEFORM = 13, 14
RELS = [None, 'CONTAINS', 'HAS PROPERTIES', 'INFERRED FROM', 'SELECTED FROM',
        'HAS OBS CONTEXT', 'HAS ACQ CONTEXT', 'HAS CONCEPT MOD']   # generated trees use 0..4; reports the rest too
CLASSES = ['1.2.840.10008.5.1.4.1.1.2', '1.2.840.10008.5.1.4.1.1.4', '1.2.840.10008.5.1.4.1.1.88.33',
           '1.2.840.10008.5.1.4.1.1.66.4']
SR_CLASSES = ['EnhancedSR', 'ComprehensiveSR', 'Comprehensive3DSR']
SR_UIDS = ['1.2.840.10008.5.1.4.1.1.88.22', '1.2.840.10008.5.1.4.1.1.88.33', '1.2.840.10008.5.1.4.1.1.88.34',
           '1.2.840.10008.5.1.4.1.1.88.59']
COQ_CLASSES = ['Enhanced', 'Comprehensive', 'Comprehensive3D']
PFX = '1.2.826.0.1.3680043.8.498.'
SCHEME = '99VERIF'
IMAGE, COMPOSITE, SCOORD3D = 4, 5, 7


def opts_of(t):
    return t[5] if len(t) > 5 else []


def canon(t):
    """tree with every node in the 6-element form"""
    return [t[0], t[1], t[2], t[3], [canon(k) for k in t[4]], [[k, list(v)] for k, v in opts_of(t)]]


def opt_get(t, key):
    for k, v in opts_of(t):
        if k == key:
            return v
    return None


def feat_name(x):
    if x in ENTRY_FEATS:
        return ENTRY_FEATS[x]
    if isinstance(x, int):
        if 11 <= x <= 19:
            return f"CodingSchemeVersion 'v{x - 10}'"
        if 41 <= x <= 49:
            return f'EquivalentCodeSequence with {x - 40} item(s)'
        if 10000 <= x < 20000:
            return f"ContextIdentifier '{x - 10000}'"
        if 20000 <= x < 30000:
            return f'ContextUID of CID {x - 20000}'
        if x >= 50000:
            return f'equivalent code {x - 50000}'
    return str(x)


def gen_entry(rng, p=1.0):
    """features of one coded entry: [] with probability 1 - p, else a non-empty combination"""
    if rng.random() >= p:
        return []
    f = []
    r = rng.random()
    if r < 0.12:
        f.append(2)
    elif r < 0.24:
        f.append(3)
    if rng.random() < 0.25:
        f.append(10 + rng.randint(1, 9))
    if rng.random() < 0.55:
        # context group identification: identifier + mapping resource + version (all three or, rarely, a part)
        cid = rng.choice(CIDS)
        f += [10000 + cid, 4, 5] if rng.random() < 0.8 else [10000 + cid]
        if rng.random() < 0.5:
            f.append(20000 + cid)
        if rng.random() < 0.3:
            f += [6, 8, 9] if rng.random() < 0.6 else [7]
    if rng.random() < 0.15:
        f += rng.choice([[30], [31], [30, 31]])
    if rng.random() < 0.25:
        n = rng.randint(1, 2)
        f += [40 + n] + [50000 + rng.randint(1, 99) for _ in range(n)]
    if not f:
        cid = rng.choice(CIDS)
        f = [10000 + cid, 4, 5]
    return sorted(f)


def gen_entry_opts(rng, vt, o, root=False):
    """coded entries of an item of value type vt (with the other options o) that carry more than the basics"""
    e = []
    x = gen_entry(rng, 0.25 if root else 0.15)
    if x:
        e.append([K_NAME, x])
    if vt == 2:
        x = gen_entry(rng, 0.45)
        if x:
            e.append([K_CODE, x])
    elif vt == 3:
        x = gen_entry(rng, 0.3)
        if x:
            e.append([K_UNIT, x])
        if any(k == 3 for k, _ in o):
            x = gen_entry(rng, 0.45)
            if x:
                e.append([K_QUAL, x])
    return e


def gen_opts(rng, vt, ref, root=False):
    """optional constructor arguments for an item of value type vt, and what its coded entries carry"""
    o = gen_opts0(rng, vt, ref, root)
    o = o + gen_entry_opts(rng, vt, o, root)
    if not root:
        if rng.random() < 0.2:
            o.append([K_OBS_UID, [rng.randint(1, 5)]])
        if rng.random() < 0.2:
            o.append([K_OBS_DT, [rng.randint(0, 59)]])
    return o


def gen_opts0(rng, vt, ref, root=False):
    o = []
    if vt == 0:
        r = rng.random()
        if root:
            if r < 0.3:
                o.append([1, [1500]])
            elif r < 0.7:
                o.append([1, [rng.choice([2000, 1410, 2010, 1600, 1501, 300, 15000, 150])]])
        elif r < 0.3:
            o.append([1, [rng.choice([1500, 1501, 1410, 1411, 1600, 300])]])
        if rng.random() < 0.3:
            o.append([2, []])
    elif vt == 3:
        if rng.random() < 0.5:
            o.append([3, [rng.choice([114000, 114006, 114007, 114009])]])
        if rng.random() < 0.3:
            o.append([4, [rng.choice([0, 1, -3, 12, 300, 65536])]])
    elif vt == IMAGE:
        if rng.random() < 0.3:
            o.append([5, sorted(rng.sample(range(1, 9), rng.randint(1, 3)))])
        if ref is not None and ref[1] == 3 and rng.random() < 0.5:
            o.append([6, sorted(rng.sample(range(1, 5), rng.randint(1, 2)))])
    elif vt == 6:
        if rng.random() < 0.3:
            o.append([7, [rng.randint(0, 1)]])
        if rng.random() < 0.25:
            o.append([8, [rng.randint(1, 9)]])
        if rng.random() < 0.3:
            o.append([9, [rng.randint(2, 4)]])
    elif vt == SCOORD3D:
        if rng.random() < 0.3:
            o.append([8, [rng.randint(1, 9)]])
        if rng.random() < 0.3:
            o.append([9, [rng.randint(2, 4)]])
    elif vt == TCOORD:
        r = rng.random()
        if r < 0.25:
            o.append([10, sorted(rng.sample(range(2, 9), rng.randint(1, 3)))])
        elif r < 0.5:
            o.append([11, [rng.randint(0, 50) for _ in range(rng.randint(1, 3))]])
        elif r < 0.75:
            o.append([12, sorted(rng.sample(range(0, 59), rng.randint(1, 2)))])
    elif vt == WAVEFORM:
        if rng.random() < 0.4:
            o.append([13, rng.choice([[1, 1], [1, 2, 2, 1], [3, 4]])])
    return o


def clear_opts(node):
    del node[5:]


def uid_of(n):
    return f'{PFX}1.{n}'


def study_of(n):
    return f'{PFX}2.{n}'


def series_of(n):
    return f'{PFX}3.{n}'


def num_of(u):
    return int(str(u).rsplit('.', 1)[1])


# --------------------------------------------------------------------------
# generators
# --------------------------------------------------------------------------
def gen_tree(rng, pool, max_depth=4, p3d=0.08, raw=False, rich=False):
    """root item + descendants; `pool` = [(instance no, class no)] to reference.  rich: items carry optional
    constructor arguments (gen_opts)."""
    def kid(depth):
        node = kid0(depth)
        if rich and rng.random() < 0.85:
            o = gen_opts(rng, node[0], node[3])
            if o:
                node.append(o)
        return node

    def kid0(depth):
        r = rng.random()
        rel = rng.randint(1, 4)
        if raw and rng.random() < 0.12:
            rel = 0
        tag = rng.randint(1, 6)
        if r < 0.25 and depth < max_depth:
            return [0, tag, rel, None, kids(depth + 1)]
        if r < 0.50 and pool:
            u, c = rng.choice(pool)
            return [IMAGE, tag, rel, [u, c], below(depth)]
        if r < 0.62 and pool:
            u, c = rng.choice(pool)
            return [COMPOSITE, tag, rel, [u, c], below(depth)]
        if r < 0.62 + p3d:
            return [SCOORD3D, tag, rel, None, below(depth)]
        t = rng.choice([1, 2, 3, 3, 3, 3, 6, 6, 8, 9, 10, 11, 12, TCOORD, WAVEFORM])
        if t == WAVEFORM:
            # a waveform item names an instance too, but is neither an image nor a composite reference
            u, c = rng.choice(pool) if pool and rng.random() < 0.7 else (rng.randint(30, 33), 1)
            return [t, tag, rel, [u, c], below(depth)]
        return [t, tag, rel, None, below(depth)]

    def below(depth):
        # children under a non-container item (e.g. SCOORD -> IMAGE "SELECTED FROM")
        if depth < max_depth and rng.random() < 0.2:
            return kids(depth + 1, hi=2)
        return []

    def kids(depth, hi=3):
        return [kid(depth) for _ in range(rng.randint(0, hi))]

    ks = kids(1)
    if not ks and rng.random() < 0.8:
        ks = [kid(1)]
    root = [0, rng.randint(1, 6), 0, None, ks]
    if rich:
        o = gen_opts(rng, 0, None, root=True)
        if o:
            root.append(o)
    return root


def walk(t, depth=0):
    """(item, depth) of every proper descendant, document order."""
    for k in t[4]:
        yield k, depth + 1
        yield from walk(k, depth + 1)


def referenced(t):
    return {k[3][0] for k, _ in walk(t) if k[0] in (IMAGE, COMPOSITE) and k[3] is not None}


def gen_pool(rng):
    n = rng.randint(1, 8)
    nst = rng.randint(1, 3)
    recs = []
    for i in rng.sample(range(1, 13), n):
        st = rng.randint(1, nst)
        se = st * 10 + rng.randint(1, 3)
        if rng.random() < 0.1:
            se = rng.randint(1, 3)          # same series number under several studies
        recs.append([i, rng.randrange(len(CLASSES)), st, se])
    return recs


def gen_evidence(rng, pool, tree, mode):
    """supplied evidence list for a tree whose references come from pool."""
    ref = referenced(tree)
    byu = {r[0]: r for r in pool}
    need = [byu[u] for u in sorted(ref) if u in byu]
    rest = [r for r in pool if r[0] not in ref]
    if mode == 'exact':
        ev = list(need)
    elif mode == 'superset':
        ev = need + rest
    elif mode == 'subset':                 # strict subset of the referenced instances
        ev = list(need)
        if ev:
            del ev[rng.randrange(len(ev))]
        ev += [r for r in rest if rng.random() < 0.5]
    elif mode == 'dups':
        ev = need + rest
        for _ in range(rng.randint(1, 3)):
            if ev:
                ev.insert(rng.randrange(len(ev) + 1), list(rng.choice(ev)))
    elif mode == 'conflict':               # same instance supplied twice under different series
        ev = need + rest
        if ev:
            r = list(rng.choice(ev))
            r[3] += 5
            r[1] = (r[1] + 1) % len(CLASSES)
            ev.insert(rng.randrange(len(ev) + 1), r)
    else:
        raise ValueError(mode)
    rng.shuffle(ev)
    if not ev and mode != 'subset':
        ev = [[99, 0, 1, 11]]
    return [list(r) for r in ev]


MODES = ['exact', 'superset', 'superset', 'dups', 'dups', 'conflict', 'subset']


def gen_doc_args(rng, ok=True):
    ver = rng.random() < 0.4
    a = {
        'cls': rng.randrange(3), 'as_seq': rng.random() < 0.3, 'root_cs': True, 'ts': rng.choice(['explicit', 'implicit']),
        'complete': rng.random() < 0.5, 'final': rng.random() < 0.5, 'verified': ver,
        # 0 = the empty string (a verified document needs both details non-empty)
        'observer': rng.randint(1, 9) if ver else (rng.randint(0, 9) if rng.random() < 0.3 else None),
        'org': rng.randint(1, 9) if ver else (rng.randint(0, 9) if rng.random() < 0.3 else None),
        'record': rng.random() < 0.6,
        'previous': None if rng.random() < 0.5 else [
            [rng.randint(20, 24), 2, rng.randint(1, 2), rng.randint(1, 3)] for _ in range(rng.randint(0, 4))],
    }
    a.update(gen_extras(rng))
    return a


EXTRA_KEYS = ('inst', 'dept', 'codes', 'requests')


def gen_extras(rng):
    """the optional constructor arguments that take part in no guard (numbers -> strings in make_doc)"""
    def some(lo, hi, variants=1):
        return None if rng.random() < 0.5 else [
            rng.randint(1, 9) + 10 * (rng.randrange(variants) if rng.random() < 0.4 else 0)
            for _ in range(rng.randint(lo, hi))]
    return {'inst': rng.randint(1, 9) if rng.random() < 0.5 else None,
            'dept': rng.randint(1, 9) if rng.random() < 0.4 else None,
            # a code n >= 10: code n % 10 as a coded entry that carries more than the basics (PROC_FEATS[n // 10])
            'codes': some(0, 3, 6), 'requests': some(0, 2)}


def gen_doc_verify(rng):
    """the verification clause crossed exhaustively with the document class and with the presence of the
    unrelated optional arguments: one small valid document per combination"""
    out = []
    for cls in range(3):
        for verified in (True, False):
            for observer in (None, 0, 1):            # absent, empty string, given
                for org in (None, 0, 1):
                    for inst in (False, True):
                        for dept in (False, True):
                            if not verified and rng.random() < 0.5:
                                continue
                            c = gen_doc(rng, 'doc_verify', force_ok=True, max_depth=2)
                            if cls != 2:
                                strip_3d(c['tree'])
                            c.update(cls=cls, verified=verified, ts='explicit', as_seq=rng.random() < 0.2,
                                     observer=rng.randint(1, 9) if observer else observer,
                                     org=rng.randint(1, 9) if org else org,
                                     inst=rng.randint(1, 9) if inst else None,
                                     dept=rng.randint(1, 9) if dept else None,
                                     parse=rng.random() < 0.35)
                            out.append(c)
    return out


ENTRY_POSITIONS = ['root_name', 'name', 'code', 'unit', 'qualifier']
ENTRY_GROUPS = ['long', 'urn', 'version', 'context', 'extension', 'mapping', 'equivalent']


def gen_doc_entries(rng):
    """the coded-entry dimension crossed exhaustively: one small valid document per (position of the coded entry)
    x (group of attributes it carries beyond value / scheme / meaning) x (in memory / written + srread /
    from_dataset), classes and the from_dataset variants rotating, the item placed at a random depth"""
    out = []
    n = 0
    for pos in ENTRY_POSITIONS:
        for grp in ENTRY_GROUPS:
            for how in ('doc', 'roundtrip', 'from_dataset'):
                n += 1
                cid = rng.choice(CIDS)
                feats = {'long': [2], 'urn': [3], 'version': [10 + rng.randint(1, 9)],
                         'context': [4, 5, 10000 + cid] + ([20000 + cid] if rng.random() < 0.5 else []),
                         'extension': rng.choice([[6, 8, 9, 10000 + cid], [7, 10000 + cid]]),
                         'mapping': rng.choice([[30], [31], [30, 31]]),
                         'equivalent': [41, 50000 + rng.randint(1, 99)]}[grp]
                c = gen_doc(rng, 'doc_entries', force_ok=True, max_depth=2)
                c.update(cls=n % 3, ts='explicit', how=how, position=pos, group=grp)
                if c['cls'] != 2 or how == 'from_dataset':
                    strip_3d(c['tree'])
                tag, rel = rng.randint(1, 6), rng.randint(1, 4)
                if pos == 'root_name':
                    o = [kv for kv in opts_of(c['tree']) if kv[0] != K_NAME] + [[K_NAME, feats]]
                    del c['tree'][5:]
                    c['tree'].append(sorted(o))
                else:
                    item = {'name': [rng.choice([1, 2, 3, 8, 9, 10, 11, 12]), tag, rel, None, [], [[K_NAME, feats]]],
                            'code': [2, tag, rel, None, [], [[K_CODE, feats]]],
                            'unit': [3, tag, rel, None, [], [[K_UNIT, feats]]],
                            'qualifier': [3, tag, rel, None, [], [[3, [114006]], [K_QUAL, feats]]]}[pos]
                    # below the root, below a nested container, or below any other item (children below any value type)
                    hosts = [c['tree']] + [k for k, _ in walk(c['tree'])]
                    host = c['tree'] if rng.random() < 0.4 else rng.choice(hosts)
                    host[4].insert(rng.randint(0, len(host[4])), item)
                if how == 'from_dataset':
                    c.update(target=rng.choice([0, c['cls']]), via=rng.choice(['document', 'dcmread']), copy=rng.random() < 0.5)
                out.append(c)
    return out


def gen_doc(rng, kind, force_ok=False, max_depth=4):
    pool = gen_pool(rng)
    refpool = [(r[0], r[1]) for r in pool]
    if rng.random() < 0.15:
        refpool.append((77, 0))            # a reference nobody can supply evidence for
    tree = gen_tree(rng, refpool, rich=True, max_depth=max_depth)
    mode = rng.choice(MODES[:-1] if force_ok else MODES)
    c = dict(gen_doc_args(rng), kind=kind, tree=tree, evidence=gen_evidence(rng, pool, tree, mode), mode=mode)
    if force_ok:
        tree_strip_unknown(tree)
        c['evidence'] = gen_evidence(rng, pool, tree, mode)
    return c


def tree_strip_unknown(t):
    for k, _ in walk(t):
        if k[3] is not None and k[3][0] == 77:
            k[0], k[3] = 1, None
            clear_opts(k)


def strip_3d(t):
    for k, _ in walk(t):
        if k[0] == SCOORD3D:
            k[0] = 6


def gen_doc_err(rng):
    c = gen_doc(rng, 'doc_err', force_ok=True)
    c['cls'] = 2 if rng.random() < 0.7 else c['cls']
    g = rng.choice(['no_evidence', 'bad_ts', 'no_observer', 'no_org', 'seq0', 'seq2', 'root_rel', 'root_text',
                    'root_no_cs', 'missing', 'scoord3d', 'scoord3d_deep', 'two_guards'])
    c['guard'] = g
    if g == 'no_evidence':
        c['evidence'] = []
    elif g == 'bad_ts':
        c['ts'] = 'jpeg'
    elif g == 'no_observer':
        c['verified'], c['observer'] = True, rng.choice([None, None, 0])
    elif g == 'no_org':
        c['verified'], c['org'] = True, rng.choice([None, None, 0])
    elif g == 'seq0':
        c['as_seq'], c['seq_n'] = True, 0
    elif g == 'seq2':
        c['as_seq'], c['seq_n'] = True, 2
    elif g == 'root_rel':
        c['tree'][2] = 1
    elif g == 'root_text':
        c['tree'][0] = 1
        clear_opts(c['tree'])
    elif g == 'root_no_cs':
        c['tree'][4] = []
        c['root_cs'] = False
    elif g == 'missing':
        c['tree'][4].append([rng.choice([IMAGE, COMPOSITE]), 1, 1, [77, 0], []])
    elif g in ('scoord3d', 'scoord3d_deep'):
        c['cls'] = rng.randrange(2)
        node = c['tree']
        if g == 'scoord3d_deep':
            for d in range(rng.randint(1, 3)):
                nxt = [rng.choice([0, 0, 3, 6]), 2, 1, None, []]
                node[4].insert(rng.randint(0, len(node[4])), nxt)
                node = nxt
        node[4].insert(rng.randint(0, len(node[4])), [SCOORD3D, 3, rng.randint(1, 4), None, []])
    elif g == 'two_guards':
        # verification details missing AND root is not a container: the earlier guard decides the class
        c['verified'], c['observer'] = True, None
        c['tree'][0] = 1
        clear_opts(c['tree'])
    return c


def gen_find(rng):
    pool = [(rng.randint(1, 9), rng.randrange(4)) for _ in range(4)]
    tree = gen_tree(rng, pool, p3d=0.12, raw=True)
    q = {'name': rng.randint(1, 6) if rng.random() < 0.3 else None,
         'vt': rng.randrange(len(VTS)) if rng.random() < 0.75 else None,
         'rel': rng.randint(1, 4) if rng.random() < 0.3 else None}
    has_cs = rng.random() > 0.08
    if not has_cs:
        tree[4] = []
    return {'kind': 'find', 'tree': tree, 'q': q, 'recursive': rng.random() < 0.6, 'has_cs': has_cs}


def gen_find_name(rng):
    """find_content_items by name over a tree whose concept names are coded entries of every form (long / URN value,
    scheme version, further attributes); the name asked for is the name of some item, exactly or differing in ONE
    respect (form of the value, scheme version, scheme designator, code)"""
    pool = [(rng.randint(1, 9), rng.randrange(4)) for _ in range(4)]
    tree = gen_tree(rng, pool, p3d=0.05, raw=True, max_depth=3)
    items = [x for x, _ in walk(tree)]
    for x in items:
        del x[5:]
        x[1] = rng.randint(1, 3)
        f = []
        r = rng.random()
        if r < 0.25:
            f.append(2)
        elif r < 0.5:
            f.append(3)
        if rng.random() < 0.4:
            f.append(10 + rng.randint(1, 2))
        if rng.random() < 0.2:
            f += [4, 5, 10000 + rng.choice(CIDS)]
        if f:
            x.append([[K_NAME, sorted(f)]])
    qn = None
    if rng.random() < 0.92:
        if items and rng.random() < 0.85:
            pick = rng.choice(items)
            f, base = opt_get(pick, K_NAME) or [], pick[1]
        else:
            f, base = [], rng.randint(1, 3)
        qn = {'code': base, 'form': 2 if 2 in f else (3 if 3 in f else 0),
              'version': ([x - 10 for x in f if 11 <= x <= 19] or [0])[0], 'scheme': True}
        r = rng.random()
        if r < 0.12:
            qn['form'] = rng.choice([x for x in (0, 2, 3) if x != qn['form']])
        elif r < 0.24:
            qn['version'] = rng.choice([x for x in (0, 1, 2) if x != qn['version']])
        elif r < 0.3:
            qn['scheme'] = False
        elif r < 0.36:
            qn['code'] = rng.randint(1, 4)
    like = rng.choice(items) if items and rng.random() < 0.8 else [rng.randrange(len(VTS)), 0, rng.randint(1, 4)]
    if qn is not None and items and rng.random() < 0.8:
        like = next((x for x in items if x[1] == qn['code']), like)
    q = {'name': None, 'vt': like[0] if rng.random() < 0.25 else None,
         'rel': (like[2] or 1) if rng.random() < 0.15 else None}
    has_cs = rng.random() > 0.05
    if not has_cs:
        tree[4] = []
    return {'kind': 'find_name', 'tree': tree, 'q': q, 'qname': qn, 'recursive': rng.random() < 0.8, 'has_cs': has_cs}


def build_raw_named(t, root=False, has_cs=True):
    """build_raw + the concept name of every item as the coded entry its option 14 describes"""
    ds = build_raw(t, root=root, has_cs=has_cs)

    def rename(node, d):
        f = opt_get(node, K_NAME)
        if f:
            d.ConceptNameCodeSequence = [make_entry(str(node[1]), SCHEME, f'm{node[1]}', f)]
        for kn, kd in zip(node[4], d.get('ContentSequence', [])):
            rename(kn, kd)
    rename(t, ds)
    return ds


def gen_collect(rng):
    pool = gen_pool(rng)
    refpool = [(r[0], r[1]) for r in pool]
    if rng.random() < 0.1:
        refpool.append((77, 0))
    tree = gen_tree(rng, refpool, raw=True)
    mode = rng.choice(MODES)
    ev = gen_evidence(rng, pool, tree, mode)
    if rng.random() < 0.05:
        ev = []
    return {'kind': 'collect', 'tree': tree, 'evidence': ev, 'mode': mode, 'has_cs': True}


def gen_collect_err(rng):
    c = gen_collect(rng)
    c['kind'] = 'collect_err'
    g = rng.choice(['no_cs', 'no_ref_seq', 'missing'])
    c['guard'] = g
    if g == 'no_cs':
        c['tree'][4] = []
        c['has_cs'] = False
    elif g == 'no_ref_seq':
        node = c['tree']
        while node[4] and rng.random() < 0.5:
            node = rng.choice(node[4])
        node[4].append([rng.choice([IMAGE, COMPOSITE]), 1, 1, None, []])
    else:
        node = c['tree']
        while node[4] and rng.random() < 0.6:
            node = rng.choice(node[4])
        node[4].append([rng.choice([IMAGE, COMPOSITE]), 1, 1, [78, 1], []])
    return c


def gen_ko(rng, err=False):
    pool = gen_pool(rng)
    st = pool[0][2]
    same = [r for r in pool if r[2] == st]
    refs = [[r[0], r[1], rng.random() < 0.6] for r in rng.sample(same, rng.randint(1, len(same)))]
    if rng.random() < 0.3:
        refs.append(list(rng.choice(refs)))           # object selected twice
    ev = [list(r) for r in pool]
    if rng.random() < 0.3:
        ev.insert(rng.randrange(len(ev) + 1), list(rng.choice(ev)))
    rng.shuffle(ev)
    c = {'kind': 'ko', 'refs': refs, 'evidence': ev, 'descr': rng.randint(1, 5) if rng.random() < 0.4 else None,
         'title_x': gen_entry(rng, 0.4),      # what the coded entry given as document title carries (ENTRY_FEATS)
         'ts': 'explicit', 'queries': [r[0] for r in refs] + [55] + [r[0] for r in pool[:2]]}
    if err:
        c['kind'] = 'ko_err'
        g = rng.choice(['no_refs', 'no_evidence', 'bad_ts', 'missing', 'two_studies'])
        c['guard'] = g
        if g == 'no_refs':
            c['refs'] = []
        elif g == 'no_evidence':
            c['evidence'] = []
        elif g == 'bad_ts':
            c['ts'] = 'jpeg'
        elif g == 'missing':
            c['refs'].append([77, 0, True])
        else:
            c['refs'].append([60, 0, True])
            c['evidence'].append([60, 0, st + 5, 99])
    return c


# ---- references derived from a segmentation -----------------------------------
def gen_seg(rng, clean=False):
    """abstract segmentation: frames [[segment, drv]], drv = None | [None | [[uid, cls, frames|None]..]..]"""
    nseg = rng.randint(1, 3)
    n = rng.randint(1, 6)
    srcs = [[rng.randint(1, 9), rng.randrange(2)] for _ in range(rng.randint(1, 4))]

    def one_src():
        u, c = rng.choice(srcs)
        r = rng.random()
        fr = None if r < 0.4 else ([rng.randint(1, 9)] if r < 0.8 else [rng.randint(1, 9) for _ in range(rng.randint(2, 3))])
        return [u, c, fr]

    def drv():
        r = rng.random()
        if r < 0.12:
            return None
        if clean or r < 0.7:
            return [[one_src()]]
        if r < 0.78:
            return [None]
        if r < 0.86:
            return [[one_src() for _ in range(rng.randint(0, 3))]]
        return [rng.choice([None, [one_src()], [one_src(), one_src()]]) for _ in range(rng.randint(0, 3))]

    mode = rng.choice(['sorted', 'random', 'single'])
    segs = sorted(rng.randint(1, nseg) for _ in range(n)) if mode == 'sorted' else (
        [rng.randint(1, nseg) for _ in range(n)] if mode == 'random' else [1] * n)
    no_drv = rng.random() < 0.2
    frames = [[sg, None if no_drv else drv()] for sg in segs]
    r = rng.random()
    if r < 0.15:
        refseries = None
    elif r < 0.7:
        refseries = [[[rng.randint(1, 9), rng.randrange(2)] for _ in range(rng.choice([1, 1, 1, 0, 2, 3]))],
                     rng.choice([None, 31])]
    elif r < 0.9:
        refseries = [None, 31]
    else:
        refseries = [None, None]
    return {'cls': rng.choice(['seg', 'seg', 'seg', 'labelmap', 'ct']) if not clean else 'seg', 'nframes': n,
            'tiled': rng.random() < 0.5, 'frames': frames, 'refseries': refseries}


def _frame_pick(rng, g, sn):
    n = g['nframes']
    of = [i + 1 for i, f in enumerate(g['frames']) if f[0] == sn]
    r = rng.random()
    if r < 0.45 and of:
        return rng.sample(of, rng.randint(1, len(of)))
    if r < 0.58 and of:
        return of + [rng.choice(of)]
    if r < 0.72:
        return [rng.randint(1, n) for _ in range(rng.randint(1, 3))]
    if r < 0.85:
        # valid frames of the segment with one bad entry (out of range, or of another segment) at any place
        good = [rng.choice(of) for _ in range(rng.randint(1, 3))] if of else []
        other = [i + 1 for i, f in enumerate(g['frames']) if f[0] != sn]
        bad = rng.choice([0, -1, n + 1, n + 5] + other * 2)
        k = rng.choice([0, len(good), len(good), rng.randint(0, len(good))])
        return good[:k] + [bad] + good[k:]
    return [rng.randint(1, n)]


def gen_segref(rng):
    g = gen_seg(rng, clean=rng.random() < 0.3)
    sn = rng.choice([f[0] for f in g['frames']] + [rng.randint(1, 4)])
    fns = None if rng.random() < 0.45 else _frame_pick(rng, g, sn)
    return {'kind': 'segref', 'seg': g, 'sn': sn, 'fns': fns}


def gen_segframe(rng):
    g = gen_seg(rng, clean=rng.random() < 0.5)
    sn = rng.choice([f[0] for f in g['frames']] * 3 + [rng.randint(1, 4)])
    r = rng.random()
    if r < 0.25:
        fa, sna = None, (sn if rng.random() < 0.9 else None)
    else:
        fl = _frame_pick(rng, g, sn)
        fa = fl[0] if (len(fl) == 1 and rng.random() < 0.7) else fl
        if rng.random() < 0.03:
            fa = []
        sna = None if rng.random() < 0.5 else rng.choice([sn, sn, rng.randint(1, 3)])
    if rng.random() < 0.12:
        # two good frames first, then a bad one: the tail must still be validated
        of = [i + 1 for i, f in enumerate(g['frames']) if f[0] == sn]
        other = [i + 1 for i, f in enumerate(g['frames']) if f[0] != sn]
        if of:
            fa = [rng.choice(of), rng.choice(of), rng.choice([0, g['nframes'] + 1] + other * 2)]
            sna = rng.choice([None, sn])
    return {'kind': 'segframe', 'seg': g, 'sn': sna, 'fa': fa}


def gen_seg_real(rng):
    """a real highdicom Segmentation of a CT series or of one multi-frame CT image"""
    n = rng.randint(2, 4)
    nseg = rng.randint(1, 3)
    planes = [[rng.random() < 0.6 for _ in range(nseg)] for _ in range(n)]
    if not any(any(p) for p in planes):
        planes[0][0] = True
    sn = rng.randint(1, nseg)
    return {'kind': 'seg_real', 'multiframe': rng.random() < 0.5, 'n': n, 'nseg': nseg, 'planes': planes,
            'sn': sn, 'api': rng.choice(['segment', 'segment_frames', 'frame', 'frame_sn']),
            'pick': rng.random(), 'reverse': rng.random() < 0.5}


# ---- real TID 1500 measurement reports built with the template classes ---------------------
M_NAMES = [('410668003', 'SCT', 'Length'), ('118565006', 'SCT', 'Volume'), ('42798000', 'SCT', 'Area'),
           ('81827009', 'SCT', 'Diameter')]
M_QUAL = [('114000', 'DCM', 'Not a number'), ('114006', 'DCM', 'Measurement failure'),
          ('114007', 'DCM', 'Measurement not attempted'), ('114009', 'DCM', 'Value out of range')]


def gen_tid1500(rng):
    pool = gen_pool(rng)

    def meas():
        return {'name': rng.randrange(len(M_NAMES)), 'value': rng.choice([rng.randint(0, 400), rng.randint(0, 4000) / 8]),
                'qualifier': rng.randrange(len(M_QUAL)) if rng.random() < 0.5 else None,
                'method': rng.random() < 0.3, 'derivation': rng.random() < 0.3, 'site': rng.random() < 0.3,
                'tracking': rng.random() < 0.2,
                'image': rng.randrange(len(pool)) if rng.random() < 0.4 else None,
                'frames': rng.random() < 0.3,
                # what the coded entries handed to the template classes carry beyond the basics (ENTRY_FEATS)
                'name_x': gen_entry(rng, 0.2), 'unit_x': gen_entry(rng, 0.2), 'qual_x': gen_entry(rng, 0.3)}
    groups = []
    for _ in range(rng.randint(1, 3)):
        groups.append({'type': rng.choice(['plain', 'plain', 'planar']), 'meas': [meas() for _ in range(rng.randint(0, 3))],
                       'evals': rng.randint(0, 2), 'source': rng.randrange(len(pool)),
                       'finding_type': rng.random() < 0.4, 'session': rng.random() < 0.3,
                       'pixel_origin': rng.choice([None, 'FRAME', 'VOLUME']),
                       'eval_x': gen_entry(rng, 0.25), 'finding_x': gen_entry(rng, 0.3)})
    if not any(m['qualifier'] is not None for g in groups for m in g['meas']) and rng.random() < 0.7:
        groups[0]['meas'].append(dict(meas(), qualifier=rng.randrange(len(M_QUAL))))
    ev = [list(r) for r in pool]
    if rng.random() < 0.3:
        ev.insert(rng.randrange(len(ev) + 1), list(rng.choice(ev)))
    rng.shuffle(ev)
    return {'kind': 'tid1500', 'cls': rng.randrange(3), 'groups': groups, 'pool': pool, 'evidence': ev,
            'observer': rng.choice(['person', 'device', 'both']), 'record': rng.random() < 0.6,
            'title': rng.random() < 0.5, 'entry': rng.choice(['srread', 'dcmread', 'document']),
            'copy': rng.random() < 0.6}


KO_TAMPER = ['none', 'class', 'template', 'no_template', 'no_evidence_seq', 'value_type', 'no_content_seq']


def gen_ko_parse(rng):
    """a valid key object document, written, (tampered with,) parsed by KeyObjectSelectionDocument.from_dataset"""
    c = gen_ko(rng)
    c['kind'] = 'ko_parse'
    c['tamper'] = rng.choice([0, 0, 0, 0, 0, 1, 2, 3, 4, 5, 6])
    c['via'] = rng.choice(['document', 'dcmread', 'dcmread'])
    c['vf'] = rng.choice([None, None, IMAGE, COMPOSITE, WAVEFORM, 1, 0])
    c['cf'] = rng.choice([None, None, rng.randrange(len(CLASSES))] + [r[1] for r in c['refs'][:1]])
    return c


# ---- key object documents with observer contexts and recorded arguments (session 7) ------------
# identifying attributes of an observer context: model tag -> (value type, constructor argument)
PERSON_ATTRS = [(121008, 12, 'name'), (128774, 1, 'login_name'), (121009, 1, 'organization_name'),
                (121010, 2, 'role_in_organization'), (121011, 2, 'role_in_procedure')]
DEVICE_ATTRS = [(121012, 8, 'uid'), (121013, 1, 'name'), (121014, 1, 'manufacturer_name'), (121015, 1, 'model_name'),
                (121016, 1, 'serial_number'), (121017, 1, 'physical_location'), (113876, 2, 'role_in_procedure')]
CTX_ATTRS = [PERSON_ATTRS, DEVICE_ATTRS]
K_VALUE = 30          # model key: value of the 'Observer Type' item, [0] Person / [1] Device
T_DEVICE_ROLE = 113876
# (finding D119, fixed in /repo 4fd7c6c: DeviceObserverIdentifyingAttributes.from_sequence did not list
# 'role_in_procedure', so get_observer_contexts returned a device context WITHOUT the role it was given; the oracle
# demands that every identifying attribute given comes back)


def gen_octx(rng, ty):
    """[observer type, [names of the identifying attributes]]: the required one and a subset of the optional ones"""
    a = CTX_ATTRS[ty]
    return [ty, [a[0][0]] + [t for t, _, _ in a[1:] if rng.random() < 0.45]]


def gen_ko_ctx(rng, shape=None):
    """a key object document with observer contexts (person / device / both / none; 1 in 8 of the wrong type),
    institution / department name and requested procedures; in memory or written and parsed"""
    c = gen_ko(rng)
    c['kind'] = 'ko_ctx'
    if shape is None:
        shape = rng.randrange(4)
    c['person'] = gen_octx(rng, 0) if shape & 1 else None
    c['device'] = gen_octx(rng, 1) if shape & 2 else None
    if shape and rng.random() < 0.12:
        which = rng.choice([k for k in ('person', 'device') if c[k] is not None])
        c[which] = gen_octx(rng, 1 if which == 'person' else 0)       # a context of the other type
    c['inst'] = rng.randint(1, 9) if rng.random() < 0.5 else None
    c['dept'] = rng.randint(1, 9) if rng.random() < 0.5 else None
    c['requests'] = None if rng.random() < 0.5 else [rng.randint(1, 9) for _ in range(rng.randint(0, 2))]
    c['parse'] = rng.choice([None, 'document', 'dcmread'])
    c['filters'] = [None, 0, 1, 2]
    return c


def ctx_tree(o):
    """the items an observer context contributes to the document (canonical tree nodes)"""
    if o is None:
        return []
    vts = {t: vt for a in CTX_ATTRS for t, vt, _ in a}
    return [[2, 121005, 5, None, [], [[K_VALUE, [o[0]]]]]] + [[vts[t], t, 5, None, [], []] for t in o[1]]


def report_refs(rp):
    """instance numbers a report case references (from the case description, not from highdicom)"""
    return ({rp['pool'][g['source']][0] for g in rp['groups'] if g['type'] != 'planar3d'} |
            {rp['pool'][m['image']][0] for g in rp['groups'] for m in g['meas'] if m['image'] is not None})


def gen_report_doc(rng):
    """a document whose content is a real TID 1500 MeasurementReport (template classes), with the whole set of
    constructor arguments; written and parsed; compared with the model on the tree highdicom built"""
    t = gen_tid1500(rng)
    rp = {k: t[k] for k in ('groups', 'pool', 'observer', 'title')}
    for g in rp['groups']:
        if g['type'] == 'planar' and rng.random() < 0.3:
            g['type'] = 'planar3d'                 # region given in 3-D patient coordinates (SCOORD3D below depth 2)
    ev = [list(r) for r in t['evidence']]
    mode = rng.choice(['all', 'all', 'all', 'dups', 'referenced', 'missing'])
    ref = report_refs(rp)
    if not ref:
        mode = 'all'
    if mode == 'referenced':
        ev = [r for r in ev if r[0] in ref]
    elif mode == 'missing':
        drop = rng.choice(sorted(ref))
        ev = [r for r in ev if r[0] != drop] or [[99, 0, 1, 11]]
    elif mode == 'dups':
        ev.insert(rng.randrange(len(ev) + 1), list(rng.choice(ev)))
    c = dict(gen_doc_args(rng), kind='report_doc', report=rp, evidence=ev, mode=mode)
    if any(g['type'] == 'planar3d' for g in rp['groups']) and rng.random() < 0.5:
        c['cls'] = 2
    return c


def gen_cases(rng, tier):
    n = {'quick': 1, 'thorough': 20, 'search': 8}[tier]
    cases = []
    for _ in range(140 * n):
        cases.append(gen_find(rng))
    for _ in range(200 * n):
        cases.append(gen_collect(rng))
    for _ in range(40 * n):
        cases.append(gen_collect_err(rng))
    for _ in range(160 * n):
        cases.append(gen_doc(rng, 'doc'))
    for _ in range(80 * n):
        cases.append(gen_doc_err(rng))
    for _ in range(n):
        cases.extend(gen_doc_verify(rng))
    for _ in range(n):
        cases.extend(gen_doc_entries(rng))
    for _ in range(70 * n):
        cases.append(gen_doc(rng, 'roundtrip', force_ok=rng.random() < 0.85))
    for _ in range(36 * n):
        c = gen_doc(rng, 'from_dataset', force_ok=True)
        strip_3d(c['tree'])
        c['target'] = rng.randrange(3)
        c['via'] = rng.choice(['document', 'dcmread', 'dcmread'])
        c['copy'] = rng.random() < 0.6
        cases.append(c)
    for _ in range(40 * n):
        cases.append(gen_ko(rng))
    for _ in range(25 * n):
        cases.append(gen_ko(rng, err=True))
    for _ in range(4 * n):
        c = gen_ko(rng)
        c['kind'] = 'ko_srread'
        cases.append(c)
    for _ in range(44 * n):
        cases.append(gen_ko_parse(rng))
    for _ in range(150 * n):
        cases.append(gen_segref(rng))
    for _ in range(170 * n):
        cases.append(gen_segframe(rng))
    for _ in range(30 * n):
        cases.append(gen_seg_real(rng))
    for _ in range(40 * n):
        cases.append(gen_tid1500(rng))
    for _ in range(30 * n):
        cases.append(gen_report_doc(rng))
    # session 7 kinds LAST: the random stream of every earlier kind is exactly what it was before they existed
    for _ in range(90 * n):
        cases.append(gen_find_name(rng))
    for i in range(48 * n):
        cases.append(gen_ko_ctx(rng, shape=i % 4))
    for i in range(40 * n):
        c = gen_doc(rng, 'doc_study', force_ok=i % 5 != 0, max_depth=3)
        if i % 2 and len(c['evidence']) > 1:
            # an unreferenced record of another study first: the document is still filed under ITS study
            ref = referenced(c['tree'])
            un = [r for r in c['evidence'] if r[0] not in ref] or [[90, 0, 9, 91]]
            c['evidence'] = [list(un[0])] + [r for r in c['evidence']]
        c['parse'] = i % 3 == 0
        cases.append(c)
    for i in range(24 * n):
        c = gen_ko(rng, err=i % 6 == 5)
        c['orig_kind'], c['kind'] = c['kind'], 'ko_study'
        if i % 2 and c['evidence']:
            c['evidence'] = [[91, 0, 9, 91]] + c['evidence']       # an unreferenced record of another study first
        c['parse'] = i % 3 == 0
        cases.append(c)
    return cases


# --------------------------------------------------------------------------
# implementation side
# --------------------------------------------------------------------------
def _name(tag, feats=()):
    return make_entry(str(tag), SCHEME, f'm{tag}', feats)


def make_entry(value, scheme, meaning, feats=()):
    """a highdicom CodedConcept with the given features (ENTRY_FEATS): value form and scheme version through the
    constructor, everything else set by hand (the constructor has no argument for it)"""
    from highdicom.sr import CodedConcept
    from pydicom import Dataset
    f = list(feats or ())
    ver = [x - 10 for x in f if 11 <= x <= 19]
    if 2 in f:
        value = LONG_PFX + value
    elif 3 in f:
        value = URN_PFX + value
    c = CodedConcept(value, scheme, meaning, f'v{ver[0]}' if ver else None)
    eq = []
    for x in f:
        if x == 4:
            c.MappingResource = 'DCMR'
        elif x == 5:
            c.ContextGroupVersion = '20200920'
        elif x == 6:
            c.ContextGroupExtensionFlag = 'Y'
        elif x == 7:
            c.ContextGroupExtensionFlag = 'N'
        elif x == 8:
            c.ContextGroupLocalVersion = '20210101'
        elif x == 9:
            c.ContextGroupExtensionCreatorUID = PFX + '10.1'
        elif x == 30:
            c.MappingResourceUID = '1.2.840.10008.8.1.1'
        elif x == 31:
            c.MappingResourceName = 'DICOM Content Mapping Resource'
        elif 10000 <= x < 20000:
            c.ContextIdentifier = str(x - 10000)
        elif 20000 <= x < 30000:
            c.ContextUID = f'1.2.840.10008.6.1.{x - 20000}'
        elif x >= 50000:
            e = Dataset()
            e.CodeValue, e.CodingSchemeDesignator, e.CodeMeaning = str(x - 50000), '99EQ', f'eq{x - 50000}'
            eq.append(e)
    if eq or any(41 <= x <= 49 for x in f):
        c.EquivalentCodeSequence = eq
    return c


def entry_value(ds):
    """the code of a coded entry dataset whatever its form (the generated prefix of long / URN values removed)"""
    for kw, pfx in (('CodeValue', ''), ('LongCodeValue', LONG_PFX), ('URNCodeValue', URN_PFX)):
        if kw in ds:
            v = str(ds[kw].value)
            return v[len(pfx):] if pfx and v.startswith(pfx) else v
    return None


def entry_extras(ds):
    """features (ENTRY_FEATS) of a coded entry dataset, read with plain pydicom: EVERY element other than
    CodeValue / CodingSchemeDesignator / CodeMeaning counts; sorted numbers, then - as strings, so that they
    stay visible - the elements that are not what make_entry writes"""
    ints, raw = [], []

    def put(ok, n, el):
        if ok:
            ints.append(n)
        else:
            raw.append(f'{el.keyword or el.tag}={el.value!r}')
    for el in ds:
        kw, v = el.keyword, el.value
        if kw in ('CodeValue', 'CodingSchemeDesignator', 'CodeMeaning'):
            continue
        if kw == 'LongCodeValue':
            ints.append(2)
        elif kw == 'URNCodeValue':
            ints.append(3)
        elif kw == 'CodingSchemeVersion':
            v = str(v)
            put(len(v) == 2 and v[0] == 'v' and v[1] in '123456789', 10 + int(v[1]) if v[1:].isdigit() else 0, el)
        elif kw == 'MappingResource':
            put(v == 'DCMR', 4, el)
        elif kw == 'ContextGroupVersion':
            put(str(v) == '20200920', 5, el)
        elif kw == 'ContextGroupExtensionFlag':
            put(v in ('Y', 'N'), 6 if v == 'Y' else 7, el)
        elif kw == 'ContextGroupLocalVersion':
            put(str(v) == '20210101', 8, el)
        elif kw == 'ContextGroupExtensionCreatorUID':
            put(str(v) == PFX + '10.1', 9, el)
        elif kw == 'MappingResourceUID':
            put(str(v) == '1.2.840.10008.8.1.1', 30, el)
        elif kw == 'MappingResourceName':
            put(str(v) == 'DICOM Content Mapping Resource', 31, el)
        elif kw == 'ContextIdentifier':
            put(str(v).isdigit() and int(v) < 10000, 10000 + int(v) if str(v).isdigit() else 0, el)
        elif kw == 'ContextUID':
            n = _suffix(v, '1.2.840.10008.6.1.')
            put(isinstance(n, int) and n < 10000, 20000 + n if isinstance(n, int) else 0, el)
        elif kw == 'EquivalentCodeSequence':
            ints.append(40 + len(v))
            for e in v:
                n = _num(e.get('CodeValue'))
                ok = (isinstance(n, int) and 0 <= n and len(e) == 3 and e.get('CodingSchemeDesignator') == '99EQ'
                      and e.get('CodeMeaning') == f'eq{n}')
                if ok:
                    ints.append(50000 + n)
                else:
                    raw.append('equivalent code ' + ', '.join(f'{x.keyword}={x.value!r}' for x in e))
        else:
            raw.append(f'{kw or el.tag}={v!r}')
    return sorted(ints) + sorted(raw)


def entries_from(ds):
    """what the coded entries of one content item dataset carry beyond the basics (keys 14..17), plain pydicom"""
    o = []

    def add(key, seq):
        if seq is not None and len(seq) > 0:
            x = entry_extras(seq[0])
            if len(seq) > 1:
                x = x + [f'{len(seq)} items']
            if x:
                o.append([key, x])
    add(K_NAME, ds.get('ConceptNameCodeSequence'))
    add(K_CODE, ds.get('ConceptCodeSequence'))
    mvs = ds.get('MeasuredValueSequence')
    if mvs is not None and len(mvs) == 1:
        add(K_UNIT, mvs[0].get('MeasurementUnitsCodeSequence'))
    add(K_QUAL, ds.get('NumericValueQualifierCodeSequence'))
    return o


def build_item(t, root=False):
    """Real highdicom content items for a tree, through the constructors of the item classes."""
    import numpy as np
    from highdicom import sr
    vt, tag, rel, ref, kids = t[:5]
    o = dict((k, v) for k, v in opts_of(t))
    r = RELS[rel]
    n = _name(tag, o.get(K_NAME))

    def points(dim):
        m = o[9][0] if 9 in o else 1
        return np.array([[float(i + 1), float(tag)] + [2.0] * (dim - 2) for i in range(m)])
    if vt == 0:
        it = sr.ContainerContentItem(n, is_content_continuous=2 not in o,
                                     template_id=str(o[1][0]) if 1 in o else None, relationship_type=r)
    elif vt == 1:
        it = sr.TextContentItem(n, f'text {tag}', r)
    elif vt == 2:
        it = sr.CodeContentItem(n, make_entry(str(tag + 100), SCHEME, 'v', o.get(K_CODE)), r)
    elif vt == 3:
        it = sr.NumContentItem(n, o[4][0] if 4 in o else tag + 0.5, make_entry('mm', 'UCUM', 'mm', o.get(K_UNIT)),
                               qualifier=make_entry(str(o[3][0]), 'DCM', f'q{o[3][0]}', o.get(K_QUAL)) if 3 in o else None,
                               relationship_type=r)
    elif vt == IMAGE:
        def one(v):
            return None if v is None else (v[0] if len(v) == 1 else list(v))
        it = sr.ImageContentItem(n, CLASSES[ref[1]], uid_of(ref[0]), referenced_frame_numbers=one(o.get(5)),
                                 referenced_segment_numbers=one(o.get(6)), relationship_type=r)
    elif vt == COMPOSITE:
        it = sr.CompositeContentItem(n, CLASSES[ref[1]], uid_of(ref[0]), relationship_type=r)
    elif vt == 6:
        it = sr.ScoordContentItem(n, 'POLYLINE' if 9 in o else 'POINT', points(2),
                                  pixel_origin_interpretation=['FRAME', 'VOLUME'][o[7][0]] if 7 in o else None,
                                  fiducial_uid=PFX + f'5.{o[8][0]}' if 8 in o else None, relationship_type=r)
    elif vt == SCOORD3D:
        it = sr.Scoord3DContentItem(n, 'POLYLINE' if 9 in o else 'POINT', points(3),
                                    frame_of_reference_uid=PFX + '9.1',
                                    fiducial_uid=PFX + f'5.{o[8][0]}' if 8 in o else None, relationship_type=r)
    elif vt == 8:
        it = sr.UIDRefContentItem(n, PFX + f'8.{tag}', r)
    elif vt == 9:
        it = sr.DateContentItem(n, datetime.date(2020, 1, tag), r)
    elif vt == 10:
        it = sr.TimeContentItem(n, datetime.time(10, tag, 0), r)
    elif vt == 11:
        it = sr.DateTimeContentItem(n, datetime.datetime(2020, 1, tag, 10, 0, 0), r)
    elif vt == 12:
        it = sr.PnameContentItem(n, f'Doe^J{tag}', r)
    elif vt == TCOORD:
        kw = {}
        if 11 in o:
            kw['referenced_time_offsets'] = [float(x) + 0.5 for x in o[11]]
        elif 12 in o:
            kw['referenced_date_time'] = [datetime.datetime(2020, 1, 1, 10, 0, x) for x in o[12]]
        else:
            kw['referenced_sample_positions'] = list(o.get(10, [1]))
        it = sr.TcoordContentItem(n, 'POINT' if sum(len(v) for v in kw.values()) == 1 else 'MULTIPOINT',
                                  relationship_type=r, **kw)
    elif vt == WAVEFORM:
        ch = o.get(13)
        it = sr.WaveformContentItem(n, CLASSES[ref[1]], uid_of(ref[0]),
                                    referenced_waveform_channels=None if ch is None else
                                    [(ch[i], ch[i + 1]) for i in range(0, len(ch), 2)], relationship_type=r)
    else:
        raise ValueError(vt)
    if K_OBS_UID in o:
        it.ObservationUID = PFX + f'6.{o[K_OBS_UID][0]}'
    if K_OBS_DT in o:
        it.ObservationDateTime = f'202001011000{o[K_OBS_DT][0]:02d}'
    if kids or tag % 2 == 0 or root:
        it.ContentSequence = sr.ContentSequence([build_item(k) for k in kids])
    return it


def build_raw(t, root=False, has_cs=True):
    """Plain pydicom datasets for a tree (find / collect kinds)."""
    from pydicom import Dataset
    vt, tag, rel, ref, kids = t[:5]
    ds = Dataset()
    ds.ValueType = VTS[vt]
    if vt == 0:
        ds.ContinuityOfContent = 'CONTINUOUS'
    cn = Dataset()
    cn.CodeValue, cn.CodingSchemeDesignator, cn.CodeMeaning = str(tag), SCHEME, f'm{tag}'
    ds.ConceptNameCodeSequence = [cn]
    if RELS[rel] is not None:
        ds.RelationshipType = RELS[rel]
    if ref is not None:
        r = Dataset()
        r.ReferencedSOPClassUID, r.ReferencedSOPInstanceUID = CLASSES[ref[1]], uid_of(ref[0])
        ds.ReferencedSOPSequence = [r]
    if root:
        if has_cs:
            ds.ContentSequence = [build_raw(k) for k in kids]
    elif kids or tag % 2 == 0:
        ds.ContentSequence = [build_raw(k) for k in kids]
    return ds


def _num(v):
    """int of a digit string, else the raw string (a value that should not be there stays visible)"""
    v = str(v)
    return int(v) if v.lstrip('-').isdigit() else v


def _ints(v):
    from pydicom.multival import MultiValue
    return [_num(x) for x in v] if isinstance(v, (MultiValue, list)) else [_num(v)]


def opts_from(ds):
    """optional attributes of one content item dataset, read with plain pydicom (whatever its value type)"""
    o = []
    if 'ContentTemplateSequence' in ds:
        ts = ds.ContentTemplateSequence
        o.append([1, [_num(x.get('TemplateIdentifier')) for x in ts] +
                  [str(x.get('MappingResource')) for x in ts if x.get('MappingResource') != 'DCMR']])
    if ds.get('ValueType') == 'CONTAINER' or 'ContinuityOfContent' in ds:
        cc = ds.get('ContinuityOfContent')
        if cc != 'CONTINUOUS':
            o.append([2, [] if cc == 'SEPARATE' else [str(cc)]])
    if 'NumericValueQualifierCodeSequence' in ds:
        o.append([3, [_num(entry_value(x)) for x in ds.NumericValueQualifierCodeSequence]])
    if 'MeasuredValueSequence' in ds and len(ds.MeasuredValueSequence) == 1:
        mv = ds.MeasuredValueSequence[0]
        if 'FloatingPointValue' not in mv:
            o.append([4, [_num(mv.get('NumericValue'))]])
    rs = ds.ReferencedSOPSequence[0] if 'ReferencedSOPSequence' in ds and len(ds.ReferencedSOPSequence) else {}
    if 'ReferencedFrameNumber' in rs:
        o.append([5, _ints(rs.ReferencedFrameNumber)])
    if 'ReferencedSegmentNumber' in rs:
        o.append([6, _ints(rs.ReferencedSegmentNumber)])
    if 'PixelOriginInterpretation' in ds:
        po = str(ds.PixelOriginInterpretation)
        o.append([7, [['FRAME', 'VOLUME'].index(po) if po in ('FRAME', 'VOLUME') else po]])
    if 'FiducialUID' in ds:
        o.append([8, [_suffix(ds.FiducialUID, PFX + '5.')]])
    if 'GraphicType' in ds and ds.GraphicType != 'POINT':
        dim = 3 if ds.ValueType == 'SCOORD3D' else 2
        o.append([9, [len(ds.GraphicData) // dim] + ([] if ds.GraphicType == 'POLYLINE' else [str(ds.GraphicType)])])
    if 'ReferencedSamplePositions' in ds and _ints(ds.ReferencedSamplePositions) != [1]:
        o.append([10, _ints(ds.ReferencedSamplePositions)])
    if 'ReferencedTimeOffsets' in ds:
        o.append([11, [_num(str(x)[:-2]) if str(x).endswith('.5') else str(x) for x in _ints(ds.ReferencedTimeOffsets)]])
    if 'ReferencedDateTime' in ds:
        o.append([12, [_suffix(str(x)[:14], '202001011000') for x in _ints(ds.ReferencedDateTime)]])
    if 'ReferencedWaveformChannels' in rs:
        o.append([13, _ints(rs.ReferencedWaveformChannels)])
    o = o + entries_from(ds)
    if 'ObservationUID' in ds:
        o.append([K_OBS_UID, [_suffix(ds.ObservationUID, PFX + '6.')]])
    if 'ObservationDateTime' in ds:
        o.append([K_OBS_DT, [_suffix(str(ds.ObservationDateTime)[:14], '202001011000')]])
    return o


def _tag(v):
    """number of a concept-name code value: itself when numeric (generated trees, DCM / SCT codes), else a
    fixed number derived from its characters (e.g. LOINC '18748-4', NCIt 'C67447' in template-built reports)"""
    v = str(v)
    return int(v) if v.isdigit() else 10 ** 9 + int.from_bytes(v.encode(), 'big') % 10 ** 9


def tree_of(ds):
    """Canonical tree of a dataset that is (or carries at top level) a content item."""
    rt = ds.get('RelationshipType', None)
    ref = None
    if 'ReferencedSOPSequence' in ds:
        r = ds.ReferencedSOPSequence[0]
        ref = [num_of(r.ReferencedSOPInstanceUID), CLASSES.index(str(r.ReferencedSOPClassUID))]
    return [VTS.index(ds.ValueType), _tag(entry_value(ds.ConceptNameCodeSequence[0])), RELS.index(rt), ref,
            [tree_of(k) for k in ds.get('ContentSequence', [])], opts_from(ds)]


# attributes of the document dataset that belong to the root content item
ROOT_KEYWORDS = ('ValueType', 'ConceptNameCodeSequence', 'ContinuityOfContent', 'ContentTemplateSequence',
                 'ContentSequence')


def _veq(x, y):
    """element values equal, up to the typed / string representation pydicom chooses for DA, TM, DT, DS, IS"""
    from pydicom.multival import MultiValue
    try:
        if x == y:
            return True
    except Exception:
        pass
    lx = list(x) if isinstance(x, (MultiValue, list, tuple)) else [x]
    ly = list(y) if isinstance(y, (MultiValue, list, tuple)) else [y]
    return len(lx) == len(ly) and all(str(p) == str(q) for p, q in zip(lx, ly))


def same(a, b):
    return ds_diff(a, b) is None


def ds_diff(a, b, path=''):
    """first difference between two datasets as a readable path (None if equal element by element; this is
    the dataset comparison used for trees that went through a file: pydicom's own == distinguishes the typed
    value a constructor stored from the string a reader returns)"""
    tags = sorted(set(a.keys()) | set(b.keys()))
    for tg in tags:
        if tg not in a or tg not in b:
            from pydicom.datadict import keyword_for_tag
            return f"{path}{keyword_for_tag(tg) or tg}: {'missing' if tg not in a else 'unexpected'}"
        ea, eb = a[tg], b[tg]
        name = ea.keyword or str(tg)
        if ea.VR == 'SQ' or eb.VR == 'SQ':
            if ea.VR != eb.VR or len(ea.value) != len(eb.value):
                return f'{path}{name}: {len(ea.value)} item(s) vs {len(eb.value)}'
            for i, (x, y) in enumerate(zip(ea.value, eb.value)):
                d = ds_diff(x, y, f'{path}{name}[{i}].')
                if d:
                    return d
        elif ea.VR != eb.VR or not _veq(ea.value, eb.value):
            return f'{path}{name}: {ea.VR} {ea.value!r} vs {eb.VR} {eb.value!r}'
    return None


def root_part(doc):
    from pydicom import Dataset
    r = Dataset()
    for kw in ROOT_KEYWORDS:
        if kw in doc:
            r[kw] = doc[kw]
    return r


_EVD_CACHE = {}


def evidence_ds(rec, patient=False):
    """Synthetic evidence instance (CT frame from harness/synth.py) with the given identity; patient=True: patient,
    study id and accession number numbered like the study (kinds doc_study / ko_study)."""
    import synth
    u, c, st, se = rec
    ds = synth.ct_frame((0.0, 0.0, float(u)), 2, 2, series_uid=series_of(se), study_uid=study_of(st))
    ds.SOPInstanceUID = uid_of(u)
    ds.SOPClassUID = CLASSES[c]
    if patient:
        ds.PatientID, ds.PatientName, ds.StudyID, ds.AccessionNumber = f'P{st}', f'Pat^{st}', f'S{st}', f'A{st}'
    return ds


def observe_identity(doc):
    """study, patient id, study id, accession number of the document itself (numbers)"""
    return [num_of(doc.StudyInstanceUID), _suffix(doc.get('PatientID'), 'P'), _suffix(doc.get('StudyID'), 'S'),
            _suffix(doc.get('AccessionNumber'), 'A')]


def plain_evidence(rec):
    from pydicom import Dataset
    u, c, st, se = rec
    ds = Dataset()
    ds.SOPInstanceUID, ds.SOPClassUID = uid_of(u), CLASSES[c]
    ds.StudyInstanceUID, ds.SeriesInstanceUID = study_of(st), series_of(se)
    return ds


def refs_of(seq):
    if seq is None:
        return None
    return [[num_of(st.StudyInstanceUID),
             [[num_of(se.SeriesInstanceUID),
               [[num_of(i.ReferencedSOPInstanceUID), CLASSES.index(str(i.ReferencedSOPClassUID))]
                for i in se.ReferencedSOPSequence]]
              for se in st.ReferencedSeriesSequence]]
            for st in seq]


def t4(t):
    st, se, u, c = t
    return [num_of(st), num_of(se), num_of(u), CLASSES.index(str(c))]


def _suffix(v, prefix):
    """number after a fixed prefix, or the raw value when it does not have that shape"""
    v = str(v)
    if v.startswith(prefix) and v[len(prefix):].isdigit():
        return int(v[len(prefix):])
    return v


def observe(doc, snapshot):
    """Property-level observables of a document object."""
    tree = tree_of(doc.content[0])
    if snapshot is not None and tree == tree_of(snapshot):
        # the canonical trees agree: look at every attribute (values, units, coordinates, ...) as well
        if not same(doc.content[0], snapshot):
            tree = ('content item of the document is not equal (dataset comparison) to the content given: '
                    f'{ds_diff(doc.content[0], snapshot)}')
        elif tree_of(doc) != tree:
            tree = 'top-level content attributes of the document differ from .content'
        elif ds_diff(root_part(doc), root_part(snapshot)) is not None:
            tree = ('top-level content attributes of the document differ from the content given: '
                    f'{ds_diff(root_part(doc), root_part(snapshot))}')
    vos = doc.get('VerifyingObserverSequence')
    obs = None
    if vos is not None:
        obs = [_suffix(vos[0].get('VerifyingObserverName'), 'Doe^J'), _suffix(vos[0].get('VerifyingOrganization'), 'Org')]
    pred = doc.get('PredecessorDocumentsSequence')
    return [SR_UIDS.index(str(doc.SOPClassUID)), tree,
            refs_of(doc.get('CurrentRequestedProcedureEvidenceSequence')),
            refs_of(doc.get('PertinentOtherEvidenceSequence')),
            None if pred is None else ([] if len(pred) == 0 else refs_of(pred)),
            [doc.CompletionFlag == 'COMPLETE', doc.VerificationFlag == 'VERIFIED', doc.PreliminaryFlag == 'FINAL', obs],
            [t4(t) for t in doc.get_evidence()], [t4(t) for t in doc.get_evidence(current_procedure_only=True)],
            [[num_of(a), num_of(b)] for a, b in doc.get_evidence_series()],
            [[num_of(a), num_of(b)] for a, b in doc.get_evidence_series(current_procedure_only=True)],
            observe_extras(doc)]


TS = {'explicit': '1.2.840.10008.1.2.1', 'implicit': '1.2.840.10008.1.2', 'jpeg': '1.2.840.10008.1.2.4.50'}


def make_doc(c):
    """Returns (document, snapshot of the root content item taken before the call, the root given)."""
    from highdicom import sr
    report = None
    if 'report' in c:
        report = build_report(c['report'])         # a MeasurementReport (content sequence with one root item)
        root = report[0]
    else:
        root = build_item(c['tree'], root=True)
    if not c['root_cs'] and 'ContentSequence' in root:
        del root.ContentSequence
    snapshot = copy.deepcopy(root)
    content = root
    if c['as_seq'] and report is not None:
        content = report
    elif c['as_seq']:
        from pydicom.sequence import Sequence
        content = Sequence([copy.deepcopy(root) if i else root for i in range(c.get('seq_n', 1))])
    ev = [evidence_ds(r, patient=c['kind'] == 'doc_study') for r in c['evidence']]
    kw = {}
    if c['observer'] is not None:
        kw['verifying_observer_name'] = f"Doe^J{c['observer']}" if c['observer'] else ''
    if c['org'] is not None:
        kw['verifying_organization'] = f"Org{c['org']}" if c['org'] else ''
    if c['previous'] is not None:
        kw['previous_versions'] = [plain_evidence(r) for r in c['previous']]
    if c['ts'] != 'explicit' or c['cls'] == 2:
        kw['transfer_syntax_uid'] = TS[c['ts']]
    if c.get('inst') is not None:
        kw['institution_name'] = f"Inst{c['inst']}"
    if c.get('dept') is not None:
        kw['institutional_department_name'] = f"Dept{c['dept']}"
    if c.get('codes') is not None:
        kw['performed_procedure_codes'] = [make_entry(str(900 + v % 10), SCHEME, f'p{v % 10}', PROC_FEATS[v // 10])
                                           for v in c['codes']]
    if c.get('requests') is not None:
        kw['requested_procedures'] = [requested_procedure(v) for v in c['requests']]
    cls = getattr(sr, SR_CLASSES[c['cls']])
    doc = cls(evidence=ev, content=content, series_instance_uid=PFX + '7.1', series_number=3,
              sop_instance_uid=PFX + '7.2', instance_number=1, manufacturer='verif',
              is_complete=c['complete'], is_final=c['final'], is_verified=c['verified'],
              record_evidence=c['record'], **kw)
    return doc, snapshot, root


def requested_procedure(v):
    from pydicom import Dataset
    ds = Dataset()
    ds.RequestedProcedureID = f'RP{v}'
    ds.StudyInstanceUID = study_of(1)
    ds.AccessionNumber = f'A{v}'
    return ds


# a performed procedure code n >= 10 is code n % 10 given as a coded entry with the features PROC_FEATS[n // 10]
PROC_FEATS = [[], [12], [4, 5, 17021, 27021], [2], [41, 50007], [3, 4, 6, 8, 9, 10100]]


def proc_code(x):
    """number of one item of PerformedProcedureCodeSequence (plain pydicom): 10 * variant + code"""
    d = _suffix(entry_value(x), '90')
    f = entry_extras(x)
    if not isinstance(d, int) or f not in PROC_FEATS:
        return f'{d} {f}'
    return 10 * PROC_FEATS.index(f) + d


def observe_extras(doc):
    """what the document records of the arguments that take part in no guard (plain pydicom)"""
    def opt(kw, prefix):
        return None if kw not in doc else _suffix(doc.get(kw), prefix)
    codes = doc.get('PerformedProcedureCodeSequence')
    reqs = doc.get('ReferencedRequestSequence')
    return [opt('InstitutionName', 'Inst'), opt('InstitutionalDepartmentName', 'Dept'),
            None if codes is None else [proc_code(x) for x in codes],
            None if reqs is None else [_suffix(x.get('RequestedProcedureID'), 'RP') for x in reqs]]


def observe_built(doc, snapshot, root, parsed=None):
    """observables of a freshly built document (or of `parsed`, obtained from it), plus the checks that
    the caller's tree was left untouched and that .content does not alias it"""
    if root != snapshot or not same(root, snapshot):
        # (== between coded entries looks at value / scheme / version only: compare element by element too)
        return f'the content tree given to the constructor was modified by it: {ds_diff(root, snapshot)}'
    obs = observe(doc if parsed is None else parsed, snapshot)
    # poke the caller's tree: the document's .content must not follow
    before = copy.deepcopy(doc.content[0])
    root.ContinuityOfContent = 'SEPARATE' if root.get('ContinuityOfContent') == 'CONTINUOUS' else 'CONTINUOUS'
    for k in root.get('ContentSequence', []):
        k.ObservationUID = PFX + '6.6'
    if doc.content[0] != before or not same(doc.content[0], before):
        return '.content of the document aliases the tree given by the caller'
    if parsed is not None and not isinstance(obs, str):
        # which parser the root template selected: .content is a MeasurementReport or a plain ContentSequence
        return [type(parsed.content).__name__ == 'MeasurementReport', obs]
    return obs


SEG_UIDS = {'seg': '1.2.840.10008.5.1.4.1.1.66.4', 'labelmap': '1.2.840.10008.5.1.4.1.1.66.7',
            'ct': '1.2.840.10008.5.1.4.1.1.2'}


def build_seg_ds(g):
    """pydicom dataset with exactly the attributes the two from_segmentation functions read"""
    from pydicom import Dataset
    ds = Dataset()
    ds.SOPClassUID = SEG_UIDS[g['cls']]
    ds.SOPInstanceUID = uid_of(500)
    ds.NumberOfFrames = g['nframes']
    if g['tiled']:
        ds.TotalPixelMatrixRows = 10
    pffg = []
    for sg, drv in g['frames']:
        f = Dataset()
        si = Dataset()
        si.ReferencedSegmentNumber = sg
        f.SegmentIdentificationSequence = [si]
        if drv is not None:
            items = []
            for d in drv:
                di = Dataset()
                if d is not None:
                    ss = []
                    for u, c, fr in d:
                        x = Dataset()
                        x.ReferencedSOPClassUID, x.ReferencedSOPInstanceUID = CLASSES[c], uid_of(u)
                        if fr is not None:
                            x.ReferencedFrameNumber = fr[0] if len(fr) == 1 else list(fr)
                        ss.append(x)
                    di.SourceImageSequence = ss
                items.append(di)
            f.DerivationImageSequence = items
        pffg.append(f)
    ds.PerFrameFunctionalGroupsSequence = pffg
    if g['refseries'] is not None:
        ins, se = g['refseries']
        r = Dataset()
        if ins is not None:
            xs = []
            for u, c in ins:
                x = Dataset()
                x.ReferencedSOPClassUID, x.ReferencedSOPInstanceUID = CLASSES[c], uid_of(u)
                xs.append(x)
            r.ReferencedInstanceSequence = xs
        if se is not None:
            r.SeriesInstanceUID = series_of(se)
        ds.ReferencedSeriesSequence = [r]
    return ds


def _src_obs(s, num=num_of, cls=lambda c: CLASSES.index(str(c))):
    fr = s.referenced_frame_numbers
    return [num(s.referenced_sop_instance_uid), cls(s.referenced_sop_class_uid), None if fr is None else [int(x) for x in fr]]


def obs_segref(r, **kw):
    fr = r.referenced_frame_numbers
    se = r.source_series_for_segmentation
    sn = r.referenced_segment_numbers
    return [num_of(r.referenced_sop_instance_uid), sn[0] if sn is not None and len(sn) == 1 else str(sn),
            None if fr is None else [int(x) for x in fr],
            [_src_obs(x, **kw) for x in r.source_images_for_segmentation],
            None if se is None else num_of(se.value)]


def obs_segframe(r, **kw):
    sn = r.referenced_segment_numbers
    return [num_of(r.referenced_sop_instance_uid), [int(x) for x in r.referenced_frame_numbers],
            sn[0] if sn is not None and len(sn) == 1 else str(sn), _src_obs(r.source_image_for_segmentation, **kw)]


def abstract_seg(ds, num=num_of, cls=lambda x: CLASSES.index(str(x)), series=num_of):
    """what the two from_segmentation functions read of a segmentation dataset, in the form of gen_seg
    (the inverse of build_seg_ds; also applied to real highdicom Segmentations)"""
    def frames_of(x):
        if 'ReferencedFrameNumber' not in x:
            return None
        return [int(v) for v in _ints(x.ReferencedFrameNumber)]
    frames = []
    for f in ds.PerFrameFunctionalGroupsSequence:
        drv = None
        if 'DerivationImageSequence' in f:
            drv = [None if 'SourceImageSequence' not in d else
                   [[num(x.ReferencedSOPInstanceUID), cls(x.ReferencedSOPClassUID), frames_of(x)]
                    for x in d.SourceImageSequence] for d in f.DerivationImageSequence]
        frames.append([int(f.SegmentIdentificationSequence[0].ReferencedSegmentNumber), drv])
    rs = None
    if 'ReferencedSeriesSequence' in ds:
        r = ds.ReferencedSeriesSequence[0]
        rs = [None if 'ReferencedInstanceSequence' not in r else
              [[num(x.ReferencedSOPInstanceUID), cls(x.ReferencedSOPClassUID)] for x in r.ReferencedInstanceSequence],
              None if 'SeriesInstanceUID' not in r else series(r.SeriesInstanceUID)]
    return {'cls': 'seg' if str(ds.SOPClassUID) in (SEG_UIDS['seg'], SEG_UIDS['labelmap']) else 'ct',
            'nframes': int(ds.NumberOfFrames), 'tiled': 'TotalPixelMatrixRows' in ds, 'frames': frames, 'refseries': rs}


def seg_norm(g):
    return dict(g, cls='seg' if g['cls'] != 'ct' else 'ct')


def seg_real_parts(c):
    """(segmentation, keyword arguments numbering the source instances, frame table, frames picked, abstraction)"""
    seg, suids = build_real_seg(c)
    table = []
    for f in seg.PerFrameFunctionalGroupsSequence:
        s0 = f.DerivationImageSequence[0].SourceImageSequence[0]
        fr = s0.get('ReferencedFrameNumber')
        table.append([int(f.SegmentIdentificationSequence[0].ReferencedSegmentNumber),
                      suids.index(str(s0.ReferencedSOPInstanceUID)), None if fr is None else int(fr)])
    of = [i + 1 for i, t in enumerate(table) if t[0] == c['sn']]
    pick = of[:max(1, int(c['pick'] * len(of) + 0.5))] if of else [1]
    kw = dict(num=lambda u: suids.index(str(u)), cls=lambda x: 0)
    g = abstract_seg(seg, series=lambda u: 0, **kw)
    return seg, kw, table, pick, g


def build_real_seg(c):
    """(segmentation, source uid list, frame table [(segment, source index, source frame|None)])"""
    import numpy as np
    import synth
    n, nseg = c['n'], c['nseg']
    arr = np.zeros((n, 4, 4, nseg), np.uint8)
    for i, p in enumerate(c['planes']):
        for j, on in enumerate(p):
            if on:
                arr[i, j:j + 2, :, j] = 1
    if c['multiframe']:
        sources = [synth.ct_multiframe([2.5 * i for i in range(n)][::-1] if c['reverse'] else [2.5 * i for i in range(n)], 4, 4)]
    else:
        sources = synth.ct_series(n, 4, 4)
    seg = synth.make_seg(sources, arr, 'BINARY', list(range(1, nseg + 1)))
    return seg, [str(x.SOPInstanceUID) for x in sources]


def build_report(c):
    """hd.sr.MeasurementReport for a tid1500 case"""
    from highdicom import sr
    from pydicom.sr.codedict import codes

    def cc(t, feats=None):
        return make_entry(*t, feats=feats)
    pool = c['pool']

    def measurement(m):
        kw = {}
        if m['qualifier'] is not None:
            kw['qualifier'] = cc(M_QUAL[m['qualifier']], m.get('qual_x'))
        if m['method']:
            kw['method'] = codes.SCT.AreaOfDefinedRegion
        if m['derivation']:
            kw['derivation'] = codes.SCT.Maximum
        if m['site']:
            kw['finding_sites'] = [sr.FindingSite(anatomic_location=codes.SCT.Liver)]
        if m['tracking']:
            kw['tracking_identifier'] = sr.TrackingIdentifier(uid=PFX + '4.9', identifier='m')
        if m['image'] is not None:
            u, cl = pool[m['image']][:2]
            kw['referenced_images'] = [sr.SourceImageForMeasurement(
                CLASSES[cl], uid_of(u), referenced_frame_numbers=[1, 2] if m['frames'] else None)]
        unit = make_entry('mm', 'UCUM', 'millimeter', m['unit_x']) if m.get('unit_x') else codes.UCUM.Millimeter
        return sr.Measurement(name=cc(M_NAMES[m['name']], m.get('name_x')), value=m['value'], unit=unit, **kw)
    groups = []
    for i, g in enumerate(c['groups']):
        kw = dict(tracking_identifier=sr.TrackingIdentifier(uid=PFX + f'4.{i + 1}', identifier=f'g{i}'),
                  measurements=[measurement(m) for m in g['meas']] or None,
                  qualitative_evaluations=[sr.QualitativeEvaluation(
                      name=sr.CodedConcept(str(200 + j), SCHEME, f'e{j}'),
                      value=make_entry(str(300 + j), SCHEME, 'v', g.get('eval_x')))
                      for j in range(g['evals'])] or None)
        if g['finding_type']:
            kw['finding_type'] = (make_entry('108369006', 'SCT', 'Neoplasm', g['finding_x']) if g.get('finding_x')
                                  else codes.SCT.Neoplasm)
        if g['session']:
            kw['session'] = f's{i}'
        u, cl = pool[g['source']][:2]
        if g['type'] == 'planar3d':
            import numpy as np
            region = sr.ImageRegion3D('POLYLINE', np.array([[1.0, 1.0, 2.0], [4.0, 1.0, 2.0], [4.0, 5.0, 2.0]]),
                                      frame_of_reference_uid=PFX + '9.1')
            groups.append(sr.PlanarROIMeasurementsAndQualitativeEvaluations(referenced_region=region, **kw))
        elif g['type'] == 'planar':
            import numpy as np
            region = sr.ImageRegion('POLYLINE', np.array([[1.0, 1.0], [4.0, 1.0], [4.0, 5.0], [1.0, 1.0]]),
                                    source_image=sr.SourceImageForRegion(CLASSES[cl], uid_of(u)),
                                    pixel_origin_interpretation=g['pixel_origin'])
            groups.append(sr.PlanarROIMeasurementsAndQualitativeEvaluations(referenced_region=region, **kw))
        else:
            groups.append(sr.MeasurementsAndQualitativeEvaluations(
                source_images=[sr.SourceImageForMeasurementGroup(CLASSES[cl], uid_of(u))], **kw))
    person = sr.ObserverContext(observer_type=codes.DCM.Person,
                                observer_identifying_attributes=sr.PersonObserverIdentifyingAttributes(name='Doe^J'))
    device = sr.ObserverContext(observer_type=codes.DCM.Device,
                                observer_identifying_attributes=sr.DeviceObserverIdentifyingAttributes(uid=PFX + '4.8'))
    ctx = sr.ObservationContext(observer_person_context=person if c['observer'] != 'device' else None,
                                observer_device_context=device if c['observer'] != 'person' else None)
    return sr.MeasurementReport(observation_context=ctx, procedure_reported=codes.LN.CTUnspecifiedBodyRegion,
                                imaging_measurements=groups,
                                title=codes.DCM.ImagingMeasurementReport if c['title'] else None)


def walk_ds(ds):
    """every content item dataset below ds, document order (plain pydicom)"""
    for k in ds.get('ContentSequence', []):
        yield k
        yield from walk_ds(k)


def num_items(ds):
    """[concept code, numeric value, qualifier code | None] of every NUM item below ds"""
    out = []
    for k in walk_ds(ds):
        if k.ValueType == 'NUM':
            q = k.get('NumericValueQualifierCodeSequence')
            mv = k.MeasuredValueSequence[0]
            x = dict((a, b) for a, b in entries_from(k))
            out.append([str(entry_value(k.ConceptNameCodeSequence[0])), float(mv.NumericValue),
                        str(entry_value(mv.MeasurementUnitsCodeSequence[0])),
                        None if q is None else str(entry_value(q[0])),
                        [x.get(K_NAME, []), x.get(K_UNIT, []), x.get(K_QUAL, [])]])
    return out


def ref_items(ds):
    return sorted({num_of(k.ReferencedSOPSequence[0].ReferencedSOPInstanceUID) for k in walk_ds(ds)
                   if k.ValueType in ('IMAGE', 'COMPOSITE')})


def run_tid1500(c):
    import pydicom
    from highdicom import sr
    report = build_report(c)
    root = report[0]
    snapshot = copy.deepcopy(root)
    cls = getattr(sr, SR_CLASSES[c['cls']])
    doc = catch(lambda: cls(evidence=[evidence_ds(r) for r in c['evidence']], content=report,
                            series_instance_uid=PFX + '7.1', series_number=3, sop_instance_uid=PFX + '7.2',
                            instance_number=1, manufacturer='verif', record_evidence=c['record'],
                            **({'transfer_syntax_uid': TS['explicit']} if c['cls'] == 2 else {})))
    if isinstance(doc, Err):
        return doc
    if root != snapshot or not same(root, snapshot):
        return f'the report given to the constructor was modified by it: {ds_diff(root, snapshot)}'
    views = [['.content of the constructed document', doc.content[0]],
             ['top-level attributes of the constructed document', root_part(doc)]]
    bio = io.BytesIO()
    doc.save_as(bio)
    bio.seek(0)
    if c['entry'] == 'srread':
        back = catch(lambda: sr.srread(bio))
    elif c['entry'] == 'dcmread':
        plain = pydicom.dcmread(bio)
        back = catch(lambda: cls.from_dataset(plain, copy=c['copy']))
    else:
        back = catch(lambda: cls.from_dataset(doc, copy=True))
    if isinstance(back, Err):
        return back
    views += [['.content of the parsed document', back.content[0]],
              ['top-level attributes of the parsed document', root_part(back)]]
    diffs = []
    for name, v in views:
        if not same(v, snapshot) or tree_shape(v) != tree_shape(snapshot):
            diffs.append(f'{name} differs from the report given: {ds_diff(v, snapshot)}')
    groups = catch(lambda: [[entry_value(m.name), None if m.qualifier is None else entry_value(m.qualifier)]
                            for g in (back.content.get_image_measurement_groups() +
                                      back.content.get_planar_roi_measurement_groups())
                            for m in g.get_measurements()])
    return [diffs, [type(doc.content).__name__, type(back.content).__name__, type(back).__name__],
            num_items(snapshot), [num_items(v) for _, v in views], ref_items(snapshot),
            refs_of(doc.get('CurrentRequestedProcedureEvidenceSequence')),
            refs_of(doc.get('PertinentOtherEvidenceSequence')),
            refs_of(back.get('CurrentRequestedProcedureEvidenceSequence')),
            refs_of(back.get('PertinentOtherEvidenceSequence')), groups]


def tree_shape(ds):
    """value types, names, relationship types and optional attributes of a whole tree (plain pydicom)"""
    return [str(ds.ValueType), str(entry_value(ds.ConceptNameCodeSequence[0])), str(ds.get('RelationshipType')),
            opts_from(ds), [tree_shape(k) for k in ds.get('ContentSequence', [])]]


def doc_kind(c):
    """a doc_verify case is handled like a doc case (in memory) or like a roundtrip case (written + srread)"""
    k = c['kind']
    if k == 'doc_verify':
        return 'roundtrip' if c.get('parse') else 'doc'
    if k == 'doc_entries':
        return c['how']              # 'doc' (in memory), 'roundtrip' (written + srread) or 'from_dataset'
    return k


def build_octx(o):
    """the real ObserverContext of a generated context [type, names of the identifying attributes]"""
    from highdicom import sr
    from pydicom.sr.codedict import codes
    from pydicom.sr.coding import Code
    vals = {'name': ['Doe^J', 'dev'][o[0]], 'login_name': 'jd', 'organization_name': 'Org', 'uid': PFX + '9.9',
            'manufacturer_name': 'verif', 'model_name': 'M1', 'serial_number': 'S1', 'physical_location': 'here',
            'role_in_organization': Code('R1', SCHEME, 'role one'), 'role_in_procedure': Code('R2', SCHEME, 'role two')}
    kw = {arg: vals[arg] for t, _, arg in CTX_ATTRS[o[0]] if t in o[1]}
    cls = [sr.PersonObserverIdentifyingAttributes, sr.DeviceObserverIdentifyingAttributes][o[0]]
    return sr.ObserverContext([codes.DCM.Person, codes.DCM.Device][o[0]], cls(**kw))


OBSERVER_CODES = {'121006': 0, '121007': 1}


def tree_ctx(ds):
    """tree_of + the value of every 'Observer Type' item among the children of the root (model key 30)"""
    t = tree_of(ds)
    for node, k in zip(t[4], ds.get('ContentSequence', [])):
        if node[1] == 121005 and 'ConceptCodeSequence' in k:
            v = str(k.ConceptCodeSequence[0].get('CodeValue'))
            node[5] = list(node[5]) + [[K_VALUE, [OBSERVER_CODES.get(v, 9)]]]
    return t


def run_ko_ctx(c):
    import pydicom
    from highdicom import ko
    from pydicom.sr.codedict import codes

    def f():
        objs = []
        for u, cl, img in c['refs']:
            d = evidence_ds([u, cl, 1, 1])
            if not img:
                del d.Rows
                del d.Columns
            objs.append(d)
        content = ko.KeyObjectSelection(
            document_title=make_entry('113000', 'DCM', 'Of Interest', c.get('title_x')), referenced_objects=objs,
            observer_person_context=None if c['person'] is None else build_octx(c['person']),
            observer_device_context=None if c['device'] is None else build_octx(c['device']),
            description=None if c['descr'] is None else f"d{c['descr']}")
        given = copy.deepcopy(content)
        doc = ko.KeyObjectSelectionDocument(
            evidence=[evidence_ds(r) for r in c['evidence']], content=content,
            series_instance_uid=PFX + '7.1', series_number=3, sop_instance_uid=PFX + '7.2',
            instance_number=1, manufacturer='verif', transfer_syntax_uid=TS[c['ts']],
            institution_name=None if c['inst'] is None else f"Inst{c['inst']}",
            institutional_department_name=None if c['dept'] is None else f"Dept{c['dept']}",
            requested_procedures=None if c['requests'] is None else [requested_procedure(v) for v in c['requests']])
        return doc, given, content
    r = catch(f)
    if isinstance(r, Err):
        return r
    doc, given, content = r
    if not same(given[0], content[0]):
        return f'the constructor changed the content it was given: {ds_diff(given[0], content[0])}'
    if not same(doc.content[0], given[0]):
        return f'document content differs from the content given: {ds_diff(doc.content[0], given[0])}'
    if c['parse'] is not None:
        if c['parse'] == 'dcmread':
            bio = io.BytesIO()
            doc.save_as(bio)
            bio.seek(0)
            src = pydicom.dcmread(bio)
        else:
            src = copy.deepcopy(doc)
        back = catch(lambda: ko.KeyObjectSelectionDocument.from_dataset(src))
        if isinstance(back, Err):
            return back
        if not same(back.content[0], given[0]):
            return f'parsed content differs from the content given: {ds_diff(back.content[0], given[0])}'
        doc = back
    tree = tree_ctx(doc.content[0])
    if tree_ctx(doc) != tree:
        return 'top-level content attributes of the document differ from .content'
    ctxs = []
    for flt in c['filters']:
        code = None if flt is None else [codes.DCM.Person, codes.DCM.Device, codes.DCM.Recording][flt]

        def g():
            return [[OBSERVER_CODES.get(str(x.observer_type.value), 9),
                     [_tag(entry_value(k.ConceptNameCodeSequence[0])) for k in list(x)[1:]]]
                    for x in doc.content.get_observer_contexts(code)]
        ctxs.append(catch(g))
    ex = observe_extras(doc)
    return [tree, refs_of(doc.get('CurrentRequestedProcedureEvidenceSequence')),
            refs_of(doc.get('PertinentOtherEvidenceSequence')), ex, ctxs]


def run_identity(c):
    """kinds doc_study / ko_study: the identity of the document (study, patient, study id, accession number), in
    memory and - parse - after the file round trip"""
    import pydicom
    from highdicom import ko, sr

    def f():
        if c['kind'] == 'doc_study':
            return make_doc(c)[0]
        objs = []
        for u, cl, img in c['refs']:
            d = evidence_ds([u, cl, 1, 1])
            if not img:
                del d.Rows
                del d.Columns
            objs.append(d)
        content = ko.KeyObjectSelection(
            document_title=make_entry('113000', 'DCM', 'Of Interest', c.get('title_x')), referenced_objects=objs,
            description=None if c['descr'] is None else f"d{c['descr']}")
        return ko.KeyObjectSelectionDocument(
            evidence=[evidence_ds(r, patient=True) for r in c['evidence']], content=content,
            series_instance_uid=PFX + '7.1', series_number=3, sop_instance_uid=PFX + '7.2',
            instance_number=1, manufacturer='verif', transfer_syntax_uid=TS[c['ts']])
    doc = catch(f)
    if isinstance(doc, Err):
        return doc
    out = [observe_identity(doc)]
    if c['parse']:
        bio = io.BytesIO()
        doc.save_as(bio)
        bio.seek(0)
        back = sr.srread(bio) if c['kind'] == 'doc_study' else ko.KeyObjectSelectionDocument.from_dataset(pydicom.dcmread(bio))
        out.append(observe_identity(back))
    return out


def run_impl(c):
    import warnings
    warnings.filterwarnings('ignore')
    from highdicom import sr
    from highdicom.sr import utils as sru
    k = doc_kind(c)
    if k == 'find':
        ds = build_raw(c['tree'], root=True, has_cs=c['has_cs'])
        q = c['q']

        def f():
            got = sru.find_content_items(
                ds, name=None if q['name'] is None else _name(q['name']),
                value_type=None if q['vt'] is None else VTS[q['vt']],
                relationship_type=None if q['rel'] is None else RELS[q['rel']],
                recursive=c['recursive'])
            return [tree_of(g) for g in got]
        return catch(f)
    if k == 'find_name':
        ds = build_raw_named(c['tree'], root=True, has_cs=c['has_cs'])
        q, qn = c['q'], c['qname']

        def f():
            name = None
            if qn is not None:
                name = make_entry(str(qn['code']), SCHEME if qn['scheme'] else '99OTHER', f"m{qn['code']}",
                                  ([qn['form']] if qn['form'] else []) + ([10 + qn['version']] if qn['version'] else []))
            got = sru.find_content_items(
                ds, name=name, value_type=None if q['vt'] is None else VTS[q['vt']],
                relationship_type=None if q['rel'] is None else RELS[q['rel']], recursive=c['recursive'])
            return [tree_of(g) for g in got]
        return catch(f)
    if k in ('collect', 'collect_err'):
        ds = build_raw(c['tree'], root=True, has_cs=c['has_cs'])
        ev = [plain_evidence(r) for r in c['evidence']]

        def f():
            a, b = sru.collect_evidence(ev, ds)
            return [refs_of(a) or None, refs_of(b) or None]
        return catch(f)
    if k in ('doc', 'doc_err'):
        r = catch(lambda: make_doc(c))
        return r if isinstance(r, Err) else observe_built(*r)
    if k in ('roundtrip', 'report_doc'):
        r = catch(lambda: make_doc(c))
        if isinstance(r, Err):
            return r
        doc, snap, root = r

        def f():
            bio = io.BytesIO()
            doc.save_as(bio)
            bio.seek(0)
            return sr.srread(bio)
        back = catch(f)
        if isinstance(back, Err):
            return back
        obs = observe_built(doc, snap, root, parsed=back)
        return obs if isinstance(obs, str) else [SR_CLASSES.index(type(back).__name__), obs]
    if k == 'from_dataset':
        r = catch(lambda: make_doc(c))
        if isinstance(r, Err):
            return r
        doc, snap, root = r
        via, cp = c.get('via', 'document'), c.get('copy', True)
        given = doc
        if via == 'dcmread':
            # the written bytes, read with plain pydicom
            import pydicom
            bio = io.BytesIO()
            doc.save_as(bio)
            bio.seek(0)
            given = pydicom.dcmread(bio)
        elif not cp:
            given = copy.deepcopy(doc)
        before = copy.deepcopy(given)
        back = catch(lambda: getattr(sr, SR_CLASSES[c['target']]).from_dataset(given, copy=cp))
        if isinstance(back, Err):
            return back
        if type(back).__name__ != SR_CLASSES[c['target']]:
            return 'from_dataset returned a ' + type(back).__name__
        if cp and (given != before or not same(given, before)):
            return f'from_dataset(copy=True) changed the dataset it was given: {ds_diff(given, before)}'
        if not cp and back is not given:
            return 'from_dataset(copy=False) did not convert the dataset it was given in place'
        return observe_built(doc, snap, root, parsed=back)
    if k == 'tid1500':
        return run_tid1500(c)
    if k == 'segref':
        ds = build_seg_ds(c['seg'])
        if abstract_seg(ds) != seg_norm(c['seg']):
            return 'harness: the abstraction read back from the synthetic dataset differs from the case'
        r = catch(lambda: sr.ReferencedSegment.from_segmentation(ds, segment_number=c['sn'], frame_numbers=c['fns']))
        return r if isinstance(r, Err) else obs_segref(r)
    if k == 'segframe':
        ds = build_seg_ds(c['seg'])
        if abstract_seg(ds) != seg_norm(c['seg']):
            return 'harness: the abstraction read back from the synthetic dataset differs from the case'
        r = catch(lambda: sr.ReferencedSegmentationFrame.from_segmentation(
            ds, frame_number=c['fa'], segment_number=c['sn']))
        return r if isinstance(r, Err) else obs_segframe(r)
    if k == 'seg_real':
        seg, kw, table, pick, _ = seg_real_parts(c)
        api = c['api']
        if api == 'segment':
            r = catch(lambda: sr.ReferencedSegment.from_segmentation(seg, segment_number=c['sn']))
            o = r if isinstance(r, Err) else obs_segref(r, **kw)[1:]
        elif api == 'segment_frames':
            r = catch(lambda: sr.ReferencedSegment.from_segmentation(seg, segment_number=c['sn'], frame_numbers=pick))
            o = r if isinstance(r, Err) else obs_segref(r, **kw)[1:]
        elif api == 'frame':
            r = catch(lambda: sr.ReferencedSegmentationFrame.from_segmentation(seg, frame_number=pick[0]))
            o = r if isinstance(r, Err) else obs_segframe(r, **kw)[1:]
        else:
            r = catch(lambda: sr.ReferencedSegmentationFrame.from_segmentation(
                seg, frame_number=pick[0], segment_number=c['sn']))
            o = r if isinstance(r, Err) else obs_segframe(r, **kw)[1:]
        if not isinstance(r, Err) and str(r.referenced_sop_instance_uid) != str(seg.SOPInstanceUID):
            return 'reference does not name the segmentation instance'
        px = seg.pixel_array.reshape(len(table), -1).any(axis=1).tolist()
        return [table, pick, o, px]
    if k == 'ko_ctx':
        return run_ko_ctx(c)
    if k in ('doc_study', 'ko_study'):
        return run_identity(c)
    if k in ('ko', 'ko_err', 'ko_srread', 'ko_parse'):
        from highdicom import ko

        def f():
            objs = []
            for u, cl, img in c['refs']:
                d = evidence_ds([u, cl, 1, 1])
                if not img:
                    del d.Rows
                    del d.Columns
                objs.append(d)
            content = ko.KeyObjectSelection(
                document_title=make_entry('113000', 'DCM', 'Of Interest', c.get('title_x')), referenced_objects=objs,
                description=None if c['descr'] is None else f"d{c['descr']}")
            doc = ko.KeyObjectSelectionDocument(
                evidence=[evidence_ds(r) for r in c['evidence']], content=content,
                series_instance_uid=PFX + '7.1', series_number=3, sop_instance_uid=PFX + '7.2',
                instance_number=1, manufacturer='verif', transfer_syntax_uid=TS[c['ts']])
            return doc
        doc = catch(f)
        if isinstance(doc, Err):
            return doc
        if k == 'ko_srread':
            def g():
                bio = io.BytesIO()
                doc.save_as(bio)
                bio.seek(0)
                return sr.srread(bio)
            back = catch(g)
            return back if isinstance(back, Err) else SR_CLASSES.index(type(back).__name__)
        if k == 'ko_parse':
            import pydicom
            if c['via'] == 'dcmread':
                bio = io.BytesIO()
                doc.save_as(bio)
                bio.seek(0)
                given = pydicom.dcmread(bio)
            else:
                given = copy.deepcopy(doc)
            t = KO_TAMPER[c['tamper']]
            if t == 'class':
                given.SOPClassUID = SR_UIDS[1]
            elif t == 'template':
                given.ContentTemplateSequence[0].TemplateIdentifier = '2000'
            elif t == 'no_template':
                del given.ContentTemplateSequence
            elif t == 'no_evidence_seq':
                del given.CurrentRequestedProcedureEvidenceSequence
            elif t == 'value_type':
                given.ValueType = 'TEXT'
            elif t == 'no_content_seq':
                del given.ContentSequence
            before = copy.deepcopy(given)
            back = catch(lambda: ko.KeyObjectSelectionDocument.from_dataset(given))
            if isinstance(back, Err):
                return back
            if given != before or not same(given, before):
                return 'KeyObjectSelectionDocument.from_dataset changed the dataset it was given'
            if type(back).__name__ != 'KeyObjectSelectionDocument' or type(back.content).__name__ != 'KeyObjectSelection':
                return f'parsed object is a {type(back).__name__} with a {type(back.content).__name__}'
            tree = tree_of(back.content[0])
            if tree_of(back) != tree:
                return 'top-level content attributes of the parsed document differ from .content'
            if not same(back.content[0], doc.content[0]):
                return f'parsed content differs from the content written: {ds_diff(back.content[0], doc.content[0])}'
            res = []
            for u in c['queries']:
                r = catch(lambda: back.resolve_reference(uid_of(u)))
                res.append(r if isinstance(r, Err) else [num_of(x) for x in r])
            got = catch(lambda: [tree_of(x) for x in back.content.get_references(
                value_type=None if c['vf'] is None else VTS[c['vf']],
                sop_class_uid=None if c['cf'] is None else CLASSES[c['cf']])])
            return [tree, refs_of(back.get('CurrentRequestedProcedureEvidenceSequence')),
                    refs_of(back.get('PertinentOtherEvidenceSequence')), res, got]
        tree = tree_of(doc.content[0])
        if tree_of(doc) != tree:
            tree = 'top-level content attributes of the document differ from .content'
        res = []
        for u in c['queries']:
            r = catch(lambda: doc.resolve_reference(uid_of(u)))
            res.append(r if isinstance(r, Err) else [num_of(x) for x in r])
        return [tree, refs_of(doc.get('CurrentRequestedProcedureEvidenceSequence')),
                refs_of(doc.get('PertinentOtherEvidenceSequence')), res]
    raise ValueError(k)


# --------------------------------------------------------------------------
# model terms
# --------------------------------------------------------------------------
COQ_VT = VTS


def coq_item(t):
    vt, tag, rel, ref, kids = t[:5]
    r = 'None' if ref is None else f'(Some ({zlit(ref[0])}, {zlit(ref[1])}))'
    ats = '[' + '; '.join(f'({zlit(k)}, {coq_zl(v)})' for k, v in opts_of(t)) + ']'
    return f"(Item {COQ_VT[vt]} {zlit(tag)} {zlit(rel)} {r} {ats} [{'; '.join(coq_item(k) for k in kids)}])"


def coq_evd(rs):
    return '[' + '; '.join(f'(Evd {zlit(u)} {zlit(c)} {zlit(st)} {zlit(se)})' for u, c, st, se in rs) + ']'


def coq_b(b):
    return 'true' if b else 'false'


def coq_optz(x):
    return 'None' if x is None else f'(Some {zlit(x)})'


def coq_args(c):
    if c['as_seq']:
        n = c.get('seq_n', 1)
        content = '(CSequence [' + '; '.join([coq_item(c['tree'])] * n) + '])'
    else:
        content = f"(CDataset {coq_item(c['tree'])})"
    prev = 'None' if c['previous'] is None else f"(Some {coq_evd(c['previous'])})"
    return (f"(Args {coq_evd(c['evidence'])} {content} {coq_b(c['root_cs'])} {coq_b(c['ts'] != 'jpeg')} "
            f"{coq_b(c['complete'])} {coq_b(c['final'])} {coq_b(c['verified'])} {coq_optz(c['observer'])} "
            f"{coq_optz(c['org'])} {prev} {coq_b(c['record'])} {coq_extras(c)})")


def coq_optzl(x):
    return 'None' if x is None else f'(Some {coq_zl(x)})'


def coq_extras(c):
    return (f"(Extras {coq_optz(c.get('inst'))} {coq_optz(c.get('dept'))} {coq_optzl(c.get('codes'))} "
            f"{coq_optzl(c.get('requests'))})")


def coq_zl(xs):
    return '[' + '; '.join(zlit(x) for x in xs) + ']'


def coq_seg(g):
    def src(x):
        u, c, fr = x
        return f"(Src {zlit(u)} {zlit(c)} {'None' if fr is None else '(Some ' + coq_zl(fr) + ')'})"

    def drv(d):
        if d is None:
            return 'None'
        return '(Some [' + '; '.join('None' if x is None else '(Some [' + '; '.join(src(y) for y in x) + '])'
                                     for x in d) + '])'
    frames = '[' + '; '.join(f'(SFrame {zlit(sg)} {drv(d)})' for sg, d in g['frames']) + ']'
    if g['refseries'] is None:
        rs = 'None'
    else:
        ins, se = g['refseries']
        i = 'None' if ins is None else '(Some [' + '; '.join(f'({zlit(u)}, {zlit(c)})' for u, c in ins) + '])'
        rs = f'(Some (RefSeries {i} {coq_optz(se)}))'
    return f"(Seg {coq_b(g['cls'] != 'ct')} 500 {zlit(g['nframes'])} {coq_b(g['tiled'])} {frames} {rs})"


def coq_term(c):
    k = doc_kind(c)
    if k == 'find':
        q = c['q']
        qq = (f"(Query {coq_optz(q['name'])} {'None' if q['vt'] is None else '(Some ' + COQ_VT[q['vt']] + ')'} "
              f"{coq_optz(q['rel'])})")
        return f"(run_find {coq_b(c['has_cs'])} {qq} {coq_b(c['recursive'])} {coq_item(c['tree'])})"
    if k == 'find_name':
        q, qn = c['q'], c['qname']
        qq = f"(Query None {'None' if q['vt'] is None else '(Some ' + COQ_VT[q['vt']] + ')'} {coq_optz(q['rel'])})"
        nm = ('None' if qn is None else
              f"(Some (QName {zlit(qn['code'])} {zlit(qn['form'])} {zlit(qn['version'])} {coq_b(qn['scheme'])}))")
        return f"(run_find_name {coq_b(c['has_cs'])} {nm} {qq} {coq_b(c['recursive'])} {coq_item(c['tree'])})"
    if k in ('collect', 'collect_err'):
        return f"(run_collect {coq_b(c['has_cs'])} {coq_evd(c['evidence'])} {coq_item(c['tree'])})"
    if k in ('doc', 'doc_err'):
        return f"(run_doc {COQ_CLASSES[c['cls']]} {coq_args(c)})"
    if k == 'roundtrip':
        return f"(run_roundtrip {COQ_CLASSES[c['cls']]} {coq_args(c)})"
    if k == 'report_doc':
        # the model is run on the tree highdicom's template classes built (the dataset handed to the constructor)
        c2 = dict(c, tree=tree_of(build_report(c['report'])[0]))
        return f"(run_roundtrip {COQ_CLASSES[c['cls']]} {coq_args(c2)})"
    if k == 'from_dataset':
        return f"(run_from_dataset {COQ_CLASSES[c['cls']]} {COQ_CLASSES[c['target']]} {coq_args(c)})"
    if k == 'segref':
        fns = 'None' if c['fns'] is None else f"(Some {coq_zl(c['fns'])})"
        return f"(run_segref {coq_seg(c['seg'])} {zlit(c['sn'])} {fns})"
    if k == 'segframe':
        fa = c['fa']
        a = 'FNone' if fa is None else (f'(FInt {zlit(fa)})' if isinstance(fa, int) else f'(FList {coq_zl(fa)})')
        return f"(run_segframe {coq_seg(c['seg'])} {a} {coq_optz(c['sn'])})"
    if k == 'seg_real':
        # the model is run on the abstraction EXTRACTED from the real Segmentation object
        _, _, table, pick, g = seg_real_parts(c)
        api = c['api']
        if api in ('segment', 'segment_frames'):
            fns = 'None' if api == 'segment' else f'(Some {coq_zl(pick)})'
            run = f"(run_segref_real {coq_seg(g)} {zlit(c['sn'])} {fns})"
        else:
            run = f"(run_segframe_real {coq_seg(g)} (FInt {zlit(pick[0])}) {coq_optz(c['sn'] if api == 'frame_sn' else None)})"
        px = [True] * len(table)     # run_impl reports a frame without pixels through the oracle
        return f"(VL [{common.to_val(table)}; {common.to_val(pick)}; {run}; {common.to_val(px)}])"
    if k == 'tid1500':
        return None
    if k == 'doc_study':
        return f"(run_doc_study {COQ_CLASSES[c['cls']]} {coq_args(c)} {coq_b(c['parse'])})"
    refs = '[' + '; '.join(f'({zlit(u)}, {zlit(cl)}, {coq_b(img)})' for u, cl, img in c['refs']) + ']'
    tx = coq_zl(c.get('title_x') or [])
    if k in ('ko', 'ko_err'):
        qs = '[' + '; '.join(zlit(u) for u in c['queries']) + ']'
        return (f"(run_ko {coq_evd(c['evidence'])} {coq_b(c['ts'] != 'jpeg')} 113000 {tx} {coq_optz(c['descr'])} "
                f"{refs} {qs})")
    if k == 'ko_srread':
        return f"(run_ko_srread {coq_evd(c['evidence'])} 113000 {tx} {refs})"
    if k == 'ko_study':
        return (f"(run_ko_study {coq_evd(c['evidence'])} {coq_b(c['ts'] != 'jpeg')} 113000 {tx} {coq_optz(c['descr'])} "
                f"{refs} {coq_b(c['parse'])})")
    if k == 'ko_ctx':
        def octx(o):
            if o is None:
                return 'None'
            return f"(Some (OCtx {zlit(o[0])} [{'; '.join(coq_item(t) for t in ctx_tree(o)[1:])}]))"
        flts = '[' + '; '.join(coq_optz(f) for f in c['filters']) + ']'
        x = f"(Extras {coq_optz(c['inst'])} {coq_optz(c['dept'])} None {coq_optzl(c['requests'])})"
        return (f"(run_ko_ctx {coq_evd(c['evidence'])} {coq_b(c['ts'] != 'jpeg')} 113000 {tx} {octx(c['person'])} "
                f"{octx(c['device'])} {coq_optz(c['descr'])} {refs} {x} {coq_b(c['parse'] is not None)} {flts})")
    if k == 'ko_parse':
        qs = '[' + '; '.join(zlit(u) for u in c['queries']) + ']'
        vf = 'None' if c['vf'] is None else f"(Some {COQ_VT[c['vf']]})"
        return (f"(run_ko_parse {coq_evd(c['evidence'])} 113000 {tx} {coq_optz(c['descr'])} {refs} {zlit(c['tamper'])} "
                f"{qs} {vf} {coq_optz(c['cf'])})")
    raise ValueError(k)


# --------------------------------------------------------------------------
# independent oracle: set algebra on the implementation's output
# --------------------------------------------------------------------------
def _flat(refs):
    return [(st, se, u, cl) for st, sers in (refs or []) for se, ins in sers for u, cl in ins]


def _first(evidence):
    first = {}
    for u, cl, st, se in evidence:
        first.setdefault(u, (st, se, u, cl))
    return first


def check_partition(evidence, ref, cur, oth, record=True, what=''):
    """cur / oth: nested [study, [[series, [[uid, class]..]]..]] or None."""
    first = _first(evidence)
    sup = set(first)
    for name, refs, want in (('current', cur, ref & sup), ('other', oth, (sup - ref) if record else set())):
        if refs is not None and len(refs) == 0:
            return f'{what}{name} evidence sequence present but empty'
        fl = _flat(refs)
        uids = [t[2] for t in fl]
        if sorted(uids) != sorted(want):
            return (f'{what}{name} evidence lists instances {sorted(uids)}, expected each of {sorted(want)} '
                    f'exactly once')
        for t in fl:
            if first[t[2]] != t:
                return f'{what}{name} evidence lists {t}, supplied as {first[t[2]]}'
        studies = [s for s, _ in (refs or [])]
        if len(set(studies)) != len(studies):
            return f'{what}{name} evidence lists a study twice: {studies}'
        for s, sers in (refs or []):
            ss = [x for x, _ in sers]
            if len(set(ss)) != len(ss) or not ss:
                return f'{what}{name} evidence lists a series twice (or none) under study {s}: {ss}'
            if any(len(ins) == 0 for _, ins in sers):
                return f'{what}{name} evidence has an empty series under study {s}'
    return None


def tree_diff(got, want, path='root'):
    """first difference between two canonical trees, as a sentence"""
    names = ['value type', 'concept name', 'relationship', 'referenced instance', None, 'optional attributes']
    for i in (0, 1, 2, 3, 5):
        if got[i] != want[i]:
            extra = ''
            if i == 5:
                keys = sorted({k for k, _ in got[5]} ^ {k for k, _ in want[5]} |
                              {k for k, v in got[5] if [k, v] not in want[5] and k in dict((a, b) for a, b in want[5])})
                extra = ' (' + '; '.join(OPT_KEYS.get(k, str(k)) for k in keys) + ')'
                lost = [feat_name(x) for k, v in want[5] if k >= K_NAME
                        for x in v if x not in (dict((a, b) for a, b in got[5]).get(k) or [])]
                if lost:
                    extra += ' - coded entry attributes given but not exposed: ' + ', '.join(lost)
            return f'{names[i]} of {path} [{VTS[want[0]]}] is {got[i]}, given {want[i]}{extra}'
    if len(got[4]) != len(want[4]):
        return f'{path} has {len(got[4])} children, given {len(want[4])}'
    for j, (a, b) in enumerate(zip(got[4], want[4])):
        d = tree_diff(a, b, f'{path}.{j}')
        if d:
            return d
    return None


def _tree_has(t, vt):
    return any(k[0] == vt for k, _ in walk(t))


def doc_expect_error(c):
    """None if the document must be accepted, else the reason it must be refused."""
    if not c['evidence']:
        return 'no evidence'
    if c['ts'] == 'jpeg':
        return 'unsupported transfer syntax'
    if c['verified'] and (not c['observer'] or not c['org']):
        def how(v):
            return 'missing' if v is None else ('empty' if v == 0 else 'given')
        return ('verified without verification details (observer name ' + how(c['observer']) +
                ', organization ' + how(c['org']) +
                (f", institution name {c['inst']} given" if c.get('inst') is not None else '') + ')')
    if c['as_seq'] and c.get('seq_n', 1) != 1:
        return 'content sequence without exactly one item'
    if c['tree'][2] != 0 or c['tree'][0] != 0:
        return 'root item is not a relationship-free container'
    if not c['root_cs']:
        return 'root has no content sequence'
    if any(k[0] in (IMAGE, COMPOSITE) and k[3] is None for k, _ in walk(c['tree'])):
        return 'reference item without referenced instance'
    if not referenced(c['tree']) <= {r[0] for r in c['evidence']}:
        return 'reference without supplied evidence'
    if c['cls'] != 2 and _tree_has(c['tree'], SCOORD3D):
        return '3D coordinates in a class that cannot hold them'
    return None


def check_extras(c, extras):
    """the arguments that take part in no guard are recorded as given - and nowhere else"""
    inst, dept, codes, reqs = extras
    if inst != c.get('inst'):
        return f"institution name recorded as {inst}, given {c.get('inst')}"
    if dept is not None and dept != c.get('dept'):
        return f"department name recorded as {dept}, given {c.get('dept')}"
    if dept is None and c.get('dept') is not None and c.get('inst') is not None:
        return 'department name given together with an institution name but not recorded'
    if codes != (c.get('codes') or []):
        return f"performed procedure codes recorded as {codes}, given {c.get('codes')}"
    if reqs != c.get('requests'):
        return f"requested procedures recorded as {reqs}, given {c.get('requests')}"
    return None


def check_doc_obs(c, obs, parsed=False, ref=None):
    cls, tree, cur, oth, pred, flags, ge, gec, ges, gesc, extras = obs
    if isinstance(tree, str):
        return tree
    m = check_extras(c, extras)
    if m:
        return m
    if cls != c['cls']:
        return f"document has SOP class {cls}, requested {c['cls']}"
    if ref is None:
        if tree != canon(c['tree']):
            return f'content tree of the document differs from the tree given: {tree_diff(tree, canon(c["tree"]))}'
        ref = referenced(c['tree'])
    m = check_partition(c['evidence'], ref, cur, oth, c['record'])
    if m:
        return m
    want = [list(t) for t in _flat(cur)]
    want_all = want + [list(t) for t in _flat(oth)]
    if ge != want_all or gec != want:
        return f'get_evidence returns {ge} / {gec}, the evidence sequences hold {want_all} / {want}'
    ws = [[st, se] for st, sers in (cur or []) for se, _ in sers]
    wsa = ws + [[st, se] for st, sers in (oth or []) for se, _ in sers if [st, se] not in ws]
    if ges != wsa or gesc != ws:
        return f'get_evidence_series returns {ges} / {gesc}, expected {wsa} / {ws}'
    if flags[:3] != [c['complete'], c['verified'], c['final']]:
        return f'completion/verification/preliminary flags {flags[:3]}'
    if c['verified'] and flags[3] != [c['observer'], c['org']]:
        return f'verifying observer recorded as {flags[3]}'
    if not c['verified'] and flags[3] is not None:
        return 'unverified document carries a verifying observer'
    if c['previous'] is None:
        if pred is not None:
            return 'predecessor sequence without previous versions'
    else:
        got = sorted(_flat(pred))
        exp = sorted((st, se, u, cl) for u, cl, st, se in c['previous'])
        if got != exp:
            return f'predecessor documents {got}, previous versions given {exp}'
    return None



def _frame_srcs(f):
    """derivation sources of one abstract frame, document order"""
    return [x for d in (f[1] or []) if d is not None for x in d]


def oracle_segref(c, out):
    g, sn, fns = c['seg'], c['sn'], c['fns']
    n = g['nframes']
    if g['cls'] == 'ct':
        return None if isinstance(out, Err) else 'a dataset that is not a segmentation was accepted'
    if fns is not None:
        if any(f < 1 or f > n for f in fns):
            return None if isinstance(out, Err) else f'invalid frame number in {fns} accepted'
        if any(g['frames'][f - 1][0] != sn for f in fns):
            return None if isinstance(out, Err) else f'frames {fns} do not all belong to segment {sn} but were accepted'
        used = list(fns)
    else:
        used = [i + 1 for i, f in enumerate(g['frames']) if f[0] == sn]
        if not used:
            return None if isinstance(out, Err) else f'segment {sn} has no frames but was accepted'
    derived = [x for f in used for x in _frame_srcs(g['frames'][f - 1])]
    if not derived:
        rs = g['refseries']
        fallback_ok = rs is not None and ((rs[0] is not None and len(rs[0]) > 0) or (rs[0] is None and rs[1] is not None))
        if not fallback_ok:
            return None if isinstance(out, Err) else 'no source information at all but accepted'
    if isinstance(out, Err):
        return f'valid request refused: {out}'
    seg, osn, ofr, srcs, series = out
    if seg != 500 or osn != sn or ofr != fns:
        return f'reference names segmentation {seg}, segment {osn}, frames {ofr}; requested {sn}, {fns}'
    if derived:
        first = {}
        for u, cl, fr in derived:
            first.setdefault(u, [u, cl, fr])
        if sorted(x[0] for x in srcs) != sorted(first) or series is not None:
            return f'source images {srcs}, the frames were derived from instances {sorted(first)}'
        for x in srcs:
            if x not in [[u, cl, fr] for u, cl, fr in derived]:
                return f'source {x} is not a derivation reference of frames {used}'
    else:
        rs = g['refseries']
        if rs[0] is not None:
            if srcs != [[u, cl, None] for u, cl in rs[0]] or series is not None:
                return f'fallback source images {srcs} differ from the referenced instances {rs[0]}'
        elif srcs or series != rs[1]:
            return f'fallback source series {series} / images {srcs}'
    return None


def oracle_segframe(c, out):
    g, sn, fa = c['seg'], c['sn'], c['fa']
    n = g['nframes']

    def refused(why):
        return None if isinstance(out, Err) else why + ' but accepted'
    if g['cls'] == 'ct':
        return refused('not a segmentation')
    if fa is None:
        if sn is None:
            return refused('neither frame nor segment given')
        fl = [i + 1 for i, f in enumerate(g['frames']) if f[0] == sn]
        if not fl:
            return refused(f'segment {sn} has no frames')
        if len(fl) > 1 and not g['tiled']:
            return refused('several frames of a segment in a non-tiled segmentation')
    else:
        fl = [fa] if isinstance(fa, int) else list(fa)
    if not fl:
        return refused('no frames named')
    if any(f < 1 or f > n for f in fl):
        return refused(f'invalid frame number in {fl}')
    src = None
    for f in fl:
        d = g['frames'][f - 1][1]
        if d is None:
            continue
        if len(d) != 1:
            return refused(f'frame {f} has {len(d)} derivation items')
        if d[0] is None:
            continue
        if len(d[0]) != 1:
            return refused(f'frame {f} has {len(d[0])} source images')
        src = list(d[0][0])
        break
    if src is None:
        rs = g['refseries']
        if rs is None or rs[0] is None or len(rs[0]) != 1:
            return refused('no single source image can be deduced')
        src = [rs[0][0][0], rs[0][0][1], None]
    segs = {g['frames'][f - 1][0] for f in fl}
    if len(segs) > 1:
        return refused(f'frames {fl} belong to segments {sorted(segs)}')
    if sn is not None and segs != {sn}:
        return refused(f'frames {fl} belong to segment {sorted(segs)}, requested {sn}')
    if isinstance(out, Err):
        return f'valid request refused: {out}'
    seg, ofr, osn, osrc = out
    if seg != 500 or ofr != fl or {osn} != segs:
        return f'reference names segmentation {seg} frames {ofr} segment {osn}; frames {fl} belong to {sorted(segs)}'
    if osrc != src:
        return f'source image {osrc}, frame {fl} was derived from {src}'
    return None


def oracle_seg_real(c, out):
    if isinstance(out, str):
        return out
    table, pick, o, px = out
    sn, api = c['sn'], c['api']
    # the generated segmentation itself: one stored frame per non-empty (plane, segment)
    for s in range(1, c['nseg'] + 1):
        on = [i for i, p in enumerate(c['planes']) if p[s - 1]]
        rows = [t for t in table if t[0] == s]
        if len(rows) != len(on):
            return f'segmentation stores {len(rows)} frames of segment {s}, {len(on)} planes carry it'
        for t in rows:
            plane = (t[2] - 1) if c['multiframe'] else t[1]
            if plane not in on:
                return f'frame of segment {s} claims derivation from plane {plane}, which does not carry it'
    if not all(px):
        return 'an empty frame is stored'
    of = [i + 1 for i, t in enumerate(table) if t[0] == sn]
    if api in ('segment', 'segment_frames'):
        named = of if api == 'segment' else pick
        if not of:
            return None if isinstance(o, Err) else f'segment {sn} has no frames but a reference was built'
        if isinstance(o, Err):
            return f'valid request refused: {o}'
        osn, ofr, srcs, series = o
        if osn != sn or ofr != (None if api == 'segment' else pick) or series is not None:
            return f'reference names segment {osn} frames {ofr}'
        want = {}
        for f in named:
            want.setdefault(table[f - 1][1], []).append(table[f - 1][2])
        if sorted(x[0] for x in srcs) != sorted(want):
            return f'source images {srcs}; frames {named} were derived from source instances {sorted(want)}'
        for idx, _, fr in srcs:
            if fr is None:
                if want[idx] != [None] * len(want[idx]):
                    return f'source {idx} named without frames, derivation names frames {want[idx]}'
            elif not set(fr) <= set(want[idx]):
                return f'source {idx} frames {fr} are not among the frames {want[idx]} the segment frames were derived from'
        return None
    f = pick[0]
    seg_of_f = table[f - 1][0]
    if api == 'frame_sn' and seg_of_f != sn:
        return None if isinstance(o, Err) else f'frame {f} belongs to segment {seg_of_f}, requested {sn}, accepted'
    if isinstance(o, Err):
        return f'valid request refused: {o}'
    ofr, osn, osrc = o
    want = [table[f - 1][1], 0, None if table[f - 1][2] is None else [table[f - 1][2]]]
    if ofr != [f] or osn != seg_of_f or osrc != want:
        return f'frame {f} (segment {seg_of_f}, derived from {want}) referenced as frames {ofr} segment {osn} source {osrc}'
    return None


def meas_feats(m):
    """[name, unit, qualifier] features of the coded entries a measurement of a report case is built from"""
    return [list(m.get('name_x') or []), list(m.get('unit_x') or []),
            list(m.get('qual_x') or []) if m['qualifier'] is not None else []]


def oracle_tid1500(c, out):
    if isinstance(out, str):
        return out
    if isinstance(out, Err):
        return f'valid measurement report refused: {out}'
    diffs, kinds, nums_given, nums_views, refs, cur, oth, pcur, poth, groups = out
    # the report handed over is what the case describes (checked against the case, not against highdicom)
    want_nums = [[M_NAMES[m['name']][0], float(m['value']), 'mm',
                  None if m['qualifier'] is None else M_QUAL[m['qualifier']][0], meas_feats(m)]
                 for g in c['groups'] for m in g['meas']]
    if sorted(map(str, nums_given)) != sorted(map(str, want_nums)):
        return f'harness: report built {nums_given}, case describes {want_nums}'
    if diffs:
        return diffs[0]
    for v in nums_views:
        if v != nums_given:
            return f'numeric items (name, value, unit, qualifier, what the three coded entries carry) {v}, given {nums_given}'
    if kinds != ['ContentSequence', 'MeasurementReport', SR_CLASSES[c['cls']]] and \
            kinds != ['MeasurementReport', 'MeasurementReport', SR_CLASSES[c['cls']]]:
        return f'.content / parsed .content / parsed document have types {kinds}'
    want_refs = sorted({c['pool'][g['source']][0] for g in c['groups']} |
                       {c['pool'][m['image']][0] for g in c['groups'] for m in g['meas'] if m['image'] is not None})
    if refs != want_refs:
        return f'harness: report references {refs}, case describes {want_refs}'
    for what, a, b in (('', cur, oth), ('parsed ', pcur, poth)):
        m = check_partition(c['evidence'], set(refs), a, b, c['record'], what=what)
        if m:
            return m
    if isinstance(groups, Err):
        return f'measurement groups of the parsed report cannot be read: {groups}'
    want = [[M_NAMES[m['name']][0], None if m['qualifier'] is None else M_QUAL[m['qualifier']][0]]
            for t in ('plain', 'planar') for g in c['groups'] if g['type'] == t for m in g['meas']]
    if groups != want:
        return f'measurements (name, qualifier) read from the parsed report {groups}, given {want}'
    return None


def oracle_report_doc(c, out):
    rp = c['report']
    ref = report_refs(rp)
    why = None
    if not ref <= {r[0] for r in c['evidence']}:
        why = 'reference without supplied evidence'
    elif c['cls'] != 2 and any(g['type'] == 'planar3d' for g in rp['groups']):
        why = '3D coordinates in a class that cannot hold them'
    if isinstance(out, str):
        return out
    if why is not None:
        return None if isinstance(out, Err) else f'document accepted although: {why}'
    if isinstance(out, Err):
        return f'valid measurement report document refused: {out}'
    if out[0] != c['cls']:
        return f'srread returned class {out[0]} for a class {c["cls"]} document'
    is_report, obs = out[1]
    if not is_report:
        return '.content of the parsed document is not a MeasurementReport'
    tree = obs[1]
    if not isinstance(tree, str):
        # what the case describes must be in the tree that was read back (names / qualifiers of the measurements)
        nums = sorted([_tag(M_NAMES[m['name']][0]), -1 if m['qualifier'] is None else int(M_QUAL[m['qualifier']][0]),
                       meas_feats(m)] for g in rp['groups'] for m in g['meas'])
        got = sorted([x[1], (opt_get(x, 3) or [-1])[0], [opt_get(x, k) or [] for k in (K_NAME, K_UNIT, K_QUAL)]]
                     for x, _ in walk(tree) if x[0] == 3)
        if got != nums:
            return (f'numeric items (name, qualifier, what the name / unit / qualifier entries carry) of the parsed '
                    f'tree {got}, the case describes {nums}')
        evs = sorted(list(g.get('eval_x') or []) for g in rp['groups'] for _ in range(g['evals']))
        got = sorted(opt_get(x, K_CODE) or [] for x, _ in walk(tree) if x[0] == 2 and 200 <= x[1] < 300)
        if got != evs:
            return f'qualitative evaluations of the parsed tree carry coded-entry attributes {got}, the case describes {evs}'
        if {x[3][0] for x, _ in walk(tree) if x[0] in (IMAGE, COMPOSITE)} != ref:
            return 'instances referenced by the parsed tree differ from the ones the case describes'
    return check_doc_obs(c, obs, ref=ref)


def ko_root_opts(c):
    """template 2010 and whatever the coded entry given as document title carries"""
    return [[1, [2010]]] + ([[K_NAME, list(c['title_x'])]] if c.get('title_x') else [])


def oracle_ko_parse(c, out):
    if isinstance(out, str):
        return out
    if c['tamper'] != 0:
        return None if isinstance(out, Err) else f"dataset tampered with ({KO_TAMPER[c['tamper']]}) parsed as a key object document"
    if isinstance(out, Err):
        return f'written key object document cannot be parsed: {out}'
    tree, cur, oth, res, got = out
    ref = {r[0] for r in c['refs']}
    first = _first(c['evidence'])
    want_kids = ([[1, 113012, 1, None, [], []]] if c['descr'] is not None else []) + [
        [IMAGE if img else COMPOSITE, 260753009, 1, [u, cl], [], []] for u, cl, img in c['refs']]
    if tree != [0, 113000, 0, None, want_kids, ko_root_opts(c)]:
        return f'parsed key object content {tree}, expected title entry {c.get("title_x") or []} and items {want_kids}'
    m = check_partition(c['evidence'], ref, cur, oth, record=False, what='parsed KO ')
    if m:
        return m
    for u, r in zip(c['queries'], res):
        if u in ref:
            if r != [first[u][0], first[u][1], u]:
                return f'parsed document: resolve_reference({u}) = {r}, supplied under {first[u][:2]}'
        elif not isinstance(r, Err):
            return f'parsed document: resolve_reference({u}) of an unreferenced instance = {r}'
    if c['vf'] is not None and c['vf'] not in (IMAGE, COMPOSITE, WAVEFORM):
        return None if isinstance(got, Err) else f"get_references(value_type={VTS[c['vf']]}) = {got}"
    want = [x for x in want_kids if x[0] in (IMAGE, COMPOSITE) and (c['vf'] is None or x[0] == c['vf'])
            and (c['cf'] is None or x[3][1] == c['cf'])]
    if got != want:
        return f"get_references({c['vf']}, {c['cf']}) lists {got}, selected objects matching: {want}"
    return None


def oracle_ko_ctx(c, out):
    if isinstance(out, str):
        return out
    ref = {r[0] for r in c['refs']}
    first = _first(c['evidence'])
    wrong = (c['person'] is not None and c['person'][0] != 0) or (c['device'] is not None and c['device'][0] != 1)
    bad = (wrong or not c['refs'] or not c['evidence'] or c['ts'] == 'jpeg' or not ref <= set(first)
           or len({first[u][0] for u in ref}) > 1)
    if bad:
        return None if isinstance(out, Err) else 'invalid key object selection / document accepted'
    if isinstance(out, Err):
        return f'valid key object document with observer contexts refused: {out}'
    tree, cur, oth, ex, ctxs = out
    want_kids = (ctx_tree(c['person']) + ctx_tree(c['device']) +
                 ([[1, 113012, 1, None, [], []]] if c['descr'] is not None else []) +
                 [[IMAGE if img else COMPOSITE, 260753009, 1, [u, cl], [], []] for u, cl, img in c['refs']])
    if tree != [0, 113000, 0, None, want_kids, ko_root_opts(c)]:
        return f'key object content {tree}, expected title entry {c.get("title_x") or []} and items {want_kids}'
    m = check_partition(c['evidence'], ref, cur, oth, record=False, what='KO (observer contexts) ')
    if m:
        return m
    want_ex = [c['inst'], c['dept'] if c['inst'] is not None else None, None, c['requests']]
    if ex != want_ex:
        return f'institution / department / performed codes / requested procedures recorded as {ex}, given {want_ex}'
    for flt, got in zip(c['filters'], ctxs):
        want = [[o[0], list(o[1])] for o in (c['person'], c['device']) if o is not None and flt in (None, o[0])]
        if got != want:
            return f'get_observer_contexts({flt}) = {got}, contexts given: {want}'
    return None


def oracle_identity(c, out):
    if isinstance(out, str):
        return out
    if c['kind'] == 'doc_study':
        why = doc_expect_error(c)
    else:
        ref = {r[0] for r in c['refs']}
        first = _first(c['evidence'])
        why = ('invalid key object document' if (not c['refs'] or not c['evidence'] or c['ts'] == 'jpeg'
               or not ref <= set(first) or len({first[u][0] for u in ref}) > 1) else None)
    if why:
        return None if isinstance(out, Err) else f'invalid document accepted: {why}'
    if isinstance(out, Err):
        return f'valid document refused: {out}'
    st = c['evidence'][0][2]
    for where, got in zip(('document', 'parsed document'), out):
        if got != [st] * 4:
            return (f'{where}: study / patient id / study id / accession number {got}, '
                    f'first supplied record is of study and patient {st}')
    return None


def oracle(c, out):
    k = doc_kind(c)
    if k == 'report_doc':
        return oracle_report_doc(c, out)
    if k == 'ko_parse':
        return oracle_ko_parse(c, out)
    if k == 'ko_ctx':
        return oracle_ko_ctx(c, out)
    if k in ('doc_study', 'ko_study'):
        return oracle_identity(c, out)
    if k == 'segref':
        return oracle_segref(c, out)
    if k == 'segframe':
        return oracle_segframe(c, out)
    if k == 'seg_real':
        return oracle_seg_real(c, out)
    if k == 'tid1500':
        return oracle_tid1500(c, out)
    if k == 'find_name':
        if not c['has_cs']:
            return None if out == Err('AttributeError') else f'dataset without content sequence gave {out}'
        if isinstance(out, Err):
            return f'search refused: {out}'
        q, qn = c['q'], c['qname']

        def named(x):
            # independent statement of the rule: the coded entries are equal as (value string, scheme, version)
            if qn is None:
                return True
            f = opt_get(x, K_NAME) or []
            mine = (({2: LONG_PFX, 3: URN_PFX}.get(2 if 2 in f else (3 if 3 in f else 0), '')) + str(x[1]), SCHEME,
                    next((f'v{v - 10}' for v in f if 11 <= v <= 19), None))
            asked = ({2: LONG_PFX, 3: URN_PFX}.get(qn['form'], '') + str(qn['code']),
                     SCHEME if qn['scheme'] else '99OTHER', f"v{qn['version']}" if qn['version'] else None)
            return mine == asked
        cand = list(walk(c['tree'])) if c['recursive'] else [(x, 1) for x in c['tree'][4]]
        want = [canon(x) for x, _ in cand
                if named(x) and (q['vt'] is None or x[0] == q['vt']) and (q['rel'] is None or x[2] == q['rel'])]
        return None if out == want else f'found {len(out)} items named as asked, the tree holds {len(want)} in order'
    if k == 'find':
        if not c['has_cs']:
            return None if out == Err('AttributeError') else f'dataset without content sequence gave {out}'
        if isinstance(out, Err):
            return f'search refused: {out}'
        q = c['q']
        cand = list(walk(c['tree'])) if c['recursive'] else [(x, 1) for x in c['tree'][4]]
        want = [x for x, _ in cand
                if (q['name'] is None or x[1] == q['name']) and (q['vt'] is None or x[0] == q['vt'])
                and (q['rel'] is None or x[2] == q['rel'])]
        want = [canon(x) for x in want]
        return None if out == want else f'found {len(out)} items, the tree holds {len(want)} matching ones in order'
    if k in ('collect', 'collect_err'):
        if not c['has_cs']:
            return None if out == Err('AttributeError') else f'content without content sequence gave {out}'
        if any(x[0] in (IMAGE, COMPOSITE) and x[3] is None for x, _ in walk(c['tree'])):
            return None if isinstance(out, Err) else 'reference item without instance accepted'
        ref = referenced(c['tree'])
        sup = {r[0] for r in c['evidence']}
        if not ref <= sup:
            return None if out == Err('ValueError') else f'references {sorted(ref - sup)} lack evidence, got {out}'
        if isinstance(out, Err):
            return f'complete evidence refused: {out}'
        return check_partition(c['evidence'], ref, out[0], out[1])
    if k in ('doc', 'doc_err', 'roundtrip', 'from_dataset'):
        why = doc_expect_error(c)
        if why is None and k == 'from_dataset' and c['target'] != 0 and c['target'] != c['cls']:
            return None if out == Err('ValueError') else f'from_dataset of another SOP class gave {out}'
        if isinstance(out, str):
            return out
        if why is not None:
            return None if isinstance(out, Err) else f'document accepted although: {why}'
        if isinstance(out, Err):
            return f'valid document refused: {out}'
        if k == 'roundtrip':
            if out[0] != c['cls']:
                return f'srread returned class {out[0]} for a class {c["cls"]} document'
            out = out[1]
        if k in ('roundtrip', 'from_dataset'):
            report = opt_get(c['tree'], 1) == [1500]
            if out[0] != report:
                return (f"root declares template {opt_get(c['tree'], 1)}: .content of the parsed document is "
                        f"{'a' if out[0] else 'not a'} MeasurementReport")
            out = out[1]
        return check_doc_obs(c, out)
    if k in ('ko', 'ko_err'):
        ref = {r[0] for r in c['refs']}
        first = _first(c['evidence'])
        bad = (not c['refs'] or not c['evidence'] or c['ts'] == 'jpeg' or not ref <= set(first)
               or len({first[u][0] for u in ref}) > 1)
        if bad:
            return None if isinstance(out, Err) else 'invalid key object document accepted'
        if isinstance(out, Err):
            return f'valid key object document refused: {out}'
        tree, cur, oth, res = out
        if isinstance(tree, str):
            return tree
        want_kids = ([[1, 113012, 1, None, [], []]] if c['descr'] is not None else []) + [
            [IMAGE if img else COMPOSITE, 260753009, 1, [u, cl], [], []] for u, cl, img in c['refs']]
        if tree != [0, 113000, 0, None, want_kids, ko_root_opts(c)]:
            return f'key object content {tree}, expected title entry {c.get("title_x") or []} and items {want_kids}'
        m = check_partition(c['evidence'], ref, cur, oth, record=False, what='KO ')
        if m:
            return m
        for u, r in zip(c['queries'], res):
            if u in ref:
                if r != [first[u][0], first[u][1], u]:
                    return f'resolve_reference({u}) = {r}, supplied under {first[u][:2]}'
            elif not isinstance(r, Err):
                return f'resolve_reference({u}) of an unreferenced instance = {r}'
        return None
    if k == 'ko_srread':
        return None if out == Err('RuntimeError') else f'srread of a key object document gave {out}'
    return f'unknown kind {k}'


def nontrivial(c, out):
    k = c['kind']
    if isinstance(out, Err):
        return True
    if k in ('segref', 'segframe'):
        return c['seg']['nframes'] > 1
    if k == 'seg_real':
        return len(out[0]) > 1
    if k in ('tid1500', 'report_doc', 'ko_parse', 'ko_ctx', 'ko_study'):
        return True
    if k in ('find', 'find_name'):
        return len(out) > 0 and any(d > 1 for _, d in walk(c['tree']))
    if k in ('ko', 'ko_srread'):
        return True
    deep = any(d > 1 and x[0] in (IMAGE, COMPOSITE) for x, d in walk(c['tree']))
    return deep or len({(r[2], r[3]) for r in c['evidence']}) > 1


def shrink(c):
    if 'report' in c:
        rp = c['report']
        for i in range(len(rp['groups'])):
            if len(rp['groups']) > 1:
                yield dict(c, report=dict(rp, groups=rp['groups'][:i] + rp['groups'][i + 1:]))
            g = rp['groups'][i]
            for j in range(len(g['meas'])):
                yield dict(c, report=dict(rp, groups=rp['groups'][:i] + [dict(g, meas=g['meas'][:j] + g['meas'][j + 1:])] +
                                          rp['groups'][i + 1:]))
    if 'tree' in c:
        def variants(t):
            rest = t[5:]
            for i in range(len(t[4])):
                yield [t[0], t[1], t[2], t[3], t[4][:i] + t[4][i + 1:]] + rest
                yield [t[0], t[1], t[2], t[3], t[4][:i] + t[4][i][4] + t[4][i + 1:]] + rest
                for v in variants(t[4][i]):
                    yield [t[0], t[1], t[2], t[3], t[4][:i] + [v] + t[4][i + 1:]] + rest
            for j in range(len(opts_of(t))):
                # (a qualifier entry needs the qualifier: keep the case one that build_item realises in full)
                o = [kv for kv in t[5][:j] + t[5][j + 1:] if kv[0] != K_QUAL or t[5][j][0] != 3]
                yield t[:5] + [o]
        for v in variants(c['tree']):
            yield dict(c, tree=v)
    if 'seg' in c:
        g = c['seg']
        for i, (sg, d) in enumerate(g['frames']):
            if d is not None:
                fr = [list(x) for x in g['frames']]
                fr[i][1] = None
                yield dict(c, seg=dict(g, frames=fr))
        if g['refseries'] is not None:
            yield dict(c, seg=dict(g, refseries=None))
    for key in ('evidence', 'refs', 'previous', 'queries', 'fns', 'fa'):
        if isinstance(c.get(key), list):
            for i in range(len(c[key])):
                yield dict(c, **{key: c[key][:i] + c[key][i + 1:]})
    for key, v in (('previous', None), ('verified', False), ('as_seq', False), ('record', True), ('descr', None),
                   ('inst', None), ('dept', None), ('codes', None), ('requests', None), ('parse', False),
                   ('title_x', [])):
        if key in c and c[key] != v:
            yield dict(c, **{key: v})


if __name__ == '__main__':
    sys.exit(common.main(sys.modules[__name__]))
