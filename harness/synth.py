"""Synthetic source images and small builders shared by the property harnesses.
All functions import highdicom lazily (after common.import_highdicom())."""
import copy
import functools
import io
import os

import numpy as np

TEST_FILES = os.path.join(os.environ.get('VERIF_REPO', '/repo'), 'data', 'test_files')


@functools.lru_cache(maxsize=None)
def _base(name):
    import pydicom
    return pydicom.dcmread(os.path.join(TEST_FILES, name))


def base(name):
    """Fresh deep copy of a shipped fixture dataset."""
    return copy.deepcopy(_base(name))


def uid():
    import highdicom as hd
    return hd.UID()


def ct_frame(position, rows, cols, orientation=(1, 0, 0, 0, 1, 0), spacing=(1.0, 1.0),
             pixels=None, series_uid=None, study_uid=None, for_uid=None, instance_number=1):
    """One single-frame CT image (int16) at a patient position."""
    ds = base('ct_image.dcm')
    ds.Rows, ds.Columns = int(rows), int(cols)
    ds.SOPInstanceUID = uid()
    ds.InstanceNumber = instance_number
    if series_uid is not None:
        ds.SeriesInstanceUID = series_uid
    if study_uid is not None:
        ds.StudyInstanceUID = study_uid
    if for_uid is not None:
        ds.FrameOfReferenceUID = for_uid
    ds.ImagePositionPatient = [float(x) for x in position]
    ds.ImageOrientationPatient = [float(x) for x in orientation]
    ds.PixelSpacing = [float(x) for x in spacing]
    arr = np.zeros((rows, cols), np.int16) if pixels is None else np.asarray(pixels, np.int16)
    ds.PixelData = arr.tobytes()
    return ds


def ct_series(n, rows, cols, origin=(0.0, 0.0, 0.0), normal_step=(0.0, 0.0, 2.5),
              orientation=(1, 0, 0, 0, 1, 0), spacing=(1.0, 1.0)):
    """n parallel single-frame CT images, image i at origin + i * normal_step,
    sharing series/study/frame of reference."""
    s, st, f = uid(), uid(), uid()
    out = []
    for i in range(n):
        pos = [origin[k] + i * normal_step[k] for k in range(3)]
        out.append(ct_frame(pos, rows, cols, orientation, spacing, series_uid=s, study_uid=st,
                            for_uid=f, instance_number=i + 1))
    return out


def no_for_image(rows, cols):
    """Single-frame image without frame of reference (CR-like, from dx fixture)."""
    ds = base('dx_image.dcm')
    ds.Rows, ds.Columns = int(rows), int(cols)
    ds.SOPInstanceUID = uid()
    ds.PixelData = np.zeros((rows, cols), np.uint16).tobytes()
    return ds


def sm_tiled(R, C, th, tw, tiled_full=True, samples=3, origin=(0.0, 0.0), spacing=(0.5, 0.5),
             orientation=(0, -1, 0, -1, 0, 0), pixels=None):
    """Tiled slide-microscopy image (from sm_image.dcm) with total pixel matrix
    R x C cut into th x tw tiles, native uint8, `samples` samples per pixel."""
    from highdicom.spatial import compute_tile_positions_per_frame  # noqa
    import pydicom
    from pydicom.dataset import Dataset
    ds = base('sm_image.dcm')
    nr, nc = -(-R // th), -(-C // tw)
    n = nr * nc
    ds.SOPInstanceUID = uid()
    ds.Rows, ds.Columns = th, tw
    ds.TotalPixelMatrixRows, ds.TotalPixelMatrixColumns = R, C
    ds.NumberOfFrames = n
    ds.SamplesPerPixel = samples
    ds.PhotometricInterpretation = 'RGB' if samples == 3 else 'MONOCHROME2'
    if samples == 3:
        ds.PlanarConfiguration = 0
    elif 'PlanarConfiguration' in ds:
        del ds.PlanarConfiguration
    ds.ImageOrientationSlide = [float(x) for x in orientation]
    ds.TotalPixelMatrixOriginSequence[0].XOffsetInSlideCoordinateSystem = float(origin[0])
    ds.TotalPixelMatrixOriginSequence[0].YOffsetInSlideCoordinateSystem = float(origin[1])
    pm = ds.SharedFunctionalGroupsSequence[0].PixelMeasuresSequence[0]
    pm.PixelSpacing = [float(spacing[0]), float(spacing[1])]
    if pixels is None:
        pixels = np.zeros((R, C, samples), np.uint8)
    pixels = np.asarray(pixels, np.uint8).reshape(R, C, samples)
    padded = np.zeros((nr * th, nc * tw, samples), np.uint8)
    padded[:R, :C] = pixels
    frames = [padded[a * th:(a + 1) * th, b * tw:(b + 1) * tw] for a in range(nr) for b in range(nc)]
    ds.PixelData = b''.join(f.tobytes() for f in frames)
    if len(ds.PixelData) % 2:
        ds.PixelData += b'\0'
    ds.file_meta.TransferSyntaxUID = pydicom.uid.ExplicitVRLittleEndian
    if tiled_full:
        ds.DimensionOrganizationType = 'TILED_FULL'
        if 'PerFrameFunctionalGroupsSequence' in ds:
            del ds.PerFrameFunctionalGroupsSequence
    else:
        ds.DimensionOrganizationType = 'TILED_SPARSE'
        pffg = []
        for (co, ro), (x, y, z) in compute_tile_positions_per_frame(
                th, tw, R, C, (float(origin[0]), float(origin[1]), 0.0),
                [float(v) for v in orientation], (float(spacing[0]), float(spacing[1]))):
            it = Dataset()
            pp = Dataset()
            pp.ColumnPositionInTotalImagePixelMatrix = co
            pp.RowPositionInTotalImagePixelMatrix = ro
            pp.XOffsetInSlideCoordinateSystem = x
            pp.YOffsetInSlideCoordinateSystem = y
            pp.ZOffsetInSlideCoordinateSystem = z
            it.PlanePositionSlideSequence = [pp]
            fc = Dataset()
            fc.DimensionIndexValues = [1, 1, co, ro] if False else [co, ro]
            it.FrameContentSequence = [fc]
            pffg.append(it)
        ds.PerFrameFunctionalGroupsSequence = pffg
    return ds


def seg_description(n, label=None, category=None, ptype=None, algorithm_type='MANUAL',
                    tracking_uid=None, tracking_id=None):
    import highdicom as hd
    from pydicom.sr.codedict import codes
    kw = {}
    if algorithm_type != 'MANUAL':
        kw['algorithm_identification'] = hd.AlgorithmIdentificationSequence(
            name='alg', version='1', family=codes.cid7162.ArtificialIntelligence)
    if tracking_uid is not None:
        kw['tracking_uid'] = tracking_uid
        kw['tracking_id'] = tracking_id or f't{n}'
    return hd.seg.SegmentDescription(
        segment_number=n, segment_label=label or f's{n}',
        segmented_property_category=category or codes.SCT.Tissue,
        segmented_property_type=ptype or codes.SCT.Tissue,
        algorithm_type=algorithm_type, **kw)


def make_seg(sources, arr, seg_type, segment_numbers, **kw):
    import highdicom as hd
    descs = kw.pop('descriptions', None) or [seg_description(n) for n in segment_numbers]
    return hd.seg.Segmentation(
        sources, arr, seg_type, descs, series_instance_uid=hd.UID(), series_number=1,
        sop_instance_uid=hd.UID(), instance_number=1, manufacturer='m',
        manufacturer_model_name='mm', software_versions='1', device_serial_number='sn', **kw)


def write_read(ds, reader, **kw):
    """save_as to memory and read back with `reader` (e.g. hd.seg.segread)."""
    b = io.BytesIO()
    ds.save_as(b)
    return reader(b.getvalue(), **kw) if not kw.pop('as_file', False) else reader(io.BytesIO(b.getvalue()), **kw)


def ct_multiframe(zs, rows, cols, orientation=(1, 0, 0, 0, 1, 0), spacing=(1.0, 1.0)):
    """One Enhanced-CT-like multi-frame source (built from ct_image.dcm) with
    frame i at patient position (0, 0, zs[i]).  Added for C01."""
    from pydicom.dataset import Dataset
    ds = base('ct_image.dcm')
    for kw in ('ImagePositionPatient', 'ImageOrientationPatient', 'PixelSpacing', 'SliceThickness',
               'SliceLocation', 'RescaleIntercept', 'RescaleSlope', 'RescaleType'):
        if kw in ds:
            delattr(ds, kw)
    ds.SOPClassUID = '1.2.840.10008.5.1.4.1.1.2.1'
    ds.file_meta.MediaStorageSOPClassUID = ds.SOPClassUID
    ds.SOPInstanceUID = uid()
    ds.file_meta.MediaStorageSOPInstanceUID = ds.SOPInstanceUID
    ds.Rows, ds.Columns = int(rows), int(cols)
    ds.NumberOfFrames = len(zs)
    sh = Dataset()
    pm = Dataset()
    pm.PixelSpacing = [float(x) for x in spacing]
    pm.SliceThickness = 1.0
    sh.PixelMeasuresSequence = [pm]
    po = Dataset()
    po.ImageOrientationPatient = [float(x) for x in orientation]
    sh.PlaneOrientationSequence = [po]
    ds.SharedFunctionalGroupsSequence = [sh]
    pf = []
    for z in zs:
        it = Dataset()
        pp = Dataset()
        pp.ImagePositionPatient = [0.0, 0.0, float(z)]
        it.PlanePositionSequence = [pp]
        pf.append(it)
    ds.PerFrameFunctionalGroupsSequence = pf
    ds.PixelData = np.zeros((len(zs), rows, cols), np.int16).tobytes()
    return ds


def ct_image_at(positions, rows, cols, orientation, spacing, pixels, spacing_between_slices=None, single=False):
    """A plain (non-segmentation) CT image with caller-chosen geometry and pixels, identity rescale:
    one Enhanced-CT-like multi-frame instance with frame i at positions[i], or (single=True, one
    position) a single-frame CT image.  Added for C03 (Image.get_volume / get_volume_geometry of
    images that are not segmentations)."""
    from pydicom.dataset import Dataset
    px = np.asarray(pixels, np.int16).reshape(len(positions), rows, cols)
    if single:
        ds = ct_frame(positions[0], rows, cols, orientation, spacing, pixels=px[0])
        ds.RescaleIntercept, ds.RescaleSlope = 0, 1
        if spacing_between_slices is None:
            if 'SpacingBetweenSlices' in ds:
                del ds.SpacingBetweenSlices
        else:
            ds.SpacingBetweenSlices = float(spacing_between_slices)
        return ds
    ds = ct_multiframe([0.0] * len(positions), rows, cols, orientation, spacing)
    if 'SpacingBetweenSlices' in ds:
        del ds.SpacingBetweenSlices
    for it, p in zip(ds.PerFrameFunctionalGroupsSequence, positions):
        it.PlanePositionSequence[0].ImagePositionPatient = [float(x) for x in p]
    if spacing_between_slices is not None:
        ds.SharedFunctionalGroupsSequence[0].PixelMeasuresSequence[0].SpacingBetweenSlices = \
            float(spacing_between_slices)
    ds.PixelData = px.tobytes()
    return ds
