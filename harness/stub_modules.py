import sys, types, collections
def A(kw, t='3', path=()):
    return {'keyword': kw, 'type': t, 'path': list(path)}
M = collections.defaultdict(list)
M['patient'] = [A('PatientName','2'),A('PatientID','2'),A('PatientBirthDate','2'),A('PatientSex','2')]
M['general-study'] = [A('StudyInstanceUID','1'),A('StudyDate','2'),A('StudyTime','2'),A('ReferringPhysicianName','2'),A('StudyID','2'),A('AccessionNumber','2'),A('StudyDescription','3')]
M['patient-study'] = [A('PatientAge'),A('PatientWeight'),A('PatientSize')]
M['specimen'] = [A('ContainerIdentifier','1'),A('IssuerOfTheContainerIdentifierSequence','2'),A('ContainerTypeCodeSequence','2'),A('SpecimenDescriptionSequence','1')]
M['image-pixel'] = [A('SamplesPerPixel','1'),A('PhotometricInterpretation','1'),A('Rows','1'),A('Columns','1'),A('BitsAllocated','1'),A('BitsStored','1'),A('HighBit','1'),A('PixelRepresentation','1'),A('PixelData','1C'),A('PlanarConfiguration','1C')]
M['floating-point-image-pixel'] = [A('FloatPixelData','1')]
M['double-floating-point-image-pixel'] = [A('DoubleFloatPixelData','1')]
for k in ['segmentation-multi-frame-functional-groups','parametric-map-multi-frame-functional-groups','vl-whole-slide-microscopy-image-multi-frame-functional-groups','enhanced-ct-image-multi-frame-functional-groups','multi-frame-functional-groups']:
    M[k] = [A('SharedFunctionalGroupsSequence','1'),A('PerFrameFunctionalGroupsSequence','1'),A('InstanceNumber','1'),A('ContentDate','1'),A('ContentTime','1'),A('NumberOfFrames','1'),
            A('PlanePositionSlideSequence','1C',['PerFrameFunctionalGroupsSequence']),
            A('XOffsetInSlideCoordinateSystem','1',['PerFrameFunctionalGroupsSequence','PlanePositionSlideSequence']),
            A('YOffsetInSlideCoordinateSystem','1',['PerFrameFunctionalGroupsSequence','PlanePositionSlideSequence']),
            A('ZOffsetInSlideCoordinateSystem','1',['PerFrameFunctionalGroupsSequence','PlanePositionSlideSequence']),
            A('ColumnPositionInTotalImagePixelMatrix','1',['PerFrameFunctionalGroupsSequence','PlanePositionSlideSequence']),
            A('RowPositionInTotalImagePixelMatrix','1',['PerFrameFunctionalGroupsSequence','PlanePositionSlideSequence'])]
M['segmentation-image'] = [A('SegmentSequence','1'),A('SegmentNumber','1',['SegmentSequence']),A('SegmentLabel','1',['SegmentSequence']),A('SegmentAlgorithmType','1',['SegmentSequence']),A('SegmentedPropertyCategoryCodeSequence','1',['SegmentSequence']),A('SegmentedPropertyTypeCodeSequence','1',['SegmentSequence']),A('SegmentationAlgorithmIdentificationSequence','1C',['SegmentSequence']),A('AlgorithmName','1',['SegmentSequence','SegmentationAlgorithmIdentificationSequence']),A('AlgorithmVersion','1',['SegmentSequence','SegmentationAlgorithmIdentificationSequence']),A('AlgorithmFamilyCodeSequence','1',['SegmentSequence','SegmentationAlgorithmIdentificationSequence'])]
M['sr-document-general'] = [A('ContentDate','1'),A('ContentTime','1')]
G=['AnnotationGroupSequence']
M['microscopy-bulk-simple-annotations'] = [A('AnnotationCoordinateType','1'),A('AnnotationGroupSequence','1')]+[A(k,'1',G) for k in ['AnnotationGroupNumber','AnnotationGroupUID','AnnotationGroupLabel','AnnotationGroupGenerationType','AnnotationPropertyCategoryCodeSequence','AnnotationPropertyTypeCodeSequence','NumberOfAnnotations','GraphicType','AnnotationAppliesToAllOpticalPaths']]+[A('MeasurementsSequence','3',G)]+[A(k,'1',G+['MeasurementsSequence']) for k in ['ConceptNameCodeSequence','MeasurementUnitsCodeSequence','MeasurementValuesSequence']]+[A('AnnotationGroupAlgorithmIdentificationSequence','1C',G)]+[A(k,'1',G+['AnnotationGroupAlgorithmIdentificationSequence']) for k in ['AlgorithmName','AlgorithmVersion','AlgorithmFamilyCodeSequence']]
mod = types.ModuleType('highdicom._modules'); mod.MODULE_ATTRIBUTE_MAP = M
def install():
    try:
        from highdicom._modules import MODULE_ATTRIBUTE_MAP  # real table present
    except ImportError:
        sys.modules['highdicom._modules'] = mod
        import highdicom; highdicom._modules = mod
