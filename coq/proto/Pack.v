From Coq Require Import List Arith Lia PeanoNat.
Import ListNotations.
Section Pack.
Variable A : Type.  (* bit *)

(* split off as many full groups of 8 as possible: (groups, remainder) *)
Fixpoint chunk8 (fuel : nat) (l : list A) : list (list A) * list A :=
  match fuel with
  | 0 => ([], l)
  | S f => if Nat.leb 8 (length l)
           then let '(g, r) := chunk8 f (skipn 8 l) in (firstn 8 l :: g, r)
           else ([], l)
  end.

Lemma chunk8_spec : forall fuel l, length l <= fuel ->
  let '(g, r) := chunk8 fuel l in
  concat g ++ r = l /\ length r < 8 /\ Forall (fun b => length b = 8) g.
Proof.
  induction fuel as [|f IH]; intros l Hl; cbn [chunk8].
  - destruct l; [|cbn in Hl; lia]. cbn. repeat split; [lia|constructor].
  - destruct (Nat.leb 8 (length l)) eqn:E.
    + apply Nat.leb_le in E.
      specialize (IH (skipn 8 l)). rewrite skipn_length in IH. specialize (IH ltac:(lia)).
      destruct (chunk8 f (skipn 8 l)) as [g r]. destruct IH as (Hc & Hr & Hg).
      cbn [concat]. rewrite <- app_assoc, Hc, firstn_skipn. repeat split; [lia|].
      constructor; [rewrite firstn_length; lia|exact Hg].
    + apply Nat.leb_gt in E. cbn. repeat split; [lia|constructor].
Qed.

(* seg/sop.py frame loop for BINARY native encoding: carry the remainder between frames *)
Definition loop_step (st : list (list A) * list A) (frame : list A) : list (list A) * list A :=
  let '(out, rem) := st in
  let full := rem ++ frame in
  let '(g, r) := chunk8 (length full) full in (out ++ g, r).

Definition run (frames : list (list A)) := fold_left loop_step frames ([], []).

Theorem loop_invariant : forall frames st,
  let '(out, rem) := st in length rem < 8 -> Forall (fun b => length b = 8) out ->
  let '(out', rem') := fold_left loop_step frames st in
  concat out' ++ rem' = concat out ++ rem ++ concat frames /\ length rem' < 8 /\ Forall (fun b => length b = 8) out'.
Proof.
  induction frames as [|f fs IH]; intros [out rem]; intros Hr Ho.
  - cbn. rewrite app_nil_r. auto.
  - cbn [fold_left]. unfold loop_step at 2.
    pose proof (chunk8_spec (length (rem ++ f)) (rem ++ f) (le_n _)) as H.
    destruct (chunk8 (length (rem ++ f)) (rem ++ f)) as [g r]. destruct H as (Hc & Hr' & Hg).
    specialize (IH (out ++ g, r)). cbn in IH. specialize (IH Hr' ltac:(apply Forall_app; auto)).
    destruct (fold_left loop_step fs (out ++ g, r)) as [out' rem']. destruct IH as (E & R & G).
    repeat split; auto. rewrite E. rewrite concat_app. cbn [concat]. rewrite <- !app_assoc. f_equal.
    rewrite (app_assoc (concat g)), Hc. rewrite <- app_assoc. reflexivity.
Qed.

Corollary run_is_global_pack : forall frames,
  let '(out, rem) := run frames in concat out ++ rem = concat frames /\ length rem < 8 /\ Forall (fun b => length b = 8) out.
Proof. intros frames. pose proof (loop_invariant frames ([], [])) as H. cbn in H. unfold run.
  specialize (H ltac:(lia) ltac:(constructor)). destruct (fold_left loop_step frames ([], [])); exact H. Qed.
End Pack.
Print Assumptions run_is_global_pack.
