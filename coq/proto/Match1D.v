From Coq Require Import ZArith List Bool Lia ZifyBool.
Open Scope Z_scope.

(* volume.py:match_geometry, one axis, after the axis has been aligned.
   Source axis has n voxels at integer coordinates 0..n-1 (unit = source spacing).
   Target axis: m voxels, first at source coordinate a (integer), stride k <> 0.
   Code:  start_pos = a ; end_pos = a + m*k
     k > 0: pad_before = max(-a,0); pad_after = max(end_pos - n, 0)
            crop = slice(a + pad_before, end_pos + pad_before, k)
     k < 0: pad_after = max(a - n + 1, 0); pad_before = max(-end_pos - 1, 0)
            crop = slice(a + pad_before, end_pos + pad_before (None if -1), k)
   After padding, padded index q corresponds to source coordinate q - pad_before.
   Claim: for every target voxel j in [0,m), the crop selects padded index
   (crop_start + j*k), which lies inside the padded array and has source
   coordinate a + j*k, i.e. exactly the target voxel's position. *)

Definition pad_before (n m a k : Z) := if 0 <? k then Z.max (- a) 0 else Z.max (- (a + m * k) - 1) 0.
Definition pad_after  (n m a k : Z) := if 0 <? k then Z.max (a + m * k - n) 0 else Z.max (a - n + 1) 0.
Definition crop_start (n m a k : Z) := a + pad_before n m a k.
Definition crop_stop  (n m a k : Z) := a + m * k + pad_before n m a k.   (* -1 means None for k<0 *)

Lemma match_axis_selects_target :
  forall n m a k j, 0 < n -> 0 < m -> k <> 0 -> 0 <= j < m ->
  let pb := pad_before n m a k in let pa := pad_after n m a k in
  let q := crop_start n m a k + j * k in
  0 <= pb /\ 0 <= pa /\
  0 <= q < n + pb + pa /\            (* inside the padded array *)
  q - pb = a + j * k /\              (* physical coordinate of target voxel j *)
  (* the slice (start, stop, k) has exactly m elements *)
  (if 0 <? k then crop_start n m a k < crop_stop n m a k /\ (crop_stop n m a k - crop_start n m a k + k - 1) / k = m
   else crop_stop n m a k < crop_start n m a k /\ (crop_start n m a k - crop_stop n m a k - k - 1) / (- k) = m) /\
  (* stop is within what the slice checker accepts: -1 <= stop <= padded length *)
  -1 <= crop_stop n m a k <= n + pb + pa.
Proof.
  intros n m a k j Hn Hm Hk Hj pb pa q. subst pb pa q.
  unfold crop_start, crop_stop, pad_before, pad_after.
  destruct (0 <? k) eqn:Ek.
  - assert (0 < k) by lia.
    assert (j * k <= (m - 1) * k) by nia. assert (0 <= j * k) by nia.
    repeat split; try lia.
    replace (a + m * k + Z.max (- a) 0 - (a + Z.max (- a) 0) + k - 1) with ((k - 1) + m * k) by lia.
    rewrite Z.div_add by lia. rewrite Z.div_small by lia. lia.
  - assert (k < 0) by lia.
    assert ((m - 1) * k <= j * k) by nia. assert (j * k <= 0) by nia.
    repeat split; try lia.
    replace (a + Z.max (- (a + m * k) - 1) 0 - (a + m * k + Z.max (- (a + m * k) - 1) 0) - k - 1) with ((- k - 1) + m * (- k)) by lia.
    rewrite Z.div_add by lia. rewrite Z.div_small by lia. lia.
Qed.
