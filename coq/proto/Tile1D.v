From Coq Require Import ZArith List Bool Lia ZifyBool.
Ltac Zify.zify_post_hook ::= Z.to_euclidean_division_equations.
Open Scope Z_scope.

(* 1-D version of image.py:_iterate_indices_for_tiled_region.
   Matrix length R (1-based positions 1..R), tile length t, tiles at p = 1 + a*t.
   Region [s, e) in 1-based coordinates, 1 <= s < e <= R+1.
   A tile at position p is selected iff  s - t + 1 <= p < e.
   input slice  [max (s-p) 0, min (e-p) t)      (0-based inside the tile)
   output slice [max (p-s) 0, min (p+t-s) (e-s)) (0-based inside the output) *)

Definition selected (s e t p : Z) : bool := (s - t + 1 <=? p) && (p <? e).
Definition in_lo (s p : Z) := Z.max (s - p) 0.
Definition in_hi (e t p : Z) := Z.min (e - p) t.
Definition out_lo (s p : Z) := Z.max (p - s) 0.
Definition out_hi (s e t p : Z) := Z.min (p + t - s) (e - s).

(* The tile that holds 1-based position x *)
Definition tile_of (t x : Z) : Z := 1 + ((x - 1) / t) * t.

(* For every output cell j, exactly the tile holding position s+j writes it,
   and it writes tile-local index (s + j - p), i.e. matrix position s+j. *)
Lemma written_by_own_tile :
  forall R t s e j, 0 < t -> 1 <= s -> s < e -> e <= R + 1 -> 0 <= j < e - s ->
  let p := tile_of t (s + j) in
  selected s e t p = true /\
  out_lo s p <= j < out_hi s e t p /\
  (* slices have equal length and copying is position-wise *)
  (out_hi s e t p - out_lo s p = in_hi e t p - in_lo s p) /\
  (* the source cell for output j is tile-local index k with p + k = s + j *)
  let k := in_lo s p + (j - out_lo s p) in 0 <= k < t /\ p + k = s + j.
Proof.
  intros R t s e j Ht Hs Hse He Hj p. subst p. unfold tile_of, selected, in_lo, in_hi, out_lo, out_hi.
  repeat split; try lia.
Qed.

Lemma written_only_by_own_tile :
  forall t s e j a, 0 < t -> 1 <= s -> s < e -> 0 <= j < e - s -> 0 <= a ->
  let p := 1 + a * t in
  selected s e t p = true -> out_lo s p <= j < out_hi s e t p ->
  p = tile_of t (s + j).
Proof.
  intros t s e j a Ht Hs Hse Hj Ha p Hsel Hout. subst p.
  unfold tile_of, selected, out_lo, out_hi in *.
  assert (a = (s + j - 1) / t) by (apply Z.div_unique with (r := s + j - 1 - a * t); lia).
  subst a. lia.
Qed.
