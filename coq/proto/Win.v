From Coq Require Import QArith Qfield Lqa Qminmax.
Open Scope Q_scope.

Definition clip (lo hi y : Q) : Q := Qmax lo (Qmin hi y).

(* pixels.py apply_voi_window, LINEAR_EXACT and LINEAR, not inverted *)
Definition win_exact (c w ymin ymax x : Q) := clip ymin ymax ((x - (c - w / 2)) * ((ymax - ymin) / w) + ymin).
Definition win_linear (c w ymin ymax x : Q) := clip ymin ymax ((x - (c - w / 2)) * ((ymax - ymin) / (w - 1)) + ymin).

Lemma clip_compat lo hi a b : a == b -> clip lo hi a == clip lo hi b.
Proof. intros H. unfold clip. rewrite H. reflexivity. Qed.

(* folding a rescale (slope m, intercept b) into the window as image.py:766-769 does *)
Theorem fold_exact_sound : forall c w ymin ymax m b x, ~ m == 0 -> ~ w == 0 ->
  win_exact ((c - b) / m) (w / m) ymin ymax x == win_exact c w ymin ymax (m * x + b).
Proof. intros. unfold win_exact. apply clip_compat. field. split; assumption. Qed.

(* for LINEAR the same folding is only right when m = 1 ... *)
Theorem fold_linear_partial : forall c w ymin ymax b x, ~ w - 1 == 0 ->
  win_linear ((c - b) / 1) (w / 1) ymin ymax x == win_linear c w ymin ymax (1 * x + b).
Proof. intros. unfold win_linear. apply clip_compat. field. assumption. Qed.

(* ... and refuted otherwise: m = 2, c = 250, w = 101, x = 100 gives 1/198 vs 1/200 *)
Example fold_linear_refuted :
  ~ win_linear ((250 - 0) / 2) (101 / 2) 0 1 100 == win_linear 250 101 0 1 (2 * 100 + 0).
Proof. vm_compute. discriminate. Qed.
Print Assumptions fold_exact_sound.
