From Coq Require Import List Arith Lia Permutation PeanoNat.
Import ListNotations.

Definition rank (x : nat) (l : list nat) : nat := length (filter (fun y => y <? x) l).

Lemma rank_perm x l l' : Permutation l l' -> rank x l = rank x l'.
Proof. intros H. unfold rank. induction H as [|a l l' H IH|a b l|l l' l'' H1 IH1 H2 IH2]; cbn [filter].
  - reflexivity.
  - destruct (a <? x); cbn [length]; [f_equal|]; exact IH.
  - destruct (b <? x), (a <? x); reflexivity.
  - congruence.
Qed.

Lemma rank_seq x a n : rank x (seq a n) = (if x <=? a then 0 else Nat.min n (x - a)).
Proof.
  revert a. unfold rank. induction n as [|n IH]; intros a; cbn [seq filter].
  - destruct (x <=? a); reflexivity.
  - destruct (a <? x) eqn:E.
    + cbn [length]. rewrite IH. apply Nat.ltb_lt in E. destruct (x <=? a) eqn:E1; [apply Nat.leb_le in E1; lia|].
      destruct (x <=? S a) eqn:E2; [apply Nat.leb_le in E2|apply Nat.leb_gt in E2]; lia.
    + rewrite IH. apply Nat.ltb_ge in E. destruct (x <=? a) eqn:E1; [|apply Nat.leb_gt in E1; lia].
      destruct (x <=? S a) eqn:E2; [reflexivity|apply Nat.leb_gt in E2; lia].
Qed.

(* slice distances d_i = o + s * r_i with s > 0 (in units making them nat for the sketch) *)
Theorem rank_of_permuted_progression : forall n r x,
  Permutation r (seq 0 n) -> In x r -> rank x r = x.
Proof.
  intros n r x P Hin. rewrite (rank_perm x _ _ P), rank_seq.
  assert (Hx : In x (seq 0 n)) by (eapply Permutation_in; eassumption). apply in_seq in Hx.
  destruct (x <=? 0) eqn:E; [apply Nat.leb_le in E; lia|]. lia.
Qed.

(* strictly monotone maps preserve rank: rank of (f x) in (map f l) = rank x l *)
Lemma rank_mono (f : nat -> nat) x l : (forall a b, a < b <-> f a < f b) -> rank (f x) (map f l) = rank x l.
Proof.
  intros Hf. unfold rank. induction l as [|y l IH]; cbn [map filter]; [reflexivity|].
  destruct (y <? x) eqn:E.
  - apply Nat.ltb_lt in E. apply Hf in E. apply Nat.ltb_lt in E. rewrite E. cbn [length]. f_equal. exact IH.
  - apply Nat.ltb_ge in E. assert (E' : (f y <? f x) = false). { apply Nat.ltb_ge. destruct (Nat.lt_ge_cases (f y) (f x)) as [H|H]; [apply Hf in H; lia|exact H]. } rewrite E'. exact IH.
Qed.
Print Assumptions rank_of_permuted_progression.
