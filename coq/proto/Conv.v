From Coq Require Import List Arith Bool Lia PeanoNat.
Import ListNotations.

(* Concrete heap: objects tagged O (part of the caller's argument graph) or F (allocated by the converter). *)
Inductive tag := O | F.
Record obj := { otag : tag; ocls : nat; okids : list nat }.   (* children by address *)
Definition heap := list obj.                                   (* address = position *)
Definition env := nat -> nat.                                  (* variable -> address *)

Definition get (h : heap) (a : nat) : option obj := nth_error h a.

(* reachability, fuel-free as an inductive relation *)
Inductive reach (h : heap) : nat -> nat -> Prop :=
| reach_refl a : reach h a a
| reach_step a b c o : get h a = Some o -> In b (okids o) -> reach h b c -> reach h a c.

Definition tag_at (h : heap) (a : nat) (t : tag) : Prop := exists o, get h a = Some o /\ otag o = t.
Definition fresh_closed (h : heap) (a : nat) : Prop := forall b, reach h a b -> tag_at h b F.

(* Abstract value of a variable: root tag known? may the variable reach an O object? *)
Inductive aroot := AO | AF.
Record aval := { root : aroot; clean : bool }.   (* clean = true: everything reachable is F *)
Definition aenv := nat -> aval.

(* Statements (copy = true path, straight-line fragment) *)
Inductive stmt :=
| SAlias (x y : nat)            (* x = y            or x = y.attr[...]: same ownership as y *)
| SMutShallow (x : nat)         (* x.__class__ = C ; x.attr = literal *)
| SMutDeep (x : nat).           (* Conv.from_dataset(x, copy=False) / loops retyping nested items *)

(* Original objects are never modified: the O-part of the heap is preserved *)
Definition O_preserved (h h' : heap) : Prop :=
  forall a o, get h a = Some o -> otag o = O -> get h' a = Some o.

(* concrete step relation: mutation changes the class of the target (shallow) or of all reachable (deep) *)
Definition set_cls (c : nat) (o : obj) : obj := {| otag := otag o; ocls := c; okids := okids o |}.
Inductive step (e : env) : heap -> stmt -> env -> heap -> Prop :=
| st_alias h x y : step e h (SAlias x y) (fun v => if Nat.eqb v x then e y else e v) h
| st_shallow h h' x c :
    (forall a, a <> e x -> get h' a = get h a) ->
    (forall o, get h (e x) = Some o -> get h' (e x) = Some (set_cls c o)) ->
    step e h (SMutShallow x) e h'
| st_deep h h' x :
    (forall a, ~ reach h (e x) a -> get h' a = get h a) ->
    (forall a o, reach h (e x) a -> get h a = Some o -> exists c, get h' a = Some (set_cls c o)) ->
    step e h (SMutDeep x) e h'.

(* the checker *)
Definition check1 (ae : aenv) (s : stmt) : option aenv :=
  match s with
  | SAlias x y => Some (fun v => if Nat.eqb v x then ae y else ae v)
  | SMutShallow x => match root (ae x) with AF => Some ae | AO => None end
  | SMutDeep x => match root (ae x), clean (ae x) with AF, true => Some ae | _, _ => None end
  end.

(* abstraction relation *)
Definition sound_at (h : heap) (e : env) (ae : aenv) : Prop :=
  forall v, (root (ae v) = AF -> tag_at h (e v) F) /\ (clean (ae v) = true -> fresh_closed h (e v)).

Lemma shallow_keeps_O e h h' x c ae :
  sound_at h e ae -> root (ae x) = AF ->
  (forall a, a <> e x -> get h' a = get h a) ->
  (forall o, get h (e x) = Some o -> get h' (e x) = Some (set_cls c o)) ->
  O_preserved h h'.
Proof.
  intros S R Hother Hx a o Ha Ho.
  destruct (Nat.eq_dec a (e x)) as [->|Hne].
  - destruct (S x) as [Hr _]. destruct (Hr R) as (o' & Ho' & Ht). rewrite Ha in Ho'. inversion Ho'; subst. congruence.
  - rewrite Hother by exact Hne. exact Ha.
Qed.

Lemma deep_keeps_O e h h' x ae :
  sound_at h e ae -> clean (ae x) = true ->
  (forall a, ~ reach h (e x) a -> get h' a = get h a) ->
  O_preserved h h'.
Proof.
  intros S C Hother a o Ha Ho.
  assert (Hn : ~ reach h (e x) a).
  { intros Hr. destruct (S x) as [_ Hc]. destruct (Hc C a Hr) as (o' & Ho' & Ht). rewrite Ha in Ho'. inversion Ho'; subst. congruence. }
  rewrite Hother by exact Hn. exact Ha.
Qed.

Theorem check1_sound : forall e h s e' h' ae ae',
  sound_at h e ae -> check1 ae s = Some ae' -> step e h s e' h' -> O_preserved h h'.
Proof.
  intros e h s e' h' ae ae' S Hc Hs. destruct Hs.
  - intros a o Ha _. exact Ha.
  - cbn in Hc. destruct (root (ae x)) eqn:R; [discriminate|]. eapply shallow_keeps_O; eauto.
  - cbn in Hc. destruct (root (ae x)) eqn:R; [discriminate|]. destruct (clean (ae x)) eqn:C; [|discriminate]. eapply deep_keeps_O; eauto.
Qed.
Print Assumptions check1_sound.
