From Coq Require Import ZArith List Bool Lia ZifyBool.
Ltac Zify.zify_post_hook ::= Z.to_euclidean_division_equations.
Open Scope Z_scope.

(* CPython _PySlice_GetLongIndices, for step <> 0 *)
Definition clamp_idx (lower upper len : Z) (x : Z) : Z :=
  if x <? 0 then (if x + len <? lower then lower else x + len)
  else (if upper <? x then upper else x).

Definition slice_indices (start stop : option Z) (step len : Z) : Z * Z * Z :=
  let neg := step <? 0 in
  let lower := if neg then -1 else 0 in
  let upper := if neg then len - 1 else len in
  let st := match start with None => if neg then upper else lower | Some x => clamp_idx lower upper len x end in
  let sp := match stop with None => if neg then lower else upper | Some x => clamp_idx lower upper len x end in
  (st, sp, step).

(* Python len(range(first,last,step)) *)
Definition range_len (first last step : Z) : Z :=
  if 0 <? step then (if first <? last then (last - first + step - 1) / step else 0)
  else (if last <? first then (first - last - step - 1) / (- step) else 0).

(* volume.py:_prepare_getitem_index size computation, with its emptiness refusal *)
Definition hd_size (first last step : Z) : option Z :=
  let r := last - first in
  if (r =? 0) || negb (Bool.eqb (r <? 0) (step <? 0)) then None
  else Some ((Z.abs r - 1) / Z.abs step + 1).

Lemma hd_size_is_range_len : forall first last step,
  step <> 0 ->
  match hd_size first last step with
  | Some n => n = range_len first last step /\ 0 < n
  | None => range_len first last step = 0
  end.
Proof.
  intros f l s Hs. unfold hd_size, range_len.
  destruct (l - f =? 0) eqn:E0; cbn [orb].
  - destruct (0 <? s) eqn:E1; destruct (f <? l) eqn:E2; destruct (l <? f) eqn:E3; lia.
  - destruct (l - f <? 0) eqn:E1; destruct (s <? 0) eqn:E2; cbn [Bool.eqb negb];
    destruct (0 <? s) eqn:E3; destruct (f <? l) eqn:E4; destruct (l <? f) eqn:E5; try lia.
    + rewrite (Z.abs_neq (l - f)) by lia. rewrite (Z.abs_neq s) by lia.
      replace (f - l - s - 1) with ((- (l - f) - 1) + 1 * (- s)) by lia.
      rewrite Z.div_add by lia. split; [lia|].
      assert (0 <= (- (l - f) - 1) / - s) by (apply Z.div_pos; lia). lia.
    + rewrite (Z.abs_eq (l - f)) by lia. rewrite (Z.abs_eq s) by lia.
      replace (l - f + s - 1) with ((l - f - 1) + 1 * s) by lia.
      rewrite Z.div_add by lia. split; [lia|].
      assert (0 <= (l - f - 1) / s) by (apply Z.div_pos; lia). lia.
Qed.

Lemma range_pos_bound : forall f l s k, 0 < s -> f < l -> 0 <= k < (l - f + s - 1) / s -> f <= f + k * s < l.
Proof.
  intros f l s k Hs Hfl [Hk0 Hk].
  pose proof (Z.mul_div_le (l - f + s - 1) s Hs).
  split; nia.
Qed.

Lemma range_neg_bound : forall f l s k, s < 0 -> l < f -> 0 <= k < (f - l - s - 1) / (- s) -> l < f + k * s <= f.
Proof.
  intros f l s k Hs Hfl [Hk0 Hk].
  assert (Hs' : 0 < - s) by lia.
  pose proof (Z.mul_div_le (f - l - s - 1) (- s) Hs').
  split; nia.
Qed.

Lemma slice_in_bounds : forall start stop step len k,
  0 < len -> step <> 0 ->
  let '(f, l, s) := slice_indices start stop step len in
  0 <= k < range_len f l s -> 0 <= f + k * s < len.
Proof.
  intros start stop step len k Hlen Hs.
  unfold slice_indices, range_len.
  destruct (step <? 0) eqn:En.
  - assert (E: (0 <? step) = false) by lia. rewrite E.
    set (f := match start with None => len - 1 | Some x => clamp_idx (-1) (len - 1) len x end).
    set (l := match stop with None => -1 | Some x => clamp_idx (-1) (len - 1) len x end).
    assert (Hf : -1 <= f <= len - 1) by (subst f; destruct start; unfold clamp_idx; repeat match goal with |- context[if ?c then _ else _] => destruct c eqn:? end; lia).
    assert (Hl : -1 <= l <= len - 1) by (subst l; destruct stop; unfold clamp_idx; repeat match goal with |- context[if ?c then _ else _] => destruct c eqn:? end; lia).
    destruct (l <? f) eqn:Elf; [|lia].
    intros Hk. pose proof (range_neg_bound f l step k ltac:(lia) ltac:(lia) Hk). lia.
  - assert (E: (0 <? step) = true) by lia. rewrite E.
    set (f := match start with None => 0 | Some x => clamp_idx 0 len len x end).
    set (l := match stop with None => len | Some x => clamp_idx 0 len len x end).
    assert (Hf : 0 <= f <= len) by (subst f; destruct start; unfold clamp_idx; repeat match goal with |- context[if ?c then _ else _] => destruct c eqn:? end; lia).
    assert (Hl : 0 <= l <= len) by (subst l; destruct stop; unfold clamp_idx; repeat match goal with |- context[if ?c then _ else _] => destruct c eqn:? end; lia).
    destruct (f <? l) eqn:Elf; [|lia].
    intros Hk. pose proof (range_pos_bound f l step k ltac:(lia) ltac:(lia) Hk). lia.
Qed.
