From Coq Require Import List Arith Lia Permutation Bool.
Import ListNotations.

Section Seq.
Variable item : Type.
Variable name : Type.
Variable name_of : item -> name.
Variable name_eqb : name -> name -> bool.
Hypothesis name_eqb_spec : forall a b, reflect (a = b) (name_eqb a b).

Record st := { items : list item; lut : name -> list item }.
Definition upd (f : name -> list item) (k : name) (v : list item) : name -> list item :=
  fun k' => if name_eqb k k' then v else f k'.
Definition has (k : name) (x : item) := name_eqb k (name_of x).

Definition Inv (s : st) : Prop := forall k, Permutation (lut s k) (filter (has k) (items s)).

Definition append (s : st) (x : item) : st :=
  {| items := items s ++ [x]; lut := upd (lut s) (name_of x) (lut s (name_of x) ++ [x]) |}.
Definition insert (s : st) (pos : nat) (x : item) : st :=
  {| items := firstn pos (items s) ++ x :: skipn pos (items s);
     lut := upd (lut s) (name_of x) (lut s (name_of x) ++ [x]) |}.
(* upstream extend: index the item, then call append (which indexes it again) *)
Definition extend_buggy (s : st) (xs : list item) : st :=
  fold_left (fun s x => append {| items := items s; lut := upd (lut s) (name_of x) (lut s (name_of x) ++ [x]) |} x) xs s.
Definition extend (s : st) (xs : list item) : st := fold_left append xs s.

Lemma has_self x : has (name_of x) x = true.
Proof. unfold has. destruct (name_eqb_spec (name_of x) (name_of x)); congruence. Qed.

Lemma filter_one k x : filter (has k) [x] = if name_eqb k (name_of x) then [x] else [].
Proof. reflexivity. Qed.

Lemma eqb_sym a b : name_eqb a b = name_eqb b a.
Proof. destruct (name_eqb_spec a b), (name_eqb_spec b a); congruence. Qed.

Lemma append_inv s x : Inv s -> Inv (append s x).
Proof.
  intros H k. unfold append, upd; cbn [items lut]. rewrite filter_app, filter_one, (eqb_sym k).
  destruct (name_eqb_spec (name_of x) k) as [E|Hne].
  - subst k. apply Permutation_app; [apply H | reflexivity].
  - rewrite app_nil_r. apply H.
Qed.

Lemma insert_inv s p x : Inv s -> Inv (insert s p x).
Proof.
  intros H k. unfold insert, upd; cbn [items lut].
  specialize (H k). rewrite <- (firstn_skipn p (items s)), filter_app in H.
  rewrite filter_app. change (x :: skipn p (items s)) with ([x] ++ skipn p (items s)).
  rewrite filter_app, filter_one, (eqb_sym k).
  destruct (name_eqb_spec (name_of x) k) as [E|Hne].
  - subst k. rewrite H. rewrite <- app_assoc. apply Permutation_app_head. cbn. symmetry. apply Permutation_cons_append.
  - cbn. exact H.
Qed.

Theorem extend_inv s xs : Inv s -> Inv (extend s xs).
Proof. revert s. induction xs as [|x xs IH]; intros s H; cbn; [exact H|]. apply IH, append_inv, H. Qed.
End Seq.

(* the upstream extend breaks the invariant: witness *)
Example extend_buggy_refuted :
  let s0 := {| items := @nil nat; lut := fun _ : nat => @nil nat |} in
  lut nat nat (extend_buggy nat nat (fun x => x) Nat.eqb s0 [7]) 7 = [7; 7].
Proof. reflexivity. Qed.
Print Assumptions extend_inv.
