(* T-int equivalence obligation decode_bit_window/C05 (static text; compiled by harness/translate_int.py against
   the definition regenerated from the current source in <work>/TInt_Gen_*.v). *)
From Coq Require Import String ZArith List Bool Lia.
From HD Require Import Base.Val Base.PyInt Base.PyExt C05_Model.
From Work Require Import TInt_Gen_decode_bit_window.
Import ListNotations.
Open Scope string_scope.
Open Scope Z_scope.

(* frame.decode_frame, single-bit native branch, as the source reads NOW:
       n_pixels = rows * columns * samples_per_pixel
       pixel_offset = int(((index * n_pixels / 8) % 1) * 8)
   (the statements around them - unpack_bits(value), the slice [pixel_offset:pixel_offset + n_pixels], the
   reshapes - are checked textually by the fragment cutter).  The float idiom is read as  a mod 8
   (Base/PyExt.v py_frac_scaled: trusted, exact for |a| < 2^53). *)
Theorem tint_decode_bit_window_C05 : forall idx R C spp,
  t_decode_bit_window idx R C spp = Ok (R * C * spp, (idx * (R * C * spp)) mod 8).
Proof.
  intros.
  assert (H : forall a b c d : Z, a = c -> b = d -> @Ok (Z * Z) (a, b mod 8) = Ok (c, d mod 8))
    by (intros; subst; reflexivity).
  unfold t_decode_bit_window, ret, py_frac_scaled. cbv zeta. apply H; ring.
Qed.
Print Assumptions tint_decode_bit_window_C05.

(* hence the model's single-bit decode is: the window computed by the code, cut out of the unpacked bits *)
Theorem tint_decode_native_bit_C05 : forall bs sg idx R C spp v,
  decode_native 1 bs sg (R * C * spp) idx v =
  bind (t_decode_bit_window idx R C spp) (fun '(n, off) =>
    let fr := pyslice off (off + n) (unpack_bits v) in
    if zlen fr <? n then Err "ValueError" else Ok fr).
Proof.
  intros. rewrite tint_decode_bit_window_C05. unfold decode_native, pyslice. cbn [bind Z.eqb Pos.eqb].
  replace ((idx * (R * C * spp)) mod 8 + R * C * spp - (idx * (R * C * spp)) mod 8) with (R * C * spp) by lia.
  reflexivity.
Qed.
Print Assumptions tint_decode_native_bit_C05.
