(* T-int equivalence obligation pm_pixel_data_type/C19 (static text; compiled by harness/translate_int.py against
   the definition regenerated from the current source in <work>/TInt_Gen_*.v). *)
From Coq Require Import String ZArith List Bool Lia.
From HD Require Import Base.Val Base.PyInt Base.PyExt C19_Model.
From Work Require Import TInt_Gen_pm_pixel_data_type.
Import ListNotations.
Open Scope string_scope.
Open Scope Z_scope.

(* ParametricMap._get_pixel_data_type_and_attr (pm/sop.py) as the source reads NOW - which dtypes are accepted and
   which pixel data attribute each gets (the strings come from the dict display assigned to
   self._pixel_data_type_map in ParametricMap.__init__, the enum from class _PixelDataType) - is the hand model's
   [pm_attr].  The code's observations of pixel_array.dtype are explicit boolean parameters of the translation,
   instantiated here by the model's reading of the numpy dtype [d]:
       dtype.kind == 'f' / 'u'  = kind_of d is KF / KU        dtype.name == 'float32' / 'float64' = d is DF32 / DF64
       dtype == np.uint8 / np.uint16 = d is DU8 / DU16
   (observation parameters sorted by name: dtype == np.uint16, dtype == np.uint8, kind == 'f', kind == 'u',
   name == 'float32', name == 'float64') *)
Definition kind_f (d : dtype) : bool := match kind_of d with KF => true | _ => false end.
Definition kind_u (d : dtype) : bool := match kind_of d with KU => true | _ => false end.
Definition is_f32 (d : dtype) : bool := match d with DF32 => true | _ => false end.
Definition is_f64 (d : dtype) : bool := match d with DF64 => true | _ => false end.
Definition is_u8 (d : dtype) : bool := match d with DU8 => true | _ => false end.
Definition is_u16 (d : dtype) : bool := match d with DU16 => true | _ => false end.
Definition tag_attr (e : E_PixelDataType) : attr :=
  match e with
  | E_PixelDataType_USHORT => PixelData
  | E_PixelDataType_SINGLE => FloatPixelData
  | E_PixelDataType_DOUBLE => DoubleFloatPixelData
  end.

Theorem tint_pm_pixel_data_type_C19 : forall d,
  bind (t_pm_pixel_data_type (is_u16 d) (is_u8 d) (kind_f d) (kind_u d) (is_f32 d) (is_f64 d))
       (fun '(e, name) => Ok (tag_attr e, name))
  = bind (pm_attr d) (fun aw => Ok (fst aw, attr_name (fst aw))).
Proof. intros d. destruct d; reflexivity. Qed.
Print Assumptions tint_pm_pixel_data_type_C19.
