(* T-int equivalence obligation getitem_check_int/C08 (static text; compiled by harness/translate_int.py against
   the definition regenerated from the current source in <work>/TInt_Gen_*.v). *)
From Coq Require Import String ZArith List Bool Lia ZifyBool.
From HD Require Import Base.Val Base.PyInt C08_Model.
From Work Require Import TInt_Gen .
Import ListNotations.
Ltac Zify.zify_post_hook ::= Z.to_euclidean_division_equations.
Open Scope string_scope.
Open Scope Z_scope.

(* _check_int(val, dim) with n = self.spatial_shape[dim]: the IndexError branch of check_item *)
Theorem tint_getitem_check_int_C08 : forall v n,
  t_getitem_check_int v n = bind (check_item n (IInt v)) (fun _ => Ok tt).
Proof. intros. unfold t_getitem_check_int, check_item. py_crush. Qed.
Print Assumptions tint_getitem_check_int_C08.
