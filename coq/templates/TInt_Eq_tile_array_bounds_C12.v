(* T-int equivalence obligation tile_array_bounds/C12 (static text; compiled by harness/translate_int.py against
   the definition regenerated from the current source in <work>/TInt_Gen_*.v).
   Fragment of spatial.get_tile_array: everything before the numpy slicing (offset checks, 1-based -> 0-based,
   clipping, pad sizes), with pixel_array.shape[0|1] read as the ints R, C.  The translator refuses unless the
   slicing / np.pad statements after it are textually unchanged. *)
From Coq Require Import String ZArith List Bool Lia ZifyBool.
From HD Require Import Base.Val Base.PyInt C12_Model.
From Work Require Import TInt_Gen .
Import ListNotations.
Ltac Zify.zify_post_hook ::= Z.to_euclidean_division_equations.
Open Scope string_scope.
Open Scope Z_scope.

Theorem tint_tile_array_bounds_value : forall ro co th tw R C,
  t_tile_array_bounds ro co th tw R C =
  if (ro <? 1) || (R <? ro) then Err "ValueError"
  else if (co <? 1) || (C <? co) then Err "ValueError"
  else Ok (ro - 1, Z.min (ro - 1 + th) R, co - 1, Z.min (co - 1 + tw) C,
           Z.max (ro - 1 + th - R) 0, Z.max (co - 1 + tw - C) 0).
Proof.
  intros. unfold t_tile_array_bounds. rewrite !Z.gtb_ltb.
  destruct ((ro <? 1) || (R <? ro)) eqn:E1; [reflexivity|].
  destruct ((co <? 1) || (C <? co)) eqn:E2; [reflexivity|].
  py_simpl. cbv zeta.
  assert (M1 : forall a n, Z.min a n = if n <? a then n else a) by (intros a n; destruct (n <? a) eqn:E; lia).
  assert (M2 : forall a n, Z.max (a - n) 0 = if n <? a then a - n else 0) by (intros a n; destruct (n <? a) eqn:E; lia).
  rewrite !M1, !M2.
  destruct (R <? ro - 1 + th) eqn:E3; destruct (C <? co - 1 + tw) eqn:E4; reflexivity.
Qed.
Print Assumptions tint_tile_array_bounds_value.

(* the hand model of get_tile_array IS the translated prologue followed by slicing and zero padding *)
Theorem tint_tile_array_bounds_C12 : forall M R C ro co th tw pad,
  get_tile_array M R C ro co th tw pad =
  bind (t_tile_array_bounds ro co th tw R C) (fun '(r0, r1, c0, c1, pr, pc) =>
    let t := map (slice_list c0 c1) (slice_list r0 r1 M) in
    Ok (if pad then pad_right (repeat 0 (Z.to_nat (c1 - c0 + pc))) pr (map (pad_right 0 pc) t) else t)).
Proof.
  intros. rewrite tint_tile_array_bounds_value. unfold get_tile_array.
  destruct ((ro <? 1) || (R <? ro)); [reflexivity|]. destruct ((co <? 1) || (C <? co)); [reflexivity|].
  cbn [bind]. cbv zeta. destruct pad; reflexivity.
Qed.
Print Assumptions tint_tile_array_bounds_C12.

Theorem tint_tile_array_nd_bounds_C12 : forall S M R C ro co th tw pad,
  get_tile_array_nd S M R C ro co th tw pad =
  bind (t_tile_array_bounds ro co th tw R C) (fun '(r0, r1, c0, c1, pr, pc) =>
    let t := map (slice_list c0 c1) (slice_list r0 r1 M) in
    let z := repeat 0 (Z.to_nat S) in
    Ok (if pad then pad_right (repeat z (Z.to_nat (c1 - c0 + pc))) pr (map (pad_right z pc) t) else t)).
Proof.
  intros. rewrite tint_tile_array_bounds_value. unfold get_tile_array_nd.
  destruct ((ro <? 1) || (R <? ro)); [reflexivity|]. destruct ((co <? 1) || (C <? co)); [reflexivity|].
  cbn [bind]. cbv zeta. destruct pad; reflexivity.
Qed.
Print Assumptions tint_tile_array_nd_bounds_C12.
