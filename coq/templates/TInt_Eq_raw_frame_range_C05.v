(* T-int equivalence obligation raw_frame_range/C05 (static text; compiled by harness/translate_int.py against
   the definition regenerated from the current source in <work>/TInt_Gen_*.v). *)
From Coq Require Import String ZArith List Bool Lia ZifyBool.
From HD Require Import Base.Val Base.PyInt C05_Model.
From Work Require Import TInt_Gen.
Import ListNotations.
Ltac Zify.zify_post_hook ::= Z.to_euclidean_division_equations.
Open Scope string_scope.
Open Scope Z_scope.

(* npx of the model = Rows*Columns*2 for YBR_FULL_422, else Rows*Columns*SamplesPerPixel *)
Theorem tint_raw_frame_range_C05 : forall i (ybr : bool) R C spp bits,
  t_raw_frame_native_range i ybr R C spp bits
  = Ok (eager_range bits (if ybr then R * C * 2 else R * C * spp) i).
Proof.
  intros. unfold t_raw_frame_native_range, eager_range.
  destruct ybr; py_simpl; cbv zeta;
  match goal with |- context [(?a =? 1) && negb (?b =? 0)] => destruct ((a =? 1) && negb (b =? 0)) end;
  unfold ret; repeat f_equal; lia.
Qed.
Print Assumptions tint_raw_frame_range_C05.
