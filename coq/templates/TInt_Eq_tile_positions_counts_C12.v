(* T-int equivalence obligation tile_positions_counts/C12 (static text; compiled by harness/translate_int.py against
   the definition regenerated from the current source in <work>/TInt_Gen_*.v).
   Fragment of spatial.compute_tile_positions_per_frame: the two tile counts.  The translator refuses unless the
   statements after them (meshgrid 'xy' order, scaling by [columns, rows], transformer call, += 1, zip) are
   textually the ones the hand model mirrors. *)
From Coq Require Import String ZArith List Bool Lia ZifyBool QArith.
From HD Require Import Base.Val Base.PyInt C12_Model.
From Work Require Import TInt_Gen .
Import ListNotations.
Ltac Zify.zify_post_hook ::= Z.to_euclidean_division_equations.
Open Scope string_scope.
Open Scope Z_scope.

Theorem tint_tile_positions_counts_C12 : forall th tw R C, th <> 0 -> tw <> 0 ->
  t_tile_positions_counts th tw R C = Ok (tiles_per_column C tw, tiles_per_row R th).
Proof.
  intros th tw R C Hth Htw. unfold t_tile_positions_counts, py_floordiv, tiles_per_column, tiles_per_row.
  replace (tw =? 0) with false by lia. replace (th =? 0) with false by lia. reflexivity.
Qed.
Print Assumptions tint_tile_positions_counts_C12.

Theorem tint_tile_positions_counts_zero : forall th tw R C, th = 0 \/ tw = 0 ->
  t_tile_positions_counts th tw R C = Err "ZeroDivisionError".
Proof.
  intros th tw R C H. unfold t_tile_positions_counts, py_floordiv.
  destruct (tw =? 0) eqn:E1; [reflexivity|]. destruct (th =? 0) eqn:E2; [reflexivity|]. lia.
Qed.
Print Assumptions tint_tile_positions_counts_zero.

(* the checked hand model is its guards followed by the translated counts and the grid of those counts
   (in particular the ORDER of the two divisions - columns first - is the code's) *)
Theorem tint_tile_positions_chk_C12 : forall npos nori nsp R C th tw pos rc cc spr spc,
  tile_positions_chk npos nori nsp R C th tw pos rc cc spr spc =
  if negb (npos =? 3) then Err "ValueError" else if negb (nori =? 6) then Err "ValueError"
  else if negb (nsp =? 2) then Err "ValueError"
  else bind (t_tile_positions_counts th tw R C) (fun '(tpc, tpr) =>
         if bad_spacing spr spc then Err "ValueError"
         else Ok (map (fun o => (o, pix2ref pos rc cc spr spc (fst o - 1) (snd o - 1)))
                      (flat_map (fun r => map (fun c => (c * tw + 1, r * th + 1)) (zrange tpc)) (zrange tpr)))).
Proof.
  intros. unfold tile_positions_chk, t_tile_positions_counts, py_floordiv.
  destruct (negb (npos =? 3)); [reflexivity|]. destruct (negb (nori =? 6)); [reflexivity|].
  destruct (negb (nsp =? 2)); [reflexivity|].
  destruct (tw =? 0) eqn:E1; [reflexivity|]. destruct (th =? 0) eqn:E2; [reflexivity|]. reflexivity.
Qed.
Print Assumptions tint_tile_positions_chk_C12.
