(* T-int equivalence obligation getitem_check_slice/C08 (static text; compiled by harness/translate_int.py against
   the definition regenerated from the current source in <work>/TInt_Gen_*.v). *)
From Coq Require Import String ZArith List Bool Lia ZifyBool.
From HD Require Import Base.Val Base.PyInt C08_Model.
From Work Require Import TInt_Gen .
Import ListNotations.
Ltac Zify.zify_post_hook ::= Z.to_euclidean_division_equations.
Open Scope string_scope.
Open Scope Z_scope.

(* _check_slice(val, dim) with n = self.spatial_shape[dim]; parameters of the generated
   definition in order of first use: val.start, n, val.stop *)
Theorem tint_getitem_check_slice_C08 : forall a b s n,
  t_getitem_check_slice a n b = bind (check_item n (ISlc a b s)) (fun _ => Ok tt).
Proof. intros. unfold t_getitem_check_slice, check_item. destruct a, b; py_crush. Qed.
Print Assumptions tint_getitem_check_slice_C08.
