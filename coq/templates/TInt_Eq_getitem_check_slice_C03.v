(* T-int equivalence obligation getitem_check_slice/C03 (static text; compiled by harness/translate_int.py against
   the definition regenerated from the current source in <work>/TInt_Gen_*.v). *)
From Coq Require Import String ZArith List Bool Lia ZifyBool.
From HD Require Import Base.Val Base.PyInt C03_Model.
From Work Require Import TInt_Gen .
Import ListNotations.
Ltac Zify.zify_post_hook ::= Z.to_euclidean_division_equations.
Open Scope string_scope.
Open Scope Z_scope.

Theorem tint_getitem_check_slice_C03 : forall a b n,
  t_getitem_check_slice a n b = if check_slice a b n then Ok tt else Err "ValueError".
Proof. intros. unfold t_getitem_check_slice, check_slice. destruct a, b; py_crush. Qed.
Print Assumptions tint_getitem_check_slice_C03.
