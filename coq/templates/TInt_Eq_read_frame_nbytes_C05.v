(* T-int equivalence obligation read_frame_nbytes/C05 (static text; compiled by harness/translate_int.py against
   the definition regenerated from the current source in <work>/TInt_Gen_*.v). *)
From Coq Require Import String ZArith List Bool Lia ZifyBool.
From HD Require Import Base.Val Base.PyInt C05_Model.
From Work Require Import TInt_Gen.
Import ListNotations.
Ltac Zify.zify_post_hook ::= Z.to_euclidean_division_equations.
Open Scope string_scope.
Open Scope Z_scope.

(* io.py ImageFileReader.read_frame_raw (state after the D118 fix): the index guard, the byte offset of the frame
   relative to the first frame and the number of bytes read by the native branch - all from the CURRENT metadata;
   parameters of the generated definition: index, self.number_of_frames, self._bytes_per_frame_uncompressed,
   metadata.BitsAllocated, self._pixels_per_frame.  The model's read_frame_raw_cur (= read_frame_raw_native /
   read_frame_raw_file, C05_reader_native_offset_computed) uses the same guard, lazy_offset and lazy_nbytes;
   _bytes_per_frame_uncompressed = lazy_bpf is obligation bytes_per_frame/C05. *)
Theorem tint_read_frame_nbytes_C05 : forall i n bits npx,
  t_read_frame_nbytes i n (lazy_bpf bits npx) bits npx
  = if (i <? 0) || (i >=? n) then Err "ValueError" else Ok (lazy_offset bits npx i, lazy_nbytes bits npx i).
Proof.
  intros. unfold t_read_frame_nbytes, lazy_offset, lazy_nbytes. cbv zeta.
  destruct ((i <? 0) || (i >=? n)); cbn [bind]; [reflexivity|].
  unfold ret. cbn [bind]. destruct (bits =? 1); reflexivity.
Qed.
Print Assumptions tint_read_frame_nbytes_C05.
