(* T-int equivalence obligation read_frame_nbytes/C05 (static text; compiled by harness/translate_int.py against
   the definition regenerated from the current source in <work>/TInt_Gen_*.v). *)
From Coq Require Import String ZArith List Bool Lia ZifyBool.
From HD Require Import Base.Val Base.PyInt C05_Model.
From Work Require Import TInt_Gen.
Import ListNotations.
Ltac Zify.zify_post_hook ::= Z.to_euclidean_division_equations.
Open Scope string_scope.
Open Scope Z_scope.

(* io.py ImageFileReader.read_frame_raw: the index guard and the number of bytes read by the native branch;
   parameters of the generated definition: index, self.number_of_frames, self._bytes_per_frame_uncompressed,
   metadata.BitsAllocated, self._pixels_per_frame.  The model's read_frame_raw_native / read_frame_raw_file use
   the same guard and lazy_nbytes; _bytes_per_frame_uncompressed = lazy_bpf is obligation bytes_per_frame/C05. *)
Theorem tint_read_frame_nbytes_C05 : forall i n bits npx,
  t_read_frame_nbytes i n (lazy_bpf bits npx) bits npx
  = if (i <? 0) || (i >=? n) then Err "ValueError" else Ok (lazy_nbytes bits npx i).
Proof.
  intros. unfold t_read_frame_nbytes, lazy_nbytes. cbv zeta.
  destruct ((i <? 0) || (i >=? n)); cbn [bind]; [reflexivity|].
  unfold ret. cbn [bind]. destruct (bits =? 1); reflexivity.
Qed.
Print Assumptions tint_read_frame_nbytes_C05.
