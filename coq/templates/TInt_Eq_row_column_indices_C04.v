(* T-int equivalence obligation row_column_indices/C04 (static text; compiled by harness/translate_int.py against
   the definition regenerated from the current source in <work>/TInt_Gen_*.v). *)
From Coq Require Import String ZArith List Bool Lia ZifyBool.
From HD Require Import Base.Val Base.PyInt C04_Model.
From Work Require Import TInt_Gen TInt_Spec_rc.
Import ListNotations.
Ltac Zify.zify_post_hook ::= Z.to_euclidean_division_equations.
Open Scope string_scope.
Open Scope Z_scope.

Lemma rc_spec_C04 : forall rs re cs ce R C ai oi,
  rc_spec rs re cs ce R C ai oi = standardize_rc_out ai oi rs re cs ce R C.
Proof.
  intros. unfold rc_spec, standardize_rc_out, standardize_rc. cbv zeta.
  change (rc_pre ai) with (pre_idx ai). change rc_dflt with dflt.
  change rc_start with std_start. change rc_end with std_end.
  match goal with |- context [(?c =? 0) || (?r =? 0)] => destruct ((c =? 0) || (r =? 0)) end;
  [reflexivity|].
  (* the end == 0 guard (fix D100) *)
  match goal with |- context [(?c =? 0) || (?r =? 0)] => destruct ((c =? 0) || (r =? 0)) end;
  [reflexivity|].
  repeat (rewrite bind_assoc; py_bind_ext; [reflexivity|]).
  py_simpl. destruct oi; reflexivity.
Qed.

Theorem tint_row_column_indices_C04 : forall rs re cs ce R C ai oi,
  t_standardize_row_column_indices rs re cs ce R C ai oi = standardize_rc_out ai oi rs re cs ce R C.
Proof. intros. rewrite tint_rc_spec. apply rc_spec_C04. Qed.
Print Assumptions tint_row_column_indices_C04.
