(* T-int equivalence obligation unsigned_dtype/C01 (static text; compiled by harness/translate_int.py against
   the definition regenerated from the current source in <work>/TInt_Gen_*.v). *)
From Coq Require Import String ZArith List Bool Lia ZifyBool.
From HD Require Import Base.Val Base.PyInt C01_Model.
From Work Require Import TInt_Gen.
Import ListNotations.
Ltac Zify.zify_post_hook ::= Z.to_euclidean_division_equations.
Open Scope string_scope.
Open Scope Z_scope.

(* C01 models the use of _get_unsigned_dtype in Segmentation.__init__ (LABELMAP: the
   pixel dtype is chosen from the largest segment number, BitsAllocated = its width).
   The constructor refuses segment numbers above 65535 (segs_ok), hence the range. *)
Theorem tint_unsigned_dtype_C01 : forall c,
  ty c = LABELMAP -> maxl (segs c) < 65536 ->
  t_get_unsigned_dtype (maxl (segs c)) = Ok (bits_alloc c).
Proof.
  intros c Hty Hm. unfold t_get_unsigned_dtype, bits_alloc. rewrite Hty.
  destruct (maxl (segs c) <? 256) eqn:E; [reflexivity|].
  replace (maxl (segs c) <? 65536) with true by lia. reflexivity.
Qed.
Print Assumptions tint_unsigned_dtype_C01.
(* and outside that range the code takes the third branch *)
Theorem tint_unsigned_dtype_wide : forall m, 65536 <= m -> t_get_unsigned_dtype m = Ok 32.
Proof.
  intros m H. unfold t_get_unsigned_dtype.
  replace (m <? 256) with false by lia. replace (m <? 65536) with false by lia. reflexivity.
Qed.
Print Assumptions tint_unsigned_dtype_wide.
