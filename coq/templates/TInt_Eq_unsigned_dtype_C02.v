(* T-int equivalence obligation unsigned_dtype/C02 (static text; compiled by harness/translate_int.py against
   the definition regenerated from the current source in <work>/TInt_Gen_*.v). *)
From Coq Require Import String ZArith List Bool Lia ZifyBool.
From HD Require Import Base.Val Base.PyInt C02_Model.
From Work Require Import TInt_Gen.
Import ListNotations.
Ltac Zify.zify_post_hook ::= Z.to_euclidean_division_equations.
Open Scope string_scope.
Open Scope Z_scope.

(* np.dtype(np.uintW) is rendered by the translator as the width W *)
Theorem tint_unsigned_dtype_C02 : forall m,
  bind (t_get_unsigned_dtype m) (fun w => Ok (DU w)) = Ok (unsigned_dtype m).
Proof.
  intros. unfold t_get_unsigned_dtype, unsigned_dtype.
  destruct (m <? 256); [reflexivity|]. destruct (m <? 65536); reflexivity.
Qed.
Print Assumptions tint_unsigned_dtype_C02.
