(* T-int equivalence obligation plane_position_offsets/C12 (static text; compiled by harness/translate_int.py
   against the definition regenerated from the current source in <work>/TInt_Gen_*.v).
   Fragment of utils.compute_plane_position_tiled_full: the index check and the two frame offsets.  The
   translator refuses unless the uses of the offsets (index=(column, row) of the transform,
   pixel_matrix_position = offsets + 1) are textually unchanged. *)
From Coq Require Import String ZArith List Bool Lia ZifyBool QArith.
From HD Require Import Base.Val Base.PyInt C12_Model.
From Work Require Import TInt_Gen .
Import ListNotations.
Ltac Zify.zify_post_hook ::= Z.to_euclidean_division_equations.
Open Scope string_scope.
Open Scope Z_scope.

Theorem tint_plane_position_offsets_C12 : forall ri ci x y th tw rc cc spr spc sl,
  plane_position_tiled_full ri ci x y th tw rc cc spr spc sl =
  bind (t_plane_position_offsets ri ci th tw) (fun '(ro, co) =>
    let z := match sl with Some (k, sbs) => (inject_Z (k - 1) * sbs)%Q | None => 0%Q end in
    Ok ((co + 1, ro + 1), pix2ref (V3 x y z) rc cc spr spc co ro)).
Proof.
  intros. unfold plane_position_tiled_full, t_plane_position_offsets.
  destruct ((ri <? 1) || (ci <? 1)); reflexivity.
Qed.
Print Assumptions tint_plane_position_offsets_C12.
