(* T-int equivalence obligation coded_concept_init/C17 (static text; compiled by harness/translate_int.py against
   the definition regenerated from the current source in <work>/TInt_Gen_*.v). *)
From Coq Require Import String ZArith List Bool Lia.
From HD Require Import Base.Val Base.PyInt Base.PyExt C17_Model.
From Work Require Import TInt_Gen_coded_concept_init.
Import ListNotations.
Open Scope string_scope.
Open Scope Z_scope.

(* CodedConcept.__init__ (sr/coding.py), the whole body after `super().__init__()`, as the source reads NOW:
   which of CodeValue / LongCodeValue / URNCodeValue receives the value (by form and length), the 64-character
   limit on the meaning, and the remaining stores.  The six store slots of the translated body are the six
   attributes of the model's dataset; a slot that is never written is an absent attribute.
   The code's observations of its string arguments are explicit parameters of the translation, instantiated
   here by the model's reading of them:
       value.startswith('urn') = prefix "urn" v      '://' in value = contains "://" v
       len(value) = slen v                           len(meaning) = slen m
   and str(x) of a str argument is read as x.  (The observation parameters of the generated definition come
   after the function's own parameters, sorted by name: len(meaning), len(value), '://' in value,
   value.startswith('urn').) *)
Theorem tint_coded_concept_init_C17 : forall v s m ver,
  bind (t_coded_concept_init v s m ver (slen m) (slen v) (contains "://" v) (prefix "urn" v))
       (fun '(cv, lcv, urn, cm, csd, csv) => Ok (DS cv lcv urn (Some cm) (Some csd) csv true))
  = init v s m ver.
Proof.
  intros v s m ver.
  unfold t_coded_concept_init, init, select_attr, is_uri_form.
  destruct (prefix "urn" v), (contains "://" v), ver; py_crush.
Qed.
Print Assumptions tint_coded_concept_init_C17.

(* the attribute-choice rule on its own (theorems C17 store_* are stated over select_attr) *)
Theorem tint_coded_concept_attr_C17 : forall v s m ver cv lcv urn cm csd csv,
  t_coded_concept_init v s m ver (slen m) (slen v) (contains "://" v) (prefix "urn" v)
    = Ok (cv, lcv, urn, cm, csd, csv) ->
  cv = attr_slot ACodeValue (DS cv lcv urn (Some cm) (Some csd) csv true) /\
  match select_attr v with
  | ACodeValue => cv = Some v /\ lcv = None /\ urn = None
  | ALongCodeValue => cv = None /\ lcv = Some v /\ urn = None
  | AURNCodeValue => cv = None /\ lcv = None /\ urn = Some v
  end.
Proof.
  intros v s m ver cv lcv urn cm csd csv.
  intros H.
  assert (E : init v s m ver = Ok (DS cv lcv urn (Some cm) (Some csd) csv true))
    by (rewrite <- tint_coded_concept_init_C17, H; reflexivity).
  unfold init, select_attr, is_uri_form in *.
  destruct (64 <? slen m); [discriminate E|].
  destruct (prefix "urn" v || contains "://" v); [|destruct (16 <? slen v)];
    inversion E; subst; cbn; auto.
Qed.
Print Assumptions tint_coded_concept_attr_C17.
