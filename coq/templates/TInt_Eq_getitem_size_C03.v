(* T-int equivalence obligation getitem_size/C03 (static text; compiled by harness/translate_int.py against
   the definition regenerated from the current source in <work>/TInt_Gen_*.v). *)
From Coq Require Import String ZArith List Bool Lia ZifyBool.
From HD Require Import Base.Val Base.PyInt C03_Model Base.PySlice.
From Work Require Import TInt_Gen .
Import ListNotations.
Ltac Zify.zify_post_hook ::= Z.to_euclidean_division_equations.
Open Scope string_scope.
Open Scope Z_scope.

(* C03 models slices with step 1 only *)
Theorem tint_getitem_size_C03 : forall a b n,
  let '(f, l, st) := slice_indices a b 1 n in
  bind (t_getitem_size f l st) (fun sz => Ok (f, sz))
  = match slice_first_size a b n with Some p => Ok p | None => Err "IndexError" end.
Proof.
  intros. unfold slice_first_size. destruct (slice_indices a b 1 n) as [[f l] st] eqn:E.
  assert (st = 1) by (unfold slice_indices in E; inversion E; reflexivity). subst st.
  unfold t_getitem_size, hd_size, py_floordiv. cbv zeta. cbn [Z.abs Z.eqb].
  destruct ((l - f =? 0) || negb (Bool.eqb (l - f <? 0) (1 <? 0))); reflexivity.
Qed.
Print Assumptions tint_getitem_size_C03.
