(* T-int equivalence obligation getitem_size/C08 (static text; compiled by harness/translate_int.py against
   the definition regenerated from the current source in <work>/TInt_Gen_*.v). *)
From Coq Require Import String ZArith List Bool Lia ZifyBool.
From HD Require Import Base.Val Base.PyInt C08_Model.
From Work Require Import TInt_Gen .
Import ListNotations.
Ltac Zify.zify_post_hook ::= Z.to_euclidean_division_equations.
Open Scope string_scope.
Open Scope Z_scope.

(* the size computation of the second loop of _prepare_getitem_index, after
   first, last, step = slice.indices(n) (which refuses step = 0 itself) *)
Theorem tint_getitem_size_C08 : forall f l st, st <> 0 ->
  t_getitem_size f l st
  = match hd_size f l st with Some sz => Ok sz | None => Err "IndexError" end.
Proof.
  intros f l st H. unfold t_getitem_size, hd_size, py_floordiv. cbv zeta.
  replace (Z.abs st =? 0) with false by lia.
  destruct ((l - f =? 0) || negb (Bool.eqb (l - f <? 0) (st <? 0))); reflexivity.
Qed.
Print Assumptions tint_getitem_size_C08.
