(* T-int, shared step for _Image._standardize_row_column_indices: the definition regenerated
   from the current source equals [rc_spec], a block-structured reading of the function that is
   local to T-int.  TInt_Eq_row_column_indices_C03.v / _C04.v then prove rc_spec equal to the
   hand models of C03 and C04 (those two proofs do not depend on the generated text). *)
From Coq Require Import String ZArith List Bool Lia ZifyBool.
From HD Require Import Base.Val Base.PyInt.
From Work Require Import TInt_Gen.
Import ListNotations.
Ltac Zify.zify_post_hook ::= Z.to_euclidean_division_equations.
Open Scope string_scope.
Open Scope Z_scope.

(* `if as_indices: if x is not None and x >= 0: x = x + 1` *)
Definition rc_pre (ai : bool) (x : option Z) : option Z :=
  match x with
  | Some v => if ai && (0 <=? v) then Some (v + 1) else Some v
  | None => None
  end.
(* `if x is None: x = d` *)
Definition rc_dflt (d : Z) (x : option Z) : Z := match x with Some v => v | None => d end.
(* `if start > n: raise / elif start < 0: start = n + start + 1; if start < 1: raise` *)
Definition rc_start (n s : Z) : res Z :=
  if n <? s then Err "ValueError"
  else if s <? 0 then (if n + s + 1 <? 1 then Err "ValueError" else Ok (n + s + 1))
  else Ok s.
(* `if end > n + 1: raise / elif end < 0: end = n + end + 1; if end < 1: raise` *)
Definition rc_end (n e : Z) : res Z :=
  if n + 1 <? e then Err "ValueError"
  else if e <? 0 then (if n + e + 1 <? 1 then Err "ValueError" else Ok (n + e + 1))
  else Ok e.

Definition rc_spec (rs re cs ce : option Z) (R C : Z) (ai oi : bool) : res (Z * Z * Z * Z) :=
  let rs1 := rc_dflt 1 (rc_pre ai rs) in
  let re1 := rc_dflt (R + 1) (rc_pre ai re) in
  let cs1 := rc_dflt 1 (rc_pre ai cs) in
  let ce1 := rc_dflt (C + 1) (rc_pre ai ce) in
  if (cs1 =? 0) || (rs1 =? 0) then Err "ValueError"
  else if (ce1 =? 0) || (re1 =? 0) then Err "ValueError"
  else
    bind (rc_start R rs1) (fun rs2 =>
    bind (rc_end R re1) (fun re2 =>
    bind (rc_start C cs1) (fun cs2 =>
    bind (rc_end C ce1) (fun ce2 =>
      if oi then Ok (rs2 - 1, re2 - 1, cs2 - 1, ce2 - 1) else Ok (rs2, re2, cs2, ce2))))).

(* the `as_indices` block leaves (rc_pre ai rs, rc_pre ai re, rc_pre ai cs, rc_pre ai ce) *)
Ltac rc_stage1 ai rs re cs ce :=
  match goal with
  | |- bind ?B _ = _ =>
      replace B with (Ok (rc_pre ai rs, rc_pre ai re, rc_pre ai cs, rc_pre ai ce));
      [ | symmetry; unfold rc_pre; destruct ai, rs, re, cs, ce; py_norm; py_simpl;
          repeat (py_case; py_simpl); reflexivity ]
  end.

(* one `if x is None: x = d` block: afterwards x is rc_dflt d o *)
Lemma rc_default_block : forall {B} (d : Z) (o : option Z) (K : Z -> res B),
  bind (match o with Some v => ret v | None => ret d end) K = K (rc_dflt d o).
Proof. intros. destruct o; reflexivity. Qed.

Theorem tint_rc_spec : forall rs re cs ce R C ai oi,
  t_standardize_row_column_indices rs re cs ce R C ai oi = rc_spec rs re cs ce R C ai oi.
Proof.
  intros. unfold t_standardize_row_column_indices, rc_spec. cbv zeta.
  rc_stage1 ai rs re cs ce. py_simpl.
  generalize (rc_pre ai rs) (rc_pre ai re) (rc_pre ai cs) (rc_pre ai ce). intros o1 o2 o3 o4.
  do 4 (rewrite rc_default_block; cbv beta).
  match goal with |- context [(?c =? 0) || (?r =? 0)] => destruct ((c =? 0) || (r =? 0)) end;
  py_simpl; [reflexivity|].
  match goal with |- context [(?c =? 0) || (?r =? 0)] => destruct ((c =? 0) || (r =? 0)) end;
  py_simpl; [reflexivity|].
  py_bind_ext; [unfold rc_start; py_crush|].
  py_bind_ext; [unfold rc_end; py_crush|].
  py_bind_ext; [unfold rc_start; py_crush|].
  py_bind_ext; [unfold rc_end; py_crush|].
  destruct oi; reflexivity.
Qed.
Print Assumptions tint_rc_spec.
