(* T-int equivalence obligation slice_indices/C03 (static text; compiled by harness/translate_int.py against
   the definition regenerated from the current source in <work>/TInt_Gen_*.v). *)
From Coq Require Import String ZArith List Bool Lia ZifyBool.
From HD Require Import Base.Val Base.PyInt C03_Model.
From Work Require Import TInt_Gen.
Import ListNotations.
Ltac Zify.zify_post_hook ::= Z.to_euclidean_division_equations.
Open Scope string_scope.
Open Scope Z_scope.

Theorem tint_slice_indices_C03 : forall s e n ai,
  t_standardize_slice_indices s e n ai = std_slice s e n ai.
Proof.
  intros. unfold t_standardize_slice_indices, std_slice. cbv zeta.
  (* the `if not as_indices` block is conv1 on both bounds *)
  match goal with
  | |- bind ?B _ = _ =>
      replace B with (bind (conv1 ai s) (fun s1 => bind (conv1 ai e) (fun e1 => Ok (s1, e1))));
      [ | symmetry; unfold conv1; destruct ai, s, e; py_crush ]
  end.
  rewrite bind_assoc. apply bind_ext; [reflexivity | intros s1].
  rewrite bind_assoc. apply bind_ext; [reflexivity | intros e1].
  destruct s1, e1; py_crush.
Qed.
Print Assumptions tint_slice_indices_C03.
