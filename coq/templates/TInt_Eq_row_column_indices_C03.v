(* T-int equivalence obligation row_column_indices/C03 (static text; compiled by harness/translate_int.py against
   the definition regenerated from the current source in <work>/TInt_Gen_*.v). *)
From Coq Require Import String ZArith List Bool Lia ZifyBool.
From HD Require Import Base.Val Base.PyInt C03_Model.
From Work Require Import TInt_Gen TInt_Spec_rc.
Import ListNotations.
Ltac Zify.zify_post_hook ::= Z.to_euclidean_division_equations.
Open Scope string_scope.
Open Scope Z_scope.

Lemma rc_spec_C03 : forall rs re cs ce R C ai oi,
  rc_spec rs re cs ce R C ai oi = std_rc rs re cs ce R C ai oi.
Proof.
  intros. unfold rc_spec, std_rc. cbv zeta.
  change (rc_pre ai) with (to_one_based ai).
  change (rc_dflt 1 (to_one_based ai rs)) with (match to_one_based ai rs with Some v => v | None => 1 end).
  change (rc_dflt (R + 1) (to_one_based ai re)) with (match to_one_based ai re with Some v => v | None => R + 1 end).
  change (rc_dflt 1 (to_one_based ai cs)) with (match to_one_based ai cs with Some v => v | None => 1 end).
  change (rc_dflt (C + 1) (to_one_based ai ce)) with (match to_one_based ai ce with Some v => v | None => C + 1 end).
  generalize (match to_one_based ai rs with Some v => v | None => 1 end)
             (match to_one_based ai re with Some v => v | None => R + 1 end)
             (match to_one_based ai cs with Some v => v | None => 1 end)
             (match to_one_based ai ce with Some v => v | None => C + 1 end).
  intros a b c d.
  destruct ((c =? 0) || (a =? 0)) eqn:Eg; [reflexivity|].
  destruct ((d =? 0) || (b =? 0)) eqn:Eg'; [reflexivity|].
  (* one axis bound at a time: every error path ends the proof, the single Ok path continues *)
  unfold rc_start at 1. destruct (R <? a) eqn:Ea; py_simpl; [reflexivity|].
  destruct (a <? 0) eqn:Ea0; py_simpl;
  [destruct (R + a + 1 <? 1) eqn:Ea1; py_simpl; [reflexivity|] | replace (a <? 1) with false by lia; py_simpl];
  (unfold rc_end at 1; destruct (R + 1 <? b) eqn:Eb; py_simpl; [reflexivity|];
   destruct (b <? 0) eqn:Eb0; py_simpl;
   [destruct (R + b + 1 <? 1) eqn:Eb1; py_simpl; [reflexivity|] | ];
   (unfold rc_start at 1; destruct (C <? c) eqn:Ec; py_simpl; [reflexivity|];
    destruct (c <? 0) eqn:Ec0; py_simpl;
    [destruct (C + c + 1 <? 1) eqn:Ec1; py_simpl; [reflexivity|] | replace (c <? 1) with false by lia; py_simpl];
    (unfold rc_end at 1; destruct (C + 1 <? d) eqn:Ed; py_simpl; [reflexivity|];
     destruct (d <? 0) eqn:Ed0; py_simpl;
     [destruct (C + d + 1 <? 1) eqn:Ed1; py_simpl; [reflexivity|] | ];
     destruct oi; reflexivity))).
Qed.

Theorem tint_row_column_indices_C03 : forall rs re cs ce R C ai oi,
  t_standardize_row_column_indices rs re cs ce R C ai oi = std_rc rs re cs ce R C ai oi.
Proof. intros. rewrite tint_rc_spec. apply rc_spec_C03. Qed.
Print Assumptions tint_row_column_indices_C03.
