(* T-int equivalence obligation frame_index/C05 (static text; compiled by harness/translate_int.py against
   the definition regenerated from the current source in <work>/TInt_Gen_*.v). *)
From Coq Require Import String ZArith List Bool Lia ZifyBool.
From HD Require Import Base.Val Base.PyInt C05_Model.
From Work Require Import TInt_Gen.
Import ListNotations.
Ltac Zify.zify_post_hook ::= Z.to_euclidean_division_equations.
Open Scope string_scope.
Open Scope Z_scope.

Theorem tint_frame_index_C05 : forall f ai n,
  t_standardize_frame_index f ai n = std_index n f ai.
Proof.
  intros. unfold t_standardize_frame_index, std_index.
  destruct ai; py_crush.
Qed.
Print Assumptions tint_frame_index_C05.
