(* T-int equivalence obligation bytes_per_frame/C05 (static text; compiled by harness/translate_int.py against
   the definition regenerated from the current source in <work>/TInt_Gen_*.v). *)
From Coq Require Import String ZArith List Bool Lia ZifyBool.
From HD Require Import Base.Val Base.PyInt C05_Model.
From Work Require Import TInt_Gen.
Import ListNotations.
Ltac Zify.zify_post_hook ::= Z.to_euclidean_division_equations.
Open Scope string_scope.
Open Scope Z_scope.

(* io.py ImageFileReader._bytes_per_frame_uncompressed; parameters of the generated definition:
   self._pixels_per_frame, metadata.BitsAllocated, metadata.PhotometricInterpretation ==
   'YBR_FULL_422', metadata.Rows, metadata.Columns.  The model's pixel count already carries the
   YBR_FULL_422 adjustment, which the code applies only when BitsAllocated <> 1. *)
Theorem tint_bytes_per_frame_C05 : forall ppf bits (ybr : bool) R C,
  t_bytes_per_frame_uncompressed ppf bits ybr R C
  = Ok (lazy_bpf bits (if negb (bits =? 1) && ybr then R * C * 2 else ppf)).
Proof.
  intros. unfold t_bytes_per_frame_uncompressed, lazy_bpf. cbv zeta.
  destruct (bits =? 1) eqn:E; cbn [negb andb].
  - unfold ret. f_equal. f_equal. py_norm. destruct (0 <? ppf mod 8); reflexivity.
  - destruct ybr; reflexivity.
Qed.
Print Assumptions tint_bytes_per_frame_C05.
