(* T-int equivalence obligation tile_pixel_matrix/C12 (static text; compiled by harness/translate_int.py against
   the definition regenerated from the current source in <work>/TInt_Gen_*.v). *)
From Coq Require Import String ZArith List Bool Lia ZifyBool.
From HD Require Import Base.Val Base.PyInt C12_Model.
From Work Require Import TInt_Gen .
Import ListNotations.
Ltac Zify.zify_post_hook ::= Z.to_euclidean_division_equations.
Open Scope string_scope.
Open Scope Z_scope.

(* int(np.ceil(a / b)) is read as the exact ceiling (PyInt.py_ceildiv; the float step is a
   stated trusted reading, exact below 2^53).  The hand model's cdiv a b = (a + b - 1) / b is
   that ceiling only for b > 0, hence the premises; for a tile size 0 the code raises
   ZeroDivisionError (second theorem), which the hand model does not represent. *)
Lemma ceil_cdiv : forall a b, 0 < b -> - ((- a) / b) = cdiv a b.
Proof. intros. unfold cdiv. nia. Qed.

Theorem tint_tile_pixel_matrix_C12 : forall R C th tw, 0 < th -> 0 < tw ->
  t_tile_pixel_matrix R C th tw = Ok (tile_pixel_matrix R C th tw).
Proof.
  intros R C th tw Hth Htw. unfold t_tile_pixel_matrix, tile_pixel_matrix, py_ceildiv.
  replace (th =? 0) with false by lia. replace (tw =? 0) with false by lia.
  py_simpl. cbv zeta. unfold ret. f_equal.
  rewrite !ceil_cdiv by assumption. rewrite !py_range_map_succ. unfold py_product, zrange.
  generalize (map Z.of_nat (seq 0 (Z.to_nat (cdiv R th)))) (map Z.of_nat (seq 0 (Z.to_nat (cdiv C tw)))).
  intros rl cl. induction rl as [|r rl IH]; [reflexivity|].
  cbn [map flat_map]. rewrite map_app, IH. f_equal. rewrite !map_map. reflexivity.
Qed.
Print Assumptions tint_tile_pixel_matrix_C12.

Theorem tint_tile_pixel_matrix_zero : forall R C th tw, th = 0 \/ tw = 0 ->
  t_tile_pixel_matrix R C th tw = Err "ZeroDivisionError".
Proof.
  intros R C th tw H. unfold t_tile_pixel_matrix, py_ceildiv.
  destruct (th =? 0) eqn:E1; [reflexivity|]. destruct (tw =? 0) eqn:E2; [reflexivity|]. lia.
Qed.
Print Assumptions tint_tile_pixel_matrix_zero.
