(* T-int equivalence obligation pixel_transform_flags/C06 (static text; compiled by harness/translate_int.py against
   the definition regenerated from the current source in <work>/TInt_Gen_*.v). *)
From Coq Require Import String ZArith List Bool Lia.
From HD Require Import Base.Val Base.PyInt Base.PyExt C06_Model.
From Work Require Import TInt_Gen_pixel_transform_flags.
Import ListNotations.
Open Scope string_scope.
Open Scope Z_scope.

(* The tri-state flag resolution and every incompatibility check at the head of
   _CombinedPixelTransform.__init__ (image.py), from `if apply_real_world_transform is None:` to
   `if require_icc and self._color_type == _ImageColorType.MONOCHROME: raise`, as the source reads NOW,
   is the hand model's [gate] - the function theorem C06_flags_tristate_gate is about.
   Reading of the arguments:  True / False / None  =  TT / TF / TN;
   self._color_type: the members of the enum _ImageColorType (the inductive is generated from the class
   body, so a new or renamed member makes [colour] below ill-formed and breaks this obligation). *)
Definition flag (t : tri) : option bool :=
  match t with TT => Some true | TF => Some false | TN => None end.
Definition colour (c : ctype) : E_ImageColorType :=
  match c with
  | Mono => E_ImageColorType_MONOCHROME
  | Palette => E_ImageColorType_PALETTE_COLOR
  | Color => E_ImageColorType_COLOR
  end.
(* both readings are onto: every argument vector of the code is the image of a model input *)
Lemma flag_onto : forall o, exists t, flag t = o.
Proof. intros [[|]|]; [exists TT | exists TF | exists TN]; reflexivity. Qed.
Lemma colour_onto : forall e, exists c, colour c = e.
Proof. intros []; [exists Mono | exists Color | exists Palette]; reflexivity. Qed.

Theorem tint_pixel_transform_flags_C06 : forall f ct,
  gate f ct =
  bind (t_pixel_transform_flags (flag (f_rwvm f)) (flag (f_mod f)) (flag (f_voi f))
                                (flag (f_pal f)) (flag (f_icc f)) (colour ct))
       (fun '(us_rw, rq_rw, us_mo, rq_mo, us_vo, rq_vo, us_pa, rq_pa, us_ic, rq_ic) =>
          Ok (Uses us_rw rq_rw us_mo rq_mo us_vo rq_vo us_pa rq_pa us_ic rq_ic)).
Proof.
  intros [rw mo vo pres pa ic] ct.
  destruct rw, mo, vo, pa, ic, ct; reflexivity.
Qed.
Print Assumptions tint_pixel_transform_flags_C06.

(* the presentation-LUT flag is not part of the gate: it is not read by the fragment *)
