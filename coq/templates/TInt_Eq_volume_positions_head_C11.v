(* T-int equivalence obligation volume_positions_head/C11 (static text; compiled by harness/translate_int.py against
   the definition regenerated from the current source in <work>/TInt_Gen_*.v). *)
From Coq Require Import String ZArith List Bool QArith Lia.
From HD Require Import Base.Val Base.PyInt Base.PyExt C11_Model.
From Work Require Import TInt_Gen_volume_positions_head.
Import ListNotations.
Open Scope string_scope.
Open Scope Z_scope.

(* The head of spatial.get_volume_positions as the source reads NOW - from `if not sort:` to the end of the
   rtol / atol chain: the two flag guards, the normalisation of spacing_hint (negative -> abs, 0 -> ValueError)
   and the tolerance defaults (both given -> TypeError; atol only -> rtol = 0; rtol only -> atol = 0;
   neither -> rtol = _DEFAULT_SPACING_RELATIVE_TOLERANCE (its literal is read from the module), atol = 0) -
   is the composition of the three head steps of the hand model's get_volume_positions.
   floats are rationals (as everywhere in C11_Model); a float literal is the decimal rational it denotes. *)
Theorem tint_volume_positions_head_C11 : forall sort dups missing hint rtol atol,
  t_volume_positions_head sort dups missing hint rtol atol =
  if negb sort && (dups || missing) then Err "ValueError"
  else bind (norm_hint hint) (fun h =>
       bind (tolerances rtol atol) (fun '(r, a) => Ok (h, r, a))).
Proof.
  intros sort dups missing hint rtol atol.
  unfold t_volume_positions_head, norm_hint, tolerances, default_rtol,
         py_qlt, py_qeq, py_qabs, Qlt_b, Qabs_.
  destruct sort, dups, missing; cbn [negb andb orb bind ret]; try reflexivity;
    (destruct hint as [h|]; cbn [bind ret];
     [ destruct (negb (Qle_bool 0 h)); cbn [bind ret];
       [ destruct (Qeq_bool (if Qle_bool 0 h then h else (- h)%Q) 0) | destruct (Qeq_bool h 0) ]
     | ]; cbn [bind ret]; try reflexivity;
     destruct rtol, atol; reflexivity).
Qed.
Print Assumptions tint_volume_positions_head_C11.

(* so the model's whole function starts with the translated head: whenever the head of the code raises, the
   model raises the same exception; whenever it falls through, the three values it hands on are the ones the
   rest of the model computes with *)
Theorem tint_volume_positions_head_err_C11 : forall ps rowc colc o k,
  t_volume_positions_head (o_sort o) (o_dups o) (o_missing o) (o_hint o) (o_rtol o) (o_atol o) = Err k ->
  get_volume_positions ps rowc colc o = Err k.
Proof.
  intros ps rowc colc o k. rewrite tint_volume_positions_head_C11. unfold get_volume_positions.
  destruct (negb (o_sort o) && (o_dups o || o_missing o)); [intros H; injection H as <-; reflexivity|].
  destruct (norm_hint (o_hint o)) as [h|e]; cbn [bind]; [|intros H; injection H as <-; reflexivity].
  destruct (tolerances (o_rtol o) (o_atol o)) as [[r a]|e]; cbn;
    [intros H; discriminate H|intros H; injection H as <-; reflexivity].
Qed.
Print Assumptions tint_volume_positions_head_err_C11.

Theorem tint_volume_positions_head_ok_C11 : forall o h r a,
  t_volume_positions_head (o_sort o) (o_dups o) (o_missing o) (o_hint o) (o_rtol o) (o_atol o) = Ok (h, r, a) ->
  negb (o_sort o) && (o_dups o || o_missing o) = false /\
  norm_hint (o_hint o) = Ok h /\ tolerances (o_rtol o) (o_atol o) = Ok (r, a).
Proof.
  intros o h r a. rewrite tint_volume_positions_head_C11.
  destruct (negb (o_sort o) && (o_dups o || o_missing o)); [intros H; discriminate H|].
  destruct (norm_hint (o_hint o)) as [h'|e]; cbn [bind]; [|intros H; discriminate H].
  destruct (tolerances (o_rtol o) (o_atol o)) as [[r' a']|e]; cbn; [|intros H; discriminate H].
  intros H; inversion H; subst; auto.
Qed.
Print Assumptions tint_volume_positions_head_ok_C11.
