(* T-int equivalence obligation pm_bits/C19 (static text; compiled by harness/translate_int.py against
   the definition regenerated from the current source in <work>/TInt_Gen_*.v). *)
From Coq Require Import String ZArith List Bool Lia.
From HD Require Import Base.Val Base.PyInt Base.PyExt C19_Model.
From Work Require Import TInt_Gen_pm_bits.
Import ListNotations.
Open Scope string_scope.
Open Scope Z_scope.

(* ParametricMap.__init__ (pm/sop.py): the chain `if pixel_data_type == _PixelDataType.USHORT: ... else: raise`
   that follows the call of _get_pixel_data_type_and_attr, as the source reads NOW.  For every dtype the model
   accepts ([pm_attr d = Ok (a, w)], w = element width in bytes, which is what pixel_array.itemsize is read as),
   BitsAllocated is 8 * w - the width the model's stored-bytes functions (pm_bytes w) use - and the integer-only
   attributes are written exactly for the PixelData case.  Slots: BitsAllocated, BitsStored, HighBit,
   PixelRepresentation (None = not written by this chain). *)
Definition attr_tag (a : attr) : E_PixelDataType :=
  match a with
  | PixelData => E_PixelDataType_USHORT
  | FloatPixelData => E_PixelDataType_SINGLE
  | DoubleFloatPixelData => E_PixelDataType_DOUBLE
  end.

Theorem tint_pm_bits_C19 : forall d a w,
  pm_attr d = Ok (a, w) ->
  t_pm_bits (attr_tag a) (Z.of_nat w) =
  Ok (8 * Z.of_nat w,
      match a with PixelData => Some (8 * Z.of_nat w) | _ => None end,
      match a with PixelData => Some (8 * Z.of_nat w - 1) | _ => None end,
      match a with PixelData => Some 0 | _ => None end).
Proof.
  intros d a w H. destruct d; cbn in H; try discriminate H; inversion H; subst; reflexivity.
Qed.
Print Assumptions tint_pm_bits_C19.

(* and the chain raises for no tag: its `else: raise ValueError` branch is dead for the closed enum *)
Theorem tint_pm_bits_total_C19 : forall e w, exists r, t_pm_bits e w = Ok r.
Proof. intros [] w; eexists; reflexivity. Qed.
Print Assumptions tint_pm_bits_total_C19.
