(* C10 - proofs, part 7: index arrays of any integer dtype (PixelToReference / PixelToPixel), and
   Volume (array-carrying, with channel dimensions) built from components / attributes *)
From Coq Require Import String Ascii ZArith List Bool QArith Qabs Qround Lia Lqa Qfield Setoid Morphisms.
From HD Require Import Base.Val C10_Model C10_Proofs C10_Proofs_T C10_Proofs_L C10_Proofs_V.
Import ListNotations.
Open Scope Q_scope.

Ltac proj := cbn [vx vy vz c0 c1 c2 lin tr fst snd].

(* ------------------------------------------------------------------ *)
(* index dtypes                                                        *)
(* ------------------------------------------------------------------ *)
Definition zrow (p : Z * Z) : list Q := [inject_Z (fst p); inject_Z (snd p)].
Definition dt_fits (dt : dtype) (p : Z * Z) : Prop :=
  (dt_lo dt <= fst p <= dt_hi dt)%Z /\ (dt_lo dt <= snd p <= dt_hi dt)%Z.
(* the point of the target image designated by pixel p of the source image, through the frame of reference *)
Definition via2 (P Rv : aff) (p : Q * Q) : vec := aapply Rv (aapply P (V3 (fst p) (snd p) 0)).

Lemma call_p_dt_index w dt pts f :
  dt_is_index dt = true -> forallb (forallb (dt_holds dt)) pts = true ->
  call_p_dt w dt pts f = call_p w true pts f.
Proof. intros I H. unfold call_p_dt. rewrite H, I. reflexivity. Qed.

Lemma call_p_dt_non_index dt pts f :
  dt_is_index dt = false -> forallb (forallb (dt_holds dt)) pts = true ->
  call_p_dt 2 dt pts f = VErr EType.
Proof. intros I H. unfold call_p_dt. rewrite H, I. reflexivity. Qed.

(* whatever integer dtype the indices are handed in, the three entry points answer what they
   answer for the default integer array *)
Theorem index_dtype_irrelevant dt w pts :
  dt_is_index dt = true -> forallb (forallb (dt_holds dt)) pts = true ->
  (forall pos ori sp, run_p2r_dt pos ori sp w dt pts = run_p2r pos ori sp w true pts) /\
  (forall pf of_ sf pt ot st round,
     run_p2p_dt pf of_ sf pt ot st round w dt pts = run_p2p pf of_ sf pt ot st round w true pts) /\
  (forall a b fa fb ta tb round,
     run_for_images_dt a b fa fb ta tb round dt pts =
     with_aff (for_images_p2p a b fa fb ta tb) (fun A => call_p 2 true pts (fun l => vpts (p2p_call A round l)))).
Proof.
  intros I H. split; [|split].
  - intros. unfold run_p2r_dt, run_p2r. destruct (p2r_make pos ori sp); cbn [with_aff]; [|reflexivity].
    rewrite (call_p_dt_index _ _ _ _ I H). reflexivity.
  - intros. unfold run_p2p_dt, run_p2p. destruct (p2p_make pf of_ sf pt ot st); cbn [with_aff]; [|reflexivity].
    rewrite (call_p_dt_index _ _ _ _ I H). reflexivity.
  - intros. unfold run_for_images_dt. destruct (for_images_p2p a b fa fb ta tb); cbn [with_aff]; [|reflexivity].
    rewrite (call_p_dt_index _ _ _ _ I H). reflexivity.
Qed.

(* float / bool arrays are refused by the call, not by the constructor *)
Theorem non_index_dtype_refused dt pts pf of_ sf pt ot st round T :
  dt_is_index dt = false -> forallb (forallb (dt_holds dt)) pts = true ->
  p2p_make pf of_ sf pt ot st = Ok T ->
  run_p2p_dt pf of_ sf pt ot st round 2 dt pts = VL [vaff T; VErr EType].
Proof.
  intros I H E. unfold run_p2p_dt. rewrite E. cbn [with_aff]. rewrite (call_p_dt_non_index _ _ _ I H). reflexivity.
Qed.

Lemma rne_compat a b : a == b -> rne a = rne b.
Proof.
  intro H. unfold rne. rewrite (Qfloor_comp _ _ H).
  assert (C : Qcompare (a - inject_Z (Qfloor b)) (1 # 2) = Qcompare (b - inject_Z (Qfloor b)) (1 # 2)).
  { apply Qcompare_comp; [rewrite H; reflexivity | reflexivity]. }
  rewrite C. reflexivity.
Qed.

Lemma dt_holds_Z dt z : dt_is_index dt = true -> (dt_lo dt <= z <= dt_hi dt)%Z -> dt_holds dt (inject_Z z) = true.
Proof.
  intros I (L & U). unfold dt_holds. unfold dt_is_index in I.
  destruct (dt_kind dt) eqn:K; try discriminate I; rewrite Qfloor_Z;
    (apply andb_true_iff; split; [apply andb_true_iff; split|]);
    try (apply Qeq_bool_iff; reflexivity); apply Z.leb_le; assumption.
Qed.

Lemma holds_zrows dt zs : dt_is_index dt = true -> Forall (dt_fits dt) zs ->
  forallb (forallb (dt_holds dt)) (map zrow zs) = true.
Proof.
  intros I F. induction F as [|p l (H1 & H2) F IH]; [reflexivity|].
  cbn [map forallb zrow]. rewrite (dt_holds_Z _ _ I H1), (dt_holds_Z _ _ I H2), IH. reflexivity.
Qed.

Lemma rows2_zrows zs : rows2 (map zrow zs) = Ok (map zpt zs).
Proof. induction zs as [|p l IH]; [reflexivity|]. cbn [map zrow rows2]. rewrite IH. reflexivity. Qed.

(* the rounded pixel-to-pixel call is the rounding of the point reached through the frame of reference *)
Theorem p2p_rounded_via_reference pf of_ sf pt ot st T :
  p2p_make pf of_ sf pt ot st = Ok T ->
  exists P Rv, p2r_make pf of_ sf = Ok P /\ r2p_make pt ot st 1 = Ok Rv /\
    forall pts,
      p2p_call T true pts = OutZ2 (map (fun p => (rne (vx (via2 P Rv p)), rne (vy (via2 P Rv p)))) pts) /\
      r2p_call Rv true false (call_2to3 P pts)
      = Ok (OutZ3 (map (fun p => (rne (vx (via2 P Rv p)), rne (vy (via2 P Rv p)), rne (vz (via2 P Rv p)))) pts)).
Proof.
  intro E. destruct (p2p_via_reference pf of_ sf pt ot st T E) as (P & Rv & EP & ER & V).
  exists P, Rv. split; [exact EP|]. split; [exact ER|]. intro pts. split.
  - unfold p2p_call, round2, call_2to2. rewrite map_map. f_equal. apply map_ext. intro p. cbn [fst snd].
    destruct (V (V3 (fst p) (snd p) 0)) as (X & Y & _). unfold via2.
    rewrite (rne_compat _ _ X), (rne_compat _ _ Y). reflexivity.
  - unfold r2p_call, round3, call_3to3, call_2to3. rewrite !map_map. reflexivity.
Qed.

(* one statement for the harness boundary: integer indices of ANY signed or unsigned dtype that can
   hold them give the int64 rounding of R2P_to(P2R_from(p)) - negative or large results included *)
Theorem p2p_any_index_dtype pf of_ sf pt ot st T dt (zs : list (Z * Z)) :
  p2p_make pf of_ sf pt ot st = Ok T -> dt_is_index dt = true -> Forall (dt_fits dt) zs ->
  exists P Rv, p2r_make pf of_ sf = Ok P /\ r2p_make pt ot st 1 = Ok Rv /\
    run_p2p_dt pf of_ sf pt ot st true 2 dt (map zrow zs)
    = VL [vaff T; VL (map (fun p => VL [VZ (rne (vx (via2 P Rv (zpt p)))); VZ (rne (vy (via2 P Rv (zpt p))))]) zs)] /\
    run_p2p_dt pf of_ sf pt ot st false 2 dt (map zrow zs)
    = VL [vaff T; VL (map (fun p => VL [VQ (vx (aapply T (V3 (inject_Z (fst p)) (inject_Z (snd p)) 0)));
                                         VQ (vy (aapply T (V3 (inject_Z (fst p)) (inject_Z (snd p)) 0)))]) zs)].
Proof.
  intros E I F. destruct (p2p_rounded_via_reference pf of_ sf pt ot st T E) as (P & Rv & EP & ER & C).
  exists P, Rv. split; [exact EP|]. split; [exact ER|].
  pose proof (holds_zrows dt zs I F) as H.
  split.
  - unfold run_p2p_dt. rewrite E. cbn [with_aff]. rewrite (call_p_dt_index _ _ _ _ I H).
    unfold call_p. cbn [Z.eqb Pos.eqb negb]. rewrite rows2_zrows. cbn [vres].
    rewrite (proj1 (C (map zpt zs))). cbn [vpts]. rewrite !map_map. reflexivity.
  - unfold run_p2p_dt. rewrite E. cbn [with_aff]. rewrite (call_p_dt_index _ _ _ _ I H).
    unfold call_p. cbn [Z.eqb Pos.eqb negb]. rewrite rows2_zrows. cbn [vres].
    unfold p2p_call, call_2to2. cbn [vpts]. rewrite !map_map. reflexivity.
Qed.

(* ------------------------------------------------------------------ *)
(* Volume with channel dimensions                                      *)
(* ------------------------------------------------------------------ *)
Lemma zlist_eqb_refl l : zlist_eqb l l = true.
Proof. induction l as [|x l IH]; [reflexivity|]. cbn [zlist_eqb]. rewrite Z.eqb_refl, IH. reflexivity. Qed.
Lemma zlist_eqb_eq a : forall b, zlist_eqb a b = true -> a = b.
Proof.
  induction a as [|x a IH]; intros [|y b] H; try discriminate H; [reflexivity|].
  cbn [zlist_eqb] in H. apply andb_true_iff in H as (H1 & H2). apply Z.eqb_eq in H1. rewrite H1, (IH _ H2). reflexivity.
Qed.

(* Volume.__init__ : what is accepted, and that the spatial shape is the FIRST three sizes *)
Theorem vol_make_ok_iff A ashape ch G :
  vol_make A ashape ch = Ok G <->
  (is_orthogonal (lin A) false tol5 = true /\ (3 <= length ashape)%nat /\ ch = skipn 3 ashape /\
   G = Geom A (firstn 3 ashape)).
Proof.
  unfold vol_make. destruct (is_orthogonal (lin A) false tol5).
  - destruct (length ashape <? 3)%nat eqn:L.
    + apply Nat.ltb_lt in L. split; [discriminate|]. intros (_ & L' & _). lia.
    + apply Nat.ltb_ge in L. destruct (zlist_eqb ch (skipn 3 ashape)) eqn:C.
      * apply zlist_eqb_eq in C. split.
        -- intro H. injection H as <-. repeat split; assumption.
        -- intros (_ & _ & _ & ->). reflexivity.
      * split; [discriminate|]. intros (_ & _ & -> & _). rewrite zlist_eqb_refl in C. discriminate C.
  - split; [discriminate|]. intros (H & _). discriminate H.
Qed.

Lemma vol_make_spatial A n0 n1 n2 ch : vol_make A ([n0; n1; n2] ++ ch) ch = geom_make A [n0; n1; n2].
Proof.
  unfold vol_make, geom_make. destruct (is_orthogonal (lin A) false tol5); [|reflexivity].
  cbn [app length Nat.ltb Nat.leb skipn firstn Nat.eqb]. rewrite zlist_eqb_refl. reflexivity.
Qed.

(* for EVERY argument combination (errors included) and every list of channel sizes the geometry of
   Volume.from_components(array of shape spatial ++ channels) is that of
   VolumeGeometry.from_components(spatial shape) *)
Theorem vol_channels_irrelevant n0 n1 n2 ch sp position center direction po cs :
  vol_from_components ([n0; n1; n2] ++ ch) ch sp position center direction po cs =
  geom_from_components [n0; n1; n2] sp position center direction po cs.
Proof.
  unfold vol_from_components, geom_from_components. cbn [app firstn].
  assert (E : bind (affine_from_components sp position center direction po (Some [n0; n1; n2]))
                   (fun A => vol_make A (n0 :: n1 :: n2 :: ch) ch) =
              bind (affine_from_components sp position center direction po (Some [n0; n1; n2]))
                   (fun A => geom_make A [n0; n1; n2])).
  { destruct (affine_from_components sp position center direction po (Some [n0; n1; n2])); [|reflexivity].
    cbn [bind]. apply (vol_make_spatial a n0 n1 n2 ch). }
  rewrite E. destruct po; reflexivity.
Qed.

Theorem vol_attr_channels_irrelevant nf rows cols ch pos ori sp ss :
  vol_from_attributes ([nf; rows; cols] ++ ch) ch pos ori sp ss = geom_from_attributes pos ori sp ss nf rows cols.
Proof.
  unfold vol_from_attributes, geom_from_attributes.
  destruct (affine_from_attributes pos ori sp ss DR true RHs); [|reflexivity].
  cbn [bind]. apply (vol_make_spatial a nf rows cols ch).
Qed.

Theorem geom_with_array_same G n0 n1 n2 ch :
  g_shape G = [n0; n1; n2] -> is_orthogonal (lin (g_aff G)) false tol5 = true ->
  geom_with_array G ([n0; n1; n2] ++ ch) ch = Ok G.
Proof.
  intros S O. unfold geom_with_array. cbn [app firstn]. rewrite S, zlist_eqb_refl.
  change (n0 :: n1 :: n2 :: ch) with ([n0; n1; n2] ++ ch). rewrite vol_make_spatial.
  unfold geom_make. rewrite O. cbn [length Nat.eqb]. destruct G as [A s]. cbn [g_aff g_shape] in *. rewrite S. reflexivity.
Qed.

(* Gram determinant: det(M)^2 = det(M^T M) *)
Lemma det_sq_gram M :
  det M * det M ==
  dot (c0 M) (c0 M) * dot (c1 M) (c1 M) * dot (c2 M) (c2 M)
  + 2 * dot (c0 M) (c1 M) * dot (c1 M) (c2 M) * dot (c0 M) (c2 M)
  - dot (c0 M) (c0 M) * dot (c1 M) (c2 M) * dot (c1 M) (c2 M)
  - dot (c1 M) (c1 M) * dot (c0 M) (c2 M) * dot (c0 M) (c2 M)
  - dot (c2 M) (c2 M) * dot (c0 M) (c1 M) * dot (c0 M) (c1 M).
Proof.
  destruct M as [[a b c] [d e f] [g h i]]. unfold det, dot, cross; proj. ring.
Qed.

Lemma det_nonzero_scaled M s0 s1 s2 : ortho_cols M -> veq (norms_sq M) (V3 (s0 * s0) (s1 * s1) (s2 * s2)) ->
  0 < s0 -> 0 < s1 -> 0 < s2 -> ~ det M == 0.
Proof.
  intros (O1 & O2 & O3) (N0 & N1 & N2) H0 H1 H2 Z. unfold norms_sq in *; cbn [vx vy vz] in *.
  pose proof (det_sq_gram M) as G. rewrite O1, O2, O3, N0, N1, N2, Z in G.
  assert (P : 0 < s0 * s0 * (s1 * s1) * (s2 * s2)).
  { repeat apply Qmult_lt_0_compat; assumption. }
  lra.
Qed.

Lemma Qlt_b_false a b : b <= a -> Qlt_b a b = false.
Proof. intro H. unfold Qlt_b. rewrite (proj2 (Qle_bool_iff b a) H). reflexivity. Qed.

Lemma centre_in_bounds G n0 n1 n2 v : g_shape G = [n0; n1; n2] -> (0 <= n0)%Z -> (0 <= n1)%Z -> (0 <= n2)%Z ->
  veq v (centre_index n0 n1 n2) -> g_in_bounds G v = true.
Proof.
  intros S H0 H1 H2 (E0 & E1 & E2). unfold centre_index in *; cbn [vx vy vz] in *.
  unfold g_in_bounds. rewrite S.
  assert (Q0 : 0 <= inject_Z n0) by (unfold Qle; cbn; lia).
  assert (Q1 : 0 <= inject_Z n1) by (unfold Qle; cbn; lia).
  assert (Q2 : 0 <= inject_Z n2) by (unfold Qle; cbn; lia).
  assert (D2 : forall x, x / 2 == x * (1 # 2)) by (intro x; field).
  rewrite D2 in E0, E1, E2.
  rewrite (Qlt_b_false (vx v)) by (rewrite E0; lra).
  rewrite (Qlt_b_false _ (vx v)) by (rewrite E0; lra).
  rewrite (Qlt_b_false (vy v)) by (rewrite E1; lra).
  rewrite (Qlt_b_false _ (vy v)) by (rewrite E1; lra).
  rewrite (Qlt_b_false (vz v)) by (rewrite E2; lra).
  rewrite (Qlt_b_false _ (vz v)) by (rewrite E2; lra).
  reflexivity.
Qed.

(* Volume.from_components(array of shape (n0, n1, n2) ++ channels, center_position=cp): accepted, spatial
   shape = (n0, n1, n2), orthogonal axes of the given lengths, center_position returns cp, cp maps back
   (bounds check on) to the centre index of the SPATIAL axes - whatever the channel dimensions are *)
Theorem vol_components_centre sp s0 s1 s2 D cp n0 n1 n2 ch cs :
  sarg3 sp = Some (s0, s1, s2) -> 0 < s0 -> 0 < s1 -> 0 < s2 ->
  ortho_cols D -> veq (norms_sq D) (V3 1 1 1) -> (0 <= n0)%Z -> (0 <= n1)%Z -> (0 <= n2)%Z ->
  exists G c i,
    vol_from_components ([n0; n1; n2] ++ ch) ch sp None (Some [vx cp; vy cp; vz cp]) (Some (rows_of D)) None cs = Ok G /\
    geom_from_components [n0; n1; n2] sp None (Some [vx cp; vy cp; vz cp]) (Some (rows_of D)) None cs = Ok G /\
    g_shape G = [n0; n1; n2] /\
    ortho_cols (lin (g_aff G)) /\ veq (norms_sq (lin (g_aff G))) (V3 (s0 * s0) (s1 * s1) (s2 * s2)) /\
    g_center_position G = Ok c /\ veq c cp /\
    g_center_indices G = Ok (centre_index n0 n1 n2) /\
    g_map_reference_to_indices_checked G [c] = Ok [i] /\ veq i (centre_index n0 n1 n2).
Proof.
  intros S H0 H1 H2 O N P0 P1 P2.
  destruct (components_centre sp s0 s1 s2 D cp n0 n1 n2 S H0 H1 H2 O N) as (A & EA & OC & NS & CE).
  pose proof (is_orthogonal_exact _ OC) as IO.
  set (G := Geom A [n0; n1; n2]).
  assert (EG : geom_from_components [n0; n1; n2] sp None (Some [vx cp; vy cp; vz cp]) (Some (rows_of D)) None cs = Ok G).
  { unfold geom_from_components. rewrite EA. cbn [bind]. unfold geom_make. rewrite IO. reflexivity. }
  assert (DN : ~ det (lin A) == 0) by (apply (det_nonzero_scaled _ s0 s1 s2); assumption).
  destruct (inv3_exists _ DN) as (Mi & EI).
  pose proof (inv3_ok _ _ EI) as I.
  set (B := Aff Mi (vneg (mapply Mi (tr A)))).
  assert (RT : forall p, veq (aapply B (aapply A p)) p).
  { intro p. unfold B, aapply; proj.
    transitivity (vadd (vadd (mapply Mi (mapply (lin A) p)) (mapply Mi (tr A))) (vneg (mapply Mi (tr A)))).
    - apply vadd_proper; [apply mapply_vadd | reflexivity].
    - transitivity (vadd (vadd p (mapply Mi (tr A))) (vneg (mapply Mi (tr A)))).
      + apply vadd_proper; [apply vadd_proper; [apply (proj1 (I p)) | reflexivity] | reflexivity].
      + apply vadd_cancel_r. }
  exists G, (aapply A (centre_index n0 n1 n2)), (aapply B (aapply A (centre_index n0 n1 n2))).
  split; [rewrite vol_channels_irrelevant; exact EG|]. split; [exact EG|]. split; [reflexivity|].
  split; [exact OC|]. split; [exact NS|]. split; [reflexivity|]. split; [exact CE|]. split; [reflexivity|].
  split; [|apply RT].
  unfold g_map_reference_to_indices_checked, g_map_reference_to_indices. cbn [g_aff G]. rewrite EI.
  cbn [bind call_3to3 map forallb]. fold B.
  rewrite (centre_in_bounds G n0 n1 n2 _ eq_refl P0 P1 P2 (RT _)). reflexivity.
Qed.
